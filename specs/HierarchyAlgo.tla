---------------------------- MODULE HierarchyAlgo ----------------------------
(* C05, design level (M): the front end's way of resolving inheritance, as a state machine.      *)
(*                                                                                               *)
(*   sort   _hierarchy._topologically_sort: depth-first search with temporary / permanent marks, *)
(*          roots picked from a *name-sorted* set of unmarked classes (one action per DFS step)  *)
(*   anc    _UnverifiedOntology.__init__: ancestors accumulated along the sorted order,          *)
(*          parents taken in sorted order; descendants by inverting                              *)
(*   link   _second_pass_to_resolve_ancestors_and_descendants_in_place: descendants copied,      *)
(*          ancestors rebuilt by inverting descendants in declaration order                      *)
(*   ser / inv / prop / meth   the stacking passes, one action per class in topological order    *)
(*   ctor   in-lining of super-constructor calls, one action per class in declaration order      *)
(*   iface  interface resolution                                                                 *)
(*                                                                                               *)
(* Dedupe = TRUE is the design with order-preserving de-duplication when the descendants are      *)
(* linked into the intermediate classes and when in-lined constructor statements are merged, and *)
(* with repeated assignments refused (the repaired design, notes/fixes/C05-*.patch);             *)
(* Dedupe = FALSE is the design of the pinned tree.  The properties at the bottom are the         *)
(* clauses of Hierarchy.tla evaluated on the machine's final state.                              *)
EXTENDS Hierarchy

CONSTANTS Dedupe     \* BOOLEAN
\* The machine starts from a case [h |-> hierarchy (with the written constructors h.ctor),
\* rank |-> <<rank of the class name in sorted order>>].  The set of cases is a parameter of InitWith
\* (see MC_HierarchyAlgo).

VARIABLES h, rank, pc,
          unmarked, perm, temp, stack, sorted, cycle,      \* DFS
          idx,                                             \* position within the current pass
          oanc, odesc,                                     \* ontology: ancestors / descendants (sequences)
          anc, desc,                                       \* as linked into the intermediate classes
          wmtR, sinv, sprop, smeth, inl, iface             \* stacked heritage
vars == <<h, rank, pc, unmarked, perm, temp, stack, sorted, cycle, idx, oanc, odesc, anc, desc,
          wmtR, sinv, sprop, smeth, inl, iface>>

Empty(n) == [c \in 1..n |-> <<>>]

\* order-preserving removal of repeats
RECURSIVE Uniq(_)
Uniq(s) == IF s = <<>> THEN <<>>
           ELSE LET r == Uniq(SubSeq(s, 1, Len(s) - 1))
                IN  IF s[Len(s)] \in Elems(r) THEN r ELSE Append(r, s[Len(s)])
Merge(s) == IF Dedupe THEN Uniq(s) ELSE s

RECURSIVE Flatten(_)
Flatten(ss) == IF ss = <<>> THEN <<>> ELSE Head(ss) \o Flatten(Tail(ss))

\* sequence of the elements of a finite set of ids ordered by key
RECURSIVE SortBy(_, _)
SortBy(S, key) ==
    IF S = {} THEN <<>>
    ELSE LET m == CHOOSE x \in S : \A y \in S : key[x] <= key[y]
         IN  <<m>> \o SortBy(S \ {m}, key)

InitWith(Cases) ==
    /\ \E cs \in Cases : h = cs.h /\ rank = cs.rank
    /\ pc = "sort" /\ unmarked = 1..h.n /\ perm = {} /\ temp = {} /\ stack = <<>> /\ sorted = <<>>
    /\ cycle = FALSE /\ idx = 1
    /\ oanc = Empty(h.n) /\ odesc = Empty(h.n) /\ anc = Empty(h.n) /\ desc = Empty(h.n)
    /\ wmtR = [c \in 1..h.n |-> "none"] /\ sinv = Empty(h.n) /\ sprop = Empty(h.n) /\ smeth = Empty(h.n)
    /\ inl = Empty(h.n) /\ iface = [c \in 1..h.n |-> FALSE]

---------------------------------------------------------------------------------
(* sort *)
PickRoot ==
    /\ pc = "sort" /\ stack = <<>> /\ unmarked # {} /\ ~cycle
    /\ LET c == CHOOSE x \in unmarked : \A y \in unmarked : rank[x] <= rank[y]
       IN  stack' = <<[c |-> c, k |-> 1]>> /\ temp' = temp \cup {c}
    /\ UNCHANGED <<h, rank, pc, unmarked, perm, sorted, cycle, idx, oanc, odesc, anc, desc, wmtR, sinv, sprop, smeth, inl, iface>>

Descend ==
    /\ pc = "sort" /\ stack # <<>> /\ ~cycle
    /\ LET f == stack[Len(stack)] IN
       /\ f.k <= Len(h.bases[f.c])
       /\ LET b == h.bases[f.c][f.k]
              adv == [stack EXCEPT ![Len(stack)].k = f.k + 1]
          IN  IF b \in perm THEN stack' = adv /\ UNCHANGED <<temp, cycle>>
              ELSE IF b \in temp THEN cycle' = TRUE /\ UNCHANGED <<stack, temp>>
              ELSE stack' = Append(adv, [c |-> b, k |-> 1]) /\ temp' = temp \cup {b} /\ UNCHANGED cycle
    /\ UNCHANGED <<h, rank, pc, unmarked, perm, sorted, idx, oanc, odesc, anc, desc, wmtR, sinv, sprop, smeth, inl, iface>>

Finish ==
    /\ pc = "sort" /\ stack # <<>> /\ ~cycle
    /\ LET f == stack[Len(stack)] IN
       /\ f.k > Len(h.bases[f.c])
       /\ stack' = SubSeq(stack, 1, Len(stack) - 1)
       /\ temp' = temp \ {f.c} /\ perm' = perm \cup {f.c} /\ unmarked' = unmarked \ {f.c}
       /\ sorted' = Append(sorted, f.c)
    /\ UNCHANGED <<h, rank, pc, cycle, idx, oanc, odesc, anc, desc, wmtR, sinv, sprop, smeth, inl, iface>>

SortDone ==
    /\ pc = "sort" /\ (cycle \/ (stack = <<>> /\ unmarked = {}))
    /\ pc' = IF cycle THEN "rejected" ELSE "anc"
    /\ idx' = 1
    /\ UNCHANGED <<h, rank, unmarked, perm, temp, stack, sorted, cycle, oanc, odesc, anc, desc, wmtR, sinv, sprop, smeth, inl, iface>>

---------------------------------------------------------------------------------
(* anc: ontology *)
OrderOf == [c \in 1..h.n |-> IF c \in Elems(sorted) THEN Pos(sorted, c) ELSE 0]

AccumulateAncestors ==
    /\ pc = "anc" /\ idx <= Len(sorted)
    /\ LET c == sorted[idx]
           ps == SortBy(Parents(h, c), OrderOf)
           acc == Flatten([k \in DOMAIN ps |-> Append(oanc[ps[k]], ps[k])])
       IN  oanc' = [oanc EXCEPT ![c] = acc]   \* repeats along several paths are kept here (pinned test_complex_graph)
    /\ idx' = idx + 1
    /\ UNCHANGED <<h, rank, pc, unmarked, perm, temp, stack, sorted, cycle, odesc, anc, desc, wmtR, sinv, sprop, smeth, inl, iface>>

\* "simply inverse": for cls in sorted order, for ancestor in ancestors(cls): descendants[ancestor].append(cls)
InvertOf(ancOf, order, target) ==
    Flatten([k \in DOMAIN order |->
        LET hits == SelectSeq(ancOf[order[k]], LAMBDA a : a = target)
        IN  [j \in DOMAIN hits |-> order[k]]])

InvertAncestors ==
    /\ pc = "anc" /\ idx > Len(sorted)
    /\ odesc' = [c \in 1..h.n |-> InvertOf(oanc, sorted, c)]
    /\ pc' = "link"
    /\ UNCHANGED <<h, rank, unmarked, perm, temp, stack, sorted, cycle, idx, oanc, anc, desc, wmtR, sinv, sprop, smeth, inl, iface>>

\* descendants copied (the repaired design skips repeats here); ancestors: for t in declaration order, for d in descendants(t): ancestors[d].append(t)
Link ==
    /\ pc = "link"
    /\ LET d2 == [c \in 1..h.n |-> Merge(odesc[c])]
       IN  desc' = d2 /\ anc' = [c \in 1..h.n |-> InvertOf(d2, [k \in 1..h.n |-> k], c)]
    /\ pc' = "ser" /\ idx' = 1
    /\ UNCHANGED <<h, rank, unmarked, perm, temp, stack, sorted, cycle, oanc, odesc, wmtR, sinv, sprop, smeth, inl, iface>>

---------------------------------------------------------------------------------
(* stacking passes, topological order *)
Bases(c) == h.bases[c]

StackSerialization ==
    /\ pc = "ser" /\ idx <= Len(sorted)
    /\ LET c == sorted[idx]
           fromBases == SelectSeq([k \in DOMAIN Bases(c) |-> wmtR[Bases(c)[k]]], LAMBDA v : v # "none")
           \* a bare @serialization() gives the class a settings object without a model-type setting
           settings == IF h.wmt[c] \in {"true", "false"} THEN Append(fromBases, h.wmt[c]) ELSE fromBases
       IN  IF ~IsClass(h, c) \/ settings = <<>> THEN UNCHANGED <<wmtR, pc>> /\ idx' = idx + 1
           ELSE IF \E k \in DOMAIN settings : settings[k] # settings[1]
                THEN pc' = "rejected" /\ UNCHANGED <<wmtR, idx>>
                ELSE wmtR' = [wmtR EXCEPT ![c] = settings[1]] /\ idx' = idx + 1 /\ UNCHANGED pc
    /\ UNCHANGED <<h, rank, unmarked, perm, temp, stack, sorted, cycle, oanc, odesc, anc, desc, sinv, sprop, smeth, inl, iface>>

SerializationDefaults ==
    /\ pc = "ser" /\ idx > Len(sorted)
    /\ wmtR' = [c \in 1..h.n |-> IF wmtR[c] = "none" THEN "false" ELSE wmtR[c]]
    /\ pc' = "inv" /\ idx' = 1
    /\ UNCHANGED <<h, rank, unmarked, perm, temp, stack, sorted, cycle, oanc, odesc, anc, desc, sinv, sprop, smeth, inl, iface>>

Own(c, names) == [k \in DOMAIN names |-> [name |-> names[k], owner |-> c]]
\* inherited members: the parents' stacked members in the order of the bases, first occurrence kept
\* (both the pinned and the repaired design skip repeats here)
Inherited(c, stacked) == Uniq(Flatten([k \in DOMAIN Bases(c) |-> stacked[Bases(c)[k]]]))
Reverse(s) == [k \in DOMAIN s |-> s[Len(s) + 1 - k]]

StackInvariants ==
    /\ pc = "inv" /\ idx <= Len(sorted)
    /\ LET c == sorted[idx]
       IN  sinv' = [sinv EXCEPT ![c] = Inherited(c, sinv) \o Own(c, Reverse(h.invs[c]))]
    /\ idx' = idx + 1
    /\ UNCHANGED <<h, rank, pc, unmarked, perm, temp, stack, sorted, cycle, oanc, odesc, anc, desc, wmtR, sprop, smeth, inl, iface>>

StackProperties ==
    /\ pc = "prop" /\ idx <= Len(sorted)
    /\ LET c == sorted[idx]
       IN  sprop' = [sprop EXCEPT ![c] = IF IsClass(h, c) THEN Inherited(c, sprop) \o Own(c, h.props[c]) ELSE <<>>]
    /\ idx' = idx + 1
    /\ UNCHANGED <<h, rank, pc, unmarked, perm, temp, stack, sorted, cycle, oanc, odesc, anc, desc, wmtR, sinv, smeth, inl, iface>>

\* methods: a method arriving from two parents is an error (no de-duplication), even if it is the same one
StackMethods ==
    /\ pc = "meth" /\ idx <= Len(sorted)
    /\ LET c == sorted[idx]
           inh == Flatten([k \in DOMAIN Bases(c) |-> smeth[Bases(c)[k]]])
           names == [k \in DOMAIN inh |-> inh[k].name]
       IN  IF ~IsClass(h, c) THEN UNCHANGED <<smeth, pc>> /\ idx' = idx + 1
           ELSE IF ~NoDup(names) \/ (Elems(names) \cap Elems(h.methods[c])) # {}
                THEN pc' = "rejected" /\ UNCHANGED <<smeth, idx>>
                ELSE smeth' = [smeth EXCEPT ![c] = inh \o Own(c, h.methods[c])] /\ idx' = idx + 1 /\ UNCHANGED pc
    /\ UNCHANGED <<h, rank, unmarked, perm, temp, stack, sorted, cycle, oanc, odesc, anc, desc, wmtR, sinv, sprop, inl, iface>>

NextPass(from, to) ==
    /\ pc = from /\ idx > Len(sorted)
    /\ pc' = to /\ idx' = 1
    /\ UNCHANGED <<h, rank, unmarked, perm, temp, stack, sorted, cycle, oanc, odesc, anc, desc, wmtR, sinv, sprop, smeth, inl, iface>>

\* constructors: *declaration* order (symbol_table.classes), which is only sound because a Python module
\* declares a base before its subclasses
InlineConstructor ==
    /\ pc = "ctor" /\ idx <= h.n
    /\ LET c == idx
           parts == [k \in DOMAIN h.ctor[c] |->
                        IF h.ctor[c][k].t = "super" THEN inl[h.ctor[c][k].b] ELSE <<h.ctor[c][k].p>>]
           written == SelectSeq(h.ctor[c], LAMBDA st : st.t = "assign")
           twice == ~NoDup([k \in DOMAIN written |-> written[k].p])
       IN  \* the repaired design refuses a constructor that assigns one property twice
           IF Dedupe /\ IsClass(h, c) /\ twice
           THEN pc' = "rejected" /\ UNCHANGED <<inl, idx>>
           ELSE /\ inl' = [inl EXCEPT ![c] = IF IsClass(h, c) THEN Merge(Flatten(parts)) ELSE <<>>]
                /\ idx' = idx + 1 /\ UNCHANGED pc
    /\ UNCHANGED <<h, rank, unmarked, perm, temp, stack, sorted, cycle, oanc, odesc, anc, desc, wmtR, sinv, sprop, smeth, iface>>

CtorDone ==
    /\ pc = "ctor" /\ idx > h.n
    /\ pc' = "iface"
    /\ UNCHANGED <<h, rank, unmarked, perm, temp, stack, sorted, cycle, idx, oanc, odesc, anc, desc, wmtR, sinv, sprop, smeth, inl, iface>>

ResolveInterfaces ==
    /\ pc = "iface"
    /\ iface' = [c \in 1..h.n |-> IsClass(h, c) /\ (h.abstract[c] \/ odesc[c] # <<>>)]
    /\ pc' = "done"
    /\ UNCHANGED <<h, rank, unmarked, perm, temp, stack, sorted, cycle, idx, oanc, odesc, anc, desc, wmtR, sinv, sprop, smeth, inl>>

Next ==
    \/ PickRoot \/ Descend \/ Finish \/ SortDone
    \/ AccumulateAncestors \/ InvertAncestors \/ Link
    \/ StackSerialization \/ SerializationDefaults
    \/ StackInvariants \/ NextPass("inv", "prop")
    \/ StackProperties \/ NextPass("prop", "meth")
    \/ StackMethods \/ NextPass("meth", "ctor")
    \/ InlineConstructor \/ CtorDone \/ ResolveInterfaces

SpecWith(Cases) == InitWith(Cases) /\ [][Next]_vars

---------------------------------------------------------------------------------
(* the machine's result in the vocabulary of Hierarchy.tla *)
Result ==
    [anc |-> anc, desc |-> desc,
     cdesc |-> [c \in 1..h.n |-> SelectSeq(desc[c], LAMBDA d : ~h.abstract[d])],
     props |-> sprop, invs |-> sinv, methods |-> smeth,
     ctor |-> inl, super |-> [c \in 1..h.n |-> 0],
     iface |-> iface, wmt |-> [c \in 1..h.n |-> wmtR[c] = "true"], topo |-> sorted]

DupClauses == {"AncestorsNoDup", "DescendantsNoDup", "ConcreteDescendantsNoDup", "CtorAssignsAtMostOnce"}

\* the design satisfies every clause (to be checked with Dedupe = TRUE)
DoneAllClauses == pc = "done" => ViolatedClauses(h, Result) = {}
\* the pinned design (Dedupe = FALSE): right without diamonds, and with diamonds wrong only by repeats
DoneRightWithoutDiamond == (pc = "done" /\ ~HasDiamond(h) /\ ~WrittenTwice(h)) => ViolatedClauses(h, Result) = {}
DoneOnlyRepeatsWrong == pc = "done" => ViolatedClauses(h, Result) \subseteq DupClauses
\* and it really is wrong on every diamond (this is the finding, at design level)
DoneDiamondRepeats == (pc = "done" /\ HasDiamond(h) /\ ~Dedupe) => "AncestorsNoDup" \in ViolatedClauses(h, Result)
\* every repeat of the pinned design has a source-level explanation (the fingerprints of the known findings)
DoneRepeatsExplained ==
    pc = "done" => \A name \in ViolatedClauses(h, Result) : Explanation(name, h, Result) # "none"

\* the DFS detects exactly the cyclic hierarchies, and otherwise sorts all classes
CycleIffCyclic == (pc # "sort") => (cycle <=> ~Acyclic(h))
SortedIsTopological == (pc \notin {"sort", "rejected"}) => Topological(h, [topo |-> sorted])
\* marks are disjoint, the DFS stack is a path of the hierarchy
MarksDisjoint == perm \cap temp = {} /\ Elems(sorted) = perm
StackIsPath == \A k \in 1..(Len(stack) - 1) : stack[k + 1].c \in Parents(h, stack[k].c)
\* rejection happens exactly for the documented reasons: a cycle, inconsistent model-type settings, or a
\* method reaching a class along two parents / being overridden (and, in the repaired design, a constructor
\* that assigns a property twice)
RejectedIffReason ==
    (pc \in {"done", "rejected"}) =>
        ((pc = "rejected") <=> (~Acyclic(h) \/ ~ModelTypeConsistentSource(h) \/ MethodClash(h)
                                \/ (Dedupe /\ WrittenTwice(h))))
=============================================================================
