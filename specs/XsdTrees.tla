------------------------------ MODULE XsdTrees ------------------------------
(* The family of regex trees used by C13 / C14: what TLC enumerates as meta-model patterns.     *)
(* Literals are written raw, backslash-escaped, or explicitly encoded (\xHH \xHH-uppercase      *)
(* \uXXXX \UXXXXXXXX); among them the regex metacharacters; character sets with such items,     *)
(* ranges ending in them, complemented sets; quantifiers ? * + {2} {1,2} {2,}; concatenations,  *)
(* groups and alternations around them.  Rich = FALSE gives the reduced family (quick tier).    *)
EXTENDS XsdConstraints, SequencesExt
CONSTANT Rich

---------------------------------------------------------------------------
(* pattern trees *)
NoQ == <<1, 1>>
Quants == {NoQ, <<0, 1>>, <<0, Inf>>, <<1, Inf>>, <<2, 2>>, <<1, 2>>, <<2, Inf>>}
WithQ(a, q) == IF q = NoQ THEN a ELSE Rep(a, q[1], q[2])
La == Lit(97, "raw")
Lb == Lit(98, "raw")

\* literals outside character sets:   a b - } e-acute U+1F600 | \. \$ \^ \* \\ \[ \] \( \) \+ \? \# |
\* \x2a \x2e \x5b \x24 \x5c \x7c \x2d \x5d \x5e \x7b \x7d \x28 \x29 \x2b \x3f \x61 \xe9 | \x2A \x7C |
\* \u00e9 \u0061 \u005d \u0100 | \U0001F600
RawLits == {97, 98, 45, 125, 233, 128512}
EscLits == {46, 36, 94, 42, 92, 91, 93, 40, 41, 43, 63, 35}
XLits   == {42, 46, 91, 36, 92, 124, 45, 93, 94, 123, 125, 40, 41, 43, 63, 97, 233}
LitAtomsRich ==
    {Lit(c, "raw") : c \in RawLits} \cup {Lit(c, "esc") : c \in EscLits} \cup {Lit(c, "x") : c \in XLits}
    \cup {Lit(c, "X") : c \in {42, 124}} \cup {Lit(c, "u") : c \in {233, 97, 93, 256}} \cup {Lit(128512, "U")}
LitAtomsPoor ==
    {Lit(c, "raw") : c \in {97, 45, 233}} \cup {Lit(c, "esc") : c \in {46, 36, 42, 92, 91}}
    \cup {Lit(c, "x") : c \in {42, 46, 91, 36, 92, 124, 45, 93, 94, 123, 97}}
    \cup {Lit(42, "X"), Lit(233, "u"), Lit(128512, "U")}
LitAtoms == IF Rich THEN LitAtomsRich ELSE LitAtomsPoor
MetaXLits == {Lit(c, "x") : c \in {42, 46, 91, 36, 92, 124, 93, 94, 123, 40, 43, 63}}

\* items of character sets
PlainItems   == {One(c, "raw") : c \in {97, 98, 36, 123, 125, 46, 42, 124, 40, 43, 233}}
SpecialItems == {One(c, "esc") : c \in {92, 91, 93, 94, 45}} \cup {One(c, "x") : c \in {45, 93, 94, 92, 91, 42, 36}}
                \cup {One(93, "X"), One(45, "X"), One(233, "u"), One(128512, "U")}
Ranges == {Rng(97, "raw", 99, "raw"), Rng(42, "x", 46, "x"), Rng(43, "raw", 45, "x"), Rng(90, "raw", 93, "x"),
           Rng(91, "x", 94, "x"), Rng(224, "u", 233, "u"), Rng(128512, "U", 128514, "U"), Rng(97, "raw", 124, "x"),
           Rng(33, "raw", 42, "x"), Rng(42, "X", 46, "X")}
Disjoint(r1, r2) == r1.hi < r2.lo \/ r2.hi < r1.lo
NoOverlap(rs) == \A p, q \in 1..Len(rs) : p < q => Disjoint(rs[p], rs[q])
Astral(r) == r.hi >= 65536
SetsRich ==
    {CSet(FALSE, <<i>>) : i \in PlainItems \cup SpecialItems \cup Ranges}
    \cup {CSet(FALSE, <<One(97, "raw"), i>>) : i \in {j \in SpecialItems \cup Ranges : Disjoint(j, One(97, "raw"))}}
    \cup {CSet(FALSE, <<i, One(98, "raw")>>) : i \in {j \in SpecialItems \cup Ranges : Disjoint(j, One(98, "raw"))}}
    \cup {CSet(TRUE, <<i>>) : i \in {j \in {One(97, "raw")} \cup SpecialItems \cup Ranges : ~Astral(j)}}
    \cup {CSet(TRUE, <<One(97, "raw"), i>>) : i \in {j \in SpecialItems : ~Astral(j)}}
    \cup {CSet(FALSE, <<One(45, "raw"), One(97, "raw")>>), CSet(FALSE, <<One(97, "raw"), One(45, "raw")>>),
          CSet(FALSE, <<One(97, "raw"), One(94, "raw")>>), CSet(TRUE, <<One(94, "raw")>>),
          CSet(FALSE, <<One(36, "raw"), One(94, "raw"), One(123, "raw"), One(125, "raw"), One(93, "esc"), One(45, "raw")>>),
          CSet(FALSE, <<One(36, "raw"), One(94, "raw"), One(123, "raw"), One(125, "raw"), One(45, "esc"), One(93, "esc")>>)}
SetsPoor ==
    {CSet(FALSE, <<i>>) : i \in {One(97, "raw"), One(36, "raw"), One(93, "esc"), One(45, "esc"), One(45, "x"), One(93, "x"), One(94, "x"),
                                 One(92, "x"), One(233, "u"), Rng(42, "x", 46, "x"), Rng(90, "raw", 93, "x"), Rng(128512, "U", 128514, "U")}}
    \cup {CSet(FALSE, <<One(97, "raw"), i>>) : i \in {One(45, "x"), One(93, "x"), One(94, "esc"), One(92, "esc")}}
    \cup {CSet(TRUE, <<i>>) : i \in {One(97, "raw"), One(93, "x"), One(94, "x")}}
    \cup {CSet(FALSE, <<One(45, "raw"), One(97, "raw")>>),
          CSet(FALSE, <<One(36, "raw"), One(94, "raw"), One(123, "raw"), One(125, "raw"), One(93, "esc"), One(45, "raw")>>)}
Sets == IF Rich THEN SetsRich ELSE SetsPoor

Atoms == LitAtoms \cup {Dot} \cup Sets
Trees ==
    {WithQ(a, q) : a \in Atoms, q \in Quants}
    \cup {Cat(<<La, WithQ(a, q), Lb>>) : a \in Atoms, q \in {NoQ, <<0, Inf>>}}
    \cup {Cat(<<x, y>>) : x \in MetaXLits, y \in MetaXLits \cup {La, Lit(46, "esc")}}
    \cup {Alt(<<La, a>>) : a \in LitAtoms}
    \cup {Rep(Alt(<<a, Lb>>), 1, 2) : a \in LitAtoms}
    \cup {Rep(Cat(<<La, a>>), 2, 2) : a \in LitAtoms}

=============================================================================
