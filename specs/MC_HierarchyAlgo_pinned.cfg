SPECIFICATION Spec
CONSTANTS
  Dedupe = FALSE
  N = 3
  Full = TRUE
  NSort = 3
  SortAllNames = FALSE
INVARIANT DoneRightWithoutDiamond
INVARIANT DoneOnlyRepeatsWrong
INVARIANT DoneDiamondRepeats
INVARIANT DoneRepeatsExplained
INVARIANT RejectedIffReason
