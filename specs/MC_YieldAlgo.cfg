SPECIFICATION Spec
CONSTANTS
  MaxSize = 3
INVARIANT SameEvents
INVARIANT AllTargetsExist
INVARIANT StackBounded
INVARIANT FinalWellFormed
INVARIANT NoopOnlyTrailing
