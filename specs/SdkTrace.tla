------------------------------ MODULE SdkTrace ------------------------------
(* V for C10, part 1: what the generated SDK did with every instance (serialize, de-serialize), judged against *)
(* the wire formats of Sdk.tla.  One initial state per observation record; one invariant per clause.           *)
EXTENDS SdkModels, Json, IOUtils
Obs == JsonDeserialize(IOEnv.VERIF_OBS)
\* (TLC does not cache Obs -- it would re-read the file at every use -- so the records are enumerated once, as a set, and
\* the record itself is the state; Rec.idx is its index in the harness's list)
VARIABLES Rec, expj, expx
ModelOf(o) == IF o.pa = 0 THEN (FixedModels \o DoubtfulModels)[o.mi] ELSE ParamModel(o.pa, o.pb)
Init1(o, m) == expj = ToJ(m, o.x) /\ expx = ToX(m, o.x)
Init == Rec \in ToSet(Obs) /\ Init1(Rec, ModelOf(Rec))
Next == UNCHANGED <<Rec, expj, expx>>
Accepted(v) == [o |-> "accepted", v |-> v]

\* the generator produced an importable SDK for the (accepted) meta-model and the instance could be built through it
\* (a meta-model the front end refuses leaves the property's antecedent false)
Inv_SdkGenerated == Rec.accepted => Rec.sdk /\ Rec.built
\* JSON
Inv_JsonForm == Rec.built => Rec.jo = "ok" /\ Rec.j = expj
Inv_JsonRoundTrip == Rec.built /\ Rec.jo = "ok" => Rec.rtj = Accepted(Rec.x)
Inv_JsonTextRoundTrip == Rec.built /\ Rec.jo = "ok" => Rec.rtjt = Accepted(Rec.x)
Inv_JsonFieldByField == (Rec.rtj.o = "accepted" => Rec.deepj) /\ (Rec.rtjt.o = "accepted" => Rec.deepjt)      \* compared on the Python side (floats)
\* XML, for XML-representable text only
Inv_XmlForm == Rec.built /\ Rec.xmlok => Rec.xo = "ok" /\ Rec.xparsed /\ Rec.xml = expx
Inv_XmlRoundTrip == Rec.built /\ Rec.xmlok /\ Rec.xo = "ok" => Rec.rtx = Accepted(Rec.x)
Inv_XmlFieldByField == Rec.rtx.o = "accepted" => Rec.deepx
=============================================================================
