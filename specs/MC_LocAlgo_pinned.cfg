SPECIFICATION Spec
CONSTANTS
  MaxLen = 6
  Design = "pinned"
INVARIANT Refines
