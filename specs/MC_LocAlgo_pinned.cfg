SPECIFICATION Spec
CONSTANTS
  MaxLen = 6
  Design = "pinned"
  Alphabet = {"x", "n"}
INVARIANT Refines
