---- MODULE MC_YieldAlgo ----
(* M phase of C26: the transcribed algorithm (YieldAlgo.tla) against the structured semantics, for *)
(* EVERY flow of size <= MaxSize and after EVERY pass, through the product machine.               *)
EXTENDS YieldAlgo, SequencesExt
CONSTANTS MaxSize
VARIABLES c, sk, loc, spent

F == SetToSeq(Flows(MaxSize))
\* case 5(j-1)+p = flow j after pass p; passes 1..4 are flat programs, pass 5 the subroutines
AlgoCases == TLCEval([n \in 1..(5 * Len(F)) |->
                 LET f == F[((n - 1) \div 5) + 1]
                     p == ((n - 1) % 5) + 1
                 IN  [flow |-> f, subs |-> Phase(f, p), flat |-> p < 5]])

M == INSTANCE YieldMachine WITH Cases <- AlgoCases, Budget <- 0
Spec == M!Spec

SameEvents == M!SameEvents
AllTargetsExist == M!AllTargetsExist
StackBounded == M!StackBounded
FinalWellFormed ==
    ~AlgoCases[c].flat =>
        LET subs == AlgoCases[c].subs IN
        /\ LabelsConsecutive(subs) /\ OnlyFirstLabelled(subs) /\ YieldEndsSubroutine(subs)
        /\ (Len(subs) > 0 => SubLabel(subs, 1) = 0)
\* P3 leaves at most one no-op, and only as the very last statement
NoopOnlyTrailing ==
    LET n == ((c - 1) % 5) + 1
        f == Flatten(AlgoCases[c].subs)
    IN  n >= 3 => \A i \in 1..Len(f) : f[i].k = "noop" => i = Len(f)
ASSUME PrintT(<<"@@PRINT@@ algo", Len(F), 5 * Len(F)>>)
====
