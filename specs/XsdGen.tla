------------------------------- MODULE XsdGen -------------------------------
(* G phase of C13 / C14: the case space, enumerated by TLC and written as JSON.                 *)
(*   len cores  : kind x recognised / unrecognised length atoms at 1..3 sources                 *)
(*   pat cores  : kind x 1..3 pattern trees at sources (own / desc / cprim / cprim_anc)         *)
(*   shapes     : chain length L, own class pa of the property, optional or not                 *)
(* A scenario is a compatible (core, shape) pair (XsdConstraints!WellFormed); the harness runs  *)
(* all of them (thorough) or a seeded sample (quick).                                           *)
EXTENDS XsdTrees, Json, IOUtils
CONSTANTS MaxC         \* largest constant in a length atom  (Rich, of XsdTrees: the full / the reduced tree family)

---------------------------------------------------------------------------
(* length atoms *)
Form(op, c, side) == [op |-> op, c |-> c, side |-> side]
FormsFull  == {Form(op, c, s) : op \in Ops, c \in 0..MaxC, s \in {"L", "R"}}
FormsMid   == {Form(op, c, s) : op \in Ops \ {"!="}, c \in 1..MaxC, s \in {"L", "R"}}
FormsSmall == {Form(op, c, "L") : op \in {"<=", ">=", "=="}, c \in 1..MaxC}
FormsFor(n) == IF n = 1 THEN FormsFull ELSE IF n = 2 THEN FormsMid ELSE FormsSmall

TgtOf(kind, src) == IF kind = "list_cprim" /\ src \in {"cprim", "cprim_anc", "cprim_anc2"} THEN "item" ELSE "val"

PlainCombos == {<<"own">>, <<"own", "own">>, <<"own", "desc">>, <<"desc">>, <<"own", "own", "desc">>}
CprimCombos == {<<"cprim">>, <<"cprim", "cprim">>, <<"cprim_anc">>, <<"cprim", "cprim_anc">>, <<"own", "cprim">>,
                <<"desc", "cprim">>, <<"own", "desc", "cprim">>, <<"own", "cprim", "cprim_anc">>,
                <<"cprim_anc2">>, <<"cprim_anc", "cprim_anc2">>}
CombosOf(kind) == IF kind \in CprimKinds THEN CprimCombos \cup PlainCombos ELSE PlainCombos

Core(fam, kind, atoms, pats, alpha) ==
    LET c == [fam |-> fam, kind |-> kind, atoms |-> atoms, pats |-> pats, alpha |-> alpha]
    IN  [fam |-> fam, kind |-> kind, atoms |-> atoms, pats |-> pats, alpha |-> alpha, feat |-> FeatureSeq(c)]
LenCoresOf(kind) ==
    UNION {
        {Core("len", kind, [q \in 1..Len(combo) |-> Atom(combo[q], TgtOf(kind, combo[q]), f[q].op, f[q].c, f[q].side)], <<>>, <<>>)
            : f \in [1..Len(combo) -> FormsFor(Len(combo))]}
        : combo \in CombosOf(kind)}
\* keep the instantiable ones: some length <= MaxC + 2 satisfies every atom on each target
LenCores ==
    {c \in UNION {LenCoresOf(kind) : kind \in Kinds \ ({"int"} \cup StubKinds)} :
        SatisfiableOn(c, "val", MaxC + 2) /\ SatisfiableOn(c, "item", MaxC + 2)}
    \cup {Core("len", kind, <<>>, <<>>, <<>>) : kind \in Kinds}

Alpha(trees) == SetToSortSeq(Boundary(trees), <)
OnePat(kind, src, t) == Core("pat", kind, <<>>, <<Pat(src, TgtOf(kind, src), t)>>, Alpha({t}))
\* single patterns: every tree on a str property of its own class; every 3rd-ish tree family member
\* also on the other (kind, source) positions
SinglePatCores ==
    {OnePat("str", "own", t) : t \in Trees}
    \cup {OnePat(ks[1], ks[2], WithQ(a, q)) : a \in Atoms, q \in {NoQ, <<1, Inf>>},
              ks \in {<<"cprim_str", "cprim">>, <<"cprim_str", "cprim_anc">>, <<"list_cprim", "cprim">>,
                      <<"str", "desc">>, <<"cprim_str", "own">>, <<"cprim_str", "cprim_anc2">>, <<"list_cprim", "cprim_anc2">>}}

\* several patterns on the same value: first x second (x third)
Firsts ==
    {WithQ(a, q) : a \in {La, Lit(46, "esc"), Lit(36, "esc"), Lit(42, "esc"), Lit(42, "x"), Lit(46, "x"), Lit(36, "x"), Lit(233, "u"),
                          Lit(233, "raw"), CSet(FALSE, <<Rng(97, "raw", 99, "raw")>>), CSet(FALSE, <<One(97, "raw"), One(93, "esc")>>),
                          CSet(FALSE, <<One(97, "raw"), One(45, "esc")>>), CSet(FALSE, <<One(97, "raw"), One(45, "x")>>),
                          CSet(TRUE, <<One(98, "raw")>>), Dot},
                   q \in {NoQ, <<1, Inf>>}}
    \cup {Cat(<<La, Lb>>), Cat(<<La, Rep(Dot, 0, Inf)>>), Alt(<<La, Lb>>), Rep(Alt(<<La, Lb>>), 1, Inf)}
    \* a literal backslash in front of a letter ( \\\\d  \\\\w  \\\\s  \\\\D : "C:\\data" ), alone and repeated
    \cup {Cat(<<Lit(92, "esc"), Lit(c, "raw")>>) : c \in {100, 119, 115, 68}}
    \cup {Rep(Cat(<<Lit(92, "esc"), Lit(100, "raw")>>), 1, Inf), Cat(<<La, Lit(92, "esc"), Lit(119, "raw")>>)}
    \* classes that reach the control character DEL (greenery prints it back as an escape)
    \cup {Rep(CSet(FALSE, <<Rng(97, "raw", 127, "X")>>), 1, Inf), Rep(CSet(FALSE, <<Rng(126, "raw", 127, "x")>>), 0, Inf),
          Rep(CSet(FALSE, <<One(97, "raw"), One(127, "x")>>), 1, Inf)}
Seconds ==
    {Rep(Dot, 1, 2), Rep(Dot, 2, 2), Rep(Dot, 0, Inf), Rep(Dot, 1, Inf), Rep(CSet(FALSE, <<Rng(97, "raw", 99, "raw")>>), 1, Inf),
     Cat(<<La, Rep(Dot, 0, Inf)>>), Cat(<<Rep(Dot, 0, Inf), Lb>>), Rep(CSet(TRUE, <<One(97, "raw")>>), 0, Inf),
     Rep(Alt(<<La, Lb>>), 1, Inf)}
PairPlaces == {<<"str", "own", "own">>, <<"str", "own", "desc">>, <<"cprim_str", "own", "cprim">>, <<"cprim_str", "cprim", "cprim_anc">>,
               <<"cprim_str", "cprim", "cprim">>, <<"list_cprim", "cprim", "cprim_anc">>, <<"cprim_str", "cprim_anc", "cprim_anc2">>}
MultiPatCores ==
    {Core("pat", pl[1], <<>>, <<Pat(pl[2], TgtOf(pl[1], pl[2]), t1), Pat(pl[3], TgtOf(pl[1], pl[3]), t2)>>, Alpha({t1, t2}))
        : pl \in PairPlaces, t1 \in Firsts, t2 \in Seconds}
    \cup {Core("pat", "cprim_str", <<>>, <<Pat("own", "val", t1), Pat("cprim", "val", t2), Pat("cprim_anc", "val", Rep(Dot, 1, 2))>>, Alpha({t1, t2}))
        : t1 \in Firsts, t2 \in Seconds \ {Rep(Dot, 1, 2)}}

\* pattern and length together (facets side by side in one restriction)
MixedCores ==
    {Core("pat", "str", <<Atom("own", "val", f.op, f.c, "L")>>, <<Pat("own", "val", t)>>, Alpha({t}))
        : f \in {Form(">=", 1, "L"), Form("<=", 2, "L")}, t \in {Rep(La, 0, Inf), Rep(Lit(42, "x"), 1, Inf), Rep(CSet(FALSE, <<Rng(97, "raw", 99, "raw")>>), 0, Inf)}}

\* cpo: declaration order of the constrained primitives (0 parents first, 1 Cp in the middle, 2 children first)
Shapes == {[L |-> l, pa |-> p, opt |-> o, cpo |-> c] : l \in 1..3, p \in 1..3, o \in BOOLEAN, c \in 0..2}
ShapesOk == {s \in Shapes : s.pa <= s.L}

Out == [len |-> SetToSeq(LenCores), pat |-> SetToSeq(SinglePatCores), multi |-> SetToSeq(MultiPatCores \cup MixedCores), shapes |-> SetToSeq(ShapesOk)]
ASSUME JsonSerialize(IOEnv.VERIF_OUT, Out)
ASSUME PrintT(<<"@@PRINT@@ cores", Cardinality(LenCores), Cardinality(SinglePatCores), Cardinality(MultiPatCores \cup MixedCores), Cardinality(Trees)>>)
VARIABLE dummy
Init == dummy = 0
Next == UNCHANGED dummy
=============================================================================
