------------------------------- MODULE XsdGen -------------------------------
(* G phase of C13 / C14: the case space, enumerated by TLC and written as JSON.                 *)
(*   len cores  : kind x recognised / unrecognised length atoms at 1..3 sources                 *)
(*   pat cores  : kind x 1..3 pattern trees at sources (own / desc / cprim / cprim_anc)         *)
(*   shapes     : chain length L, own class pa of the property, optional or not                 *)
(* A scenario is a compatible (core, shape) pair (XsdConstraints!WellFormed); the harness runs  *)
(* all of them (thorough) or a seeded sample (quick).                                           *)
EXTENDS XsdConstraints, Json, IOUtils, SequencesExt
CONSTANTS MaxC,        \* largest constant in a length atom
          Rich         \* TRUE: the full tree family; FALSE: a reduced one (quick tier)

---------------------------------------------------------------------------
(* length atoms *)
Form(op, c, side) == [op |-> op, c |-> c, side |-> side]
FormsFull  == {Form(op, c, s) : op \in Ops, c \in 0..MaxC, s \in {"L", "R"}}
FormsMid   == {Form(op, c, s) : op \in Ops \ {"!="}, c \in 1..MaxC, s \in {"L", "R"}}
FormsSmall == {Form(op, c, "L") : op \in {"<=", ">=", "=="}, c \in 1..MaxC}
FormsFor(n) == IF n = 1 THEN FormsFull ELSE IF n = 2 THEN FormsMid ELSE FormsSmall

TgtOf(kind, src) == IF kind = "list_cprim" /\ src \in {"cprim", "cprim_anc"} THEN "item" ELSE "val"

PlainCombos == {<<"own">>, <<"own", "own">>, <<"own", "desc">>, <<"desc">>, <<"own", "own", "desc">>}
CprimCombos == {<<"cprim">>, <<"cprim", "cprim">>, <<"cprim_anc">>, <<"cprim", "cprim_anc">>, <<"own", "cprim">>,
                <<"desc", "cprim">>, <<"own", "desc", "cprim">>, <<"own", "cprim", "cprim_anc">>}
CombosOf(kind) == IF kind \in CprimKinds THEN CprimCombos \cup PlainCombos ELSE PlainCombos

Core(fam, kind, atoms, pats, alpha) ==
    LET c == [fam |-> fam, kind |-> kind, atoms |-> atoms, pats |-> pats, alpha |-> alpha]
    IN  [fam |-> fam, kind |-> kind, atoms |-> atoms, pats |-> pats, alpha |-> alpha, feat |-> FeatureSeq(c)]
LenCoresOf(kind) ==
    UNION {
        {Core("len", kind, [q \in 1..Len(combo) |-> Atom(combo[q], TgtOf(kind, combo[q]), f[q].op, f[q].c, f[q].side)], <<>>, <<>>)
            : f \in [1..Len(combo) -> FormsFor(Len(combo))]}
        : combo \in CombosOf(kind)}
\* keep the instantiable ones: some length <= MaxC + 2 satisfies every atom on each target
LenCores ==
    {c \in UNION {LenCoresOf(kind) : kind \in Kinds \ {"int"}} :
        SatisfiableOn(c, "val", MaxC + 2) /\ SatisfiableOn(c, "item", MaxC + 2)}
    \cup {Core("len", kind, <<>>, <<>>, <<>>) : kind \in Kinds}

---------------------------------------------------------------------------
(* pattern trees *)
NoQ == <<1, 1>>
Quants == {NoQ, <<0, 1>>, <<0, Inf>>, <<1, Inf>>, <<2, 2>>, <<1, 2>>, <<2, Inf>>}
WithQ(a, q) == IF q = NoQ THEN a ELSE Rep(a, q[1], q[2])
La == Lit(97, "raw")
Lb == Lit(98, "raw")

\* literals outside character sets:   a b - } e-acute U+1F600 | \. \$ \^ \* \\ \[ \] \( \) \+ \? \# |
\* \x2a \x2e \x5b \x24 \x5c \x7c \x2d \x5d \x5e \x7b \x7d \x28 \x29 \x2b \x3f \x61 \xe9 | \x2A \x7C |
\* \u00e9 \u0061 \u005d \u0100 | \U0001F600
RawLits == {97, 98, 45, 125, 233, 128512}
EscLits == {46, 36, 94, 42, 92, 91, 93, 40, 41, 43, 63, 35}
XLits   == {42, 46, 91, 36, 92, 124, 45, 93, 94, 123, 125, 40, 41, 43, 63, 97, 233}
LitAtomsRich ==
    {Lit(c, "raw") : c \in RawLits} \cup {Lit(c, "esc") : c \in EscLits} \cup {Lit(c, "x") : c \in XLits}
    \cup {Lit(c, "X") : c \in {42, 124}} \cup {Lit(c, "u") : c \in {233, 97, 93, 256}} \cup {Lit(128512, "U")}
LitAtomsPoor ==
    {Lit(c, "raw") : c \in {97, 45, 233}} \cup {Lit(c, "esc") : c \in {46, 36, 42, 92, 91}}
    \cup {Lit(c, "x") : c \in {42, 46, 91, 36, 92, 124, 45, 93, 94, 123, 97}}
    \cup {Lit(42, "X"), Lit(233, "u"), Lit(128512, "U")}
LitAtoms == IF Rich THEN LitAtomsRich ELSE LitAtomsPoor
MetaXLits == {Lit(c, "x") : c \in {42, 46, 91, 36, 92, 124, 93, 94, 123, 40, 43, 63}}

\* items of character sets
PlainItems   == {One(c, "raw") : c \in {97, 98, 36, 123, 125, 46, 42, 124, 40, 43, 233}}
SpecialItems == {One(c, "esc") : c \in {92, 91, 93, 94, 45}} \cup {One(c, "x") : c \in {45, 93, 94, 92, 91, 42, 36}}
                \cup {One(93, "X"), One(45, "X"), One(233, "u"), One(128512, "U")}
Ranges == {Rng(97, "raw", 99, "raw"), Rng(42, "x", 46, "x"), Rng(43, "raw", 45, "x"), Rng(90, "raw", 93, "x"),
           Rng(91, "x", 94, "x"), Rng(224, "u", 233, "u"), Rng(128512, "U", 128514, "U"), Rng(97, "raw", 124, "x"),
           Rng(33, "raw", 42, "x"), Rng(42, "X", 46, "X")}
Disjoint(r1, r2) == r1.hi < r2.lo \/ r2.hi < r1.lo
NoOverlap(rs) == \A p, q \in 1..Len(rs) : p < q => Disjoint(rs[p], rs[q])
Astral(r) == r.hi >= 65536
SetsRich ==
    {CSet(FALSE, <<i>>) : i \in PlainItems \cup SpecialItems \cup Ranges}
    \cup {CSet(FALSE, <<One(97, "raw"), i>>) : i \in {j \in SpecialItems \cup Ranges : Disjoint(j, One(97, "raw"))}}
    \cup {CSet(FALSE, <<i, One(98, "raw")>>) : i \in {j \in SpecialItems \cup Ranges : Disjoint(j, One(98, "raw"))}}
    \cup {CSet(TRUE, <<i>>) : i \in {j \in {One(97, "raw")} \cup SpecialItems \cup Ranges : ~Astral(j)}}
    \cup {CSet(TRUE, <<One(97, "raw"), i>>) : i \in {j \in SpecialItems : ~Astral(j)}}
    \cup {CSet(FALSE, <<One(45, "raw"), One(97, "raw")>>), CSet(FALSE, <<One(97, "raw"), One(45, "raw")>>),
          CSet(FALSE, <<One(97, "raw"), One(94, "raw")>>), CSet(TRUE, <<One(94, "raw")>>),
          CSet(FALSE, <<One(36, "raw"), One(94, "raw"), One(123, "raw"), One(125, "raw"), One(93, "esc"), One(45, "raw")>>),
          CSet(FALSE, <<One(36, "raw"), One(94, "raw"), One(123, "raw"), One(125, "raw"), One(45, "esc"), One(93, "esc")>>)}
SetsPoor ==
    {CSet(FALSE, <<i>>) : i \in {One(97, "raw"), One(36, "raw"), One(93, "esc"), One(45, "esc"), One(45, "x"), One(93, "x"), One(94, "x"),
                                 One(92, "x"), One(233, "u"), Rng(42, "x", 46, "x"), Rng(90, "raw", 93, "x"), Rng(128512, "U", 128514, "U")}}
    \cup {CSet(FALSE, <<One(97, "raw"), i>>) : i \in {One(45, "x"), One(93, "x"), One(94, "esc"), One(92, "esc")}}
    \cup {CSet(TRUE, <<i>>) : i \in {One(97, "raw"), One(93, "x"), One(94, "x")}}
    \cup {CSet(FALSE, <<One(45, "raw"), One(97, "raw")>>),
          CSet(FALSE, <<One(36, "raw"), One(94, "raw"), One(123, "raw"), One(125, "raw"), One(93, "esc"), One(45, "raw")>>)}
Sets == IF Rich THEN SetsRich ELSE SetsPoor

Atoms == LitAtoms \cup {Dot} \cup Sets
Trees ==
    {WithQ(a, q) : a \in Atoms, q \in Quants}
    \cup {Cat(<<La, WithQ(a, q), Lb>>) : a \in Atoms, q \in {NoQ, <<0, Inf>>}}
    \cup {Cat(<<x, y>>) : x \in MetaXLits, y \in MetaXLits \cup {La, Lit(46, "esc")}}
    \cup {Alt(<<La, a>>) : a \in LitAtoms}
    \cup {Rep(Alt(<<a, Lb>>), 1, 2) : a \in LitAtoms}
    \cup {Rep(Cat(<<La, a>>), 2, 2) : a \in LitAtoms}

Alpha(trees) == SetToSortSeq(Boundary(trees), <)
OnePat(kind, src, t) == Core("pat", kind, <<>>, <<Pat(src, TgtOf(kind, src), t)>>, Alpha({t}))
\* single patterns: every tree on a str property of its own class; every 3rd-ish tree family member
\* also on the other (kind, source) positions
SinglePatCores ==
    {OnePat("str", "own", t) : t \in Trees}
    \cup {OnePat(ks[1], ks[2], WithQ(a, q)) : a \in Atoms, q \in {NoQ, <<1, Inf>>},
              ks \in {<<"cprim_str", "cprim">>, <<"cprim_str", "cprim_anc">>, <<"list_cprim", "cprim">>,
                      <<"str", "desc">>, <<"cprim_str", "own">>}}

\* several patterns on the same value: first x second (x third)
Firsts ==
    {WithQ(a, q) : a \in {La, Lit(46, "esc"), Lit(36, "esc"), Lit(42, "esc"), Lit(42, "x"), Lit(46, "x"), Lit(36, "x"), Lit(233, "u"),
                          Lit(233, "raw"), CSet(FALSE, <<Rng(97, "raw", 99, "raw")>>), CSet(FALSE, <<One(97, "raw"), One(93, "esc")>>),
                          CSet(FALSE, <<One(97, "raw"), One(45, "esc")>>), CSet(FALSE, <<One(97, "raw"), One(45, "x")>>),
                          CSet(TRUE, <<One(98, "raw")>>), Dot},
                   q \in {NoQ, <<1, Inf>>}}
    \cup {Cat(<<La, Lb>>), Cat(<<La, Rep(Dot, 0, Inf)>>), Alt(<<La, Lb>>), Rep(Alt(<<La, Lb>>), 1, Inf)}
Seconds ==
    {Rep(Dot, 1, 2), Rep(Dot, 2, 2), Rep(Dot, 0, Inf), Rep(Dot, 1, Inf), Rep(CSet(FALSE, <<Rng(97, "raw", 99, "raw")>>), 1, Inf),
     Cat(<<La, Rep(Dot, 0, Inf)>>), Cat(<<Rep(Dot, 0, Inf), Lb>>), Rep(CSet(TRUE, <<One(97, "raw")>>), 0, Inf),
     Rep(Alt(<<La, Lb>>), 1, Inf)}
PairPlaces == {<<"str", "own", "own">>, <<"str", "own", "desc">>, <<"cprim_str", "own", "cprim">>, <<"cprim_str", "cprim", "cprim_anc">>,
               <<"cprim_str", "cprim", "cprim">>, <<"list_cprim", "cprim", "cprim_anc">>}
MultiPatCores ==
    {Core("pat", pl[1], <<>>, <<Pat(pl[2], TgtOf(pl[1], pl[2]), t1), Pat(pl[3], TgtOf(pl[1], pl[3]), t2)>>, Alpha({t1, t2}))
        : pl \in PairPlaces, t1 \in Firsts, t2 \in Seconds}
    \cup {Core("pat", "cprim_str", <<>>, <<Pat("own", "val", t1), Pat("cprim", "val", t2), Pat("cprim_anc", "val", Rep(Dot, 1, 2))>>, Alpha({t1, t2}))
        : t1 \in Firsts, t2 \in Seconds \ {Rep(Dot, 1, 2)}}

\* pattern and length together (facets side by side in one restriction)
MixedCores ==
    {Core("pat", "str", <<Atom("own", "val", f.op, f.c, "L")>>, <<Pat("own", "val", t)>>, Alpha({t}))
        : f \in {Form(">=", 1, "L"), Form("<=", 2, "L")}, t \in {Rep(La, 0, Inf), Rep(Lit(42, "x"), 1, Inf), Rep(CSet(FALSE, <<Rng(97, "raw", 99, "raw")>>), 0, Inf)}}

Shapes == {[L |-> l, pa |-> p, opt |-> o] : l \in 1..3, p \in 1..3, o \in BOOLEAN}
ShapesOk == {s \in Shapes : s.pa <= s.L}

Out == [len |-> SetToSeq(LenCores), pat |-> SetToSeq(SinglePatCores), multi |-> SetToSeq(MultiPatCores \cup MixedCores), shapes |-> SetToSeq(ShapesOk)]
ASSUME JsonSerialize(IOEnv.VERIF_OUT, Out)
ASSUME PrintT(<<"@@PRINT@@ cores", Cardinality(LenCores), Cardinality(SinglePatCores), Cardinality(MultiPatCores \cup MixedCores), Cardinality(Trees)>>)
VARIABLE dummy
Init == dummy = 0
Next == UNCHANGED dummy
=============================================================================
