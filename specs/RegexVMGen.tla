---- MODULE RegexVMGen ----
(***************************************************************************************************)
(* G phase of C18: anchored patterns (one alternative, first term "^", last term "$") as trees, with   *)
(* concrete syntax and a string alphabet without line breaks.  Families:                             *)
(*   V1  one term: literals (incl. astral and encoded), ".", sets (one to six ranges, unsorted,        *)
(*       complemented) x quantifiers (greedy; a few non-greedy ones)                                  *)
(*   V2  two terms over reduced atoms and quantifiers                                                *)
(*   V3  a group of one to three alternatives under a loop quantifier, alone and followed by a literal *)
(*   V4  nested quantified groups (loops of non-consuming instructions)                              *)
(*   V5  special shapes: the ".*$" suffix and its look-alikes, "$" and "^" inside the pattern,         *)
(*       wide bounded repetitions, empty pattern, empty groups                                       *)
(*   V6  products of repetitions: (x q1) q2 for all pairs of quantifier shapes                       *)
(***************************************************************************************************)
EXTENDS Regex, Json, IOUtils, TLC, SequencesExt
CONSTANTS Wide, AlphaCap, LenCap, Budget

cA == 97   cB == 98   cC == 99   cSmile == 128512   cEacute == 233
a == Chr(cA, FALSE)
b == Chr(cB, FALSE)
P(c) == Chr(c, FALSE)
T(v) == Term(v, NoQ)
QStar == Q(0, Unbounded, FALSE)
QPlus == Q(1, Unbounded, FALSE)
QOpt == Q(0, 1, FALSE)
Anch(ts) == OneCat(<<Term(Start, NoQ)>> \o ts \o <<Term(End, NoQ)>>)

ManyRanges == <<Rng(P(109), P(110)), Rng(P(97), P(99)), Rng(P(103), P(105)), Single(P(122)), Rng(P(48), P(57)), Rng(P(65), P(70))>>
Sets == {CSet(FALSE, <<Rng(a, P(cC))>>), CSet(TRUE, <<Single(a)>>), CSet(FALSE, <<Single(P(cC)), Single(a)>>),
         CSet(FALSE, <<Rng(P(cC), P(100)), Rng(a, b)>>), CSet(TRUE, <<Rng(P(cC), P(100)), Single(a)>>),
         CSet(FALSE, ManyRanges), CSet(TRUE, ManyRanges), CSet(FALSE, SubSeq(ManyRanges, 1, 4)),
         CSet(FALSE, <<Rng(Chr(cSmile, TRUE), Chr(cSmile + 1, TRUE)), Single(a)>>), CSet(FALSE, <<Single(P(45)), Single(P(93))>>)}
\* (U+10000, the first code point that needs two UTF-16 code units, as the largest character of a pattern)
Atoms == {a, Chr(cSmile, FALSE), Chr(cEacute, TRUE), Chr(123, TRUE), P(45), P(46), Dot, Chr(65536, TRUE),
          CSet(FALSE, <<Single(a), Single(Chr(65536, TRUE))>>), CSet(FALSE, <<Rng(Chr(57344, TRUE), Chr(65536, TRUE))>>)} \cup Sets
Quantifiers == {NoQ, QOpt, QStar, QPlus, Q(2, 2, FALSE), Q(1, 2, FALSE), Q(0, 2, FALSE), Q(2, Unbounded, FALSE), Q(0, 0, FALSE), Q(1, 1, FALSE),
                Q(3, 5, FALSE), Q(3, Unbounded, FALSE)}
NonGreedy == {Q(0, Unbounded, TRUE), Q(1, 2, TRUE)}
V1 == {Anch(<<Term(v, q)>>) : v \in Atoms, q \in Quantifiers} \cup {Anch(<<Term(v, q)>>) : v \in {a, Dot}, q \in NonGreedy}

FewAtoms == {a, b, Dot, CSet(FALSE, <<Rng(a, P(cC))>>), CSet(TRUE, <<Single(a)>>)} \cup (IF Wide THEN {Chr(cSmile, FALSE), CSet(FALSE, ManyRanges)} ELSE {})
FewQ == {NoQ, QStar, Q(1, 2, FALSE)} \cup (IF Wide THEN {QPlus, QOpt, Q(2, 2, FALSE)} ELSE {})
FewTerms == {Term(v, q) : v \in FewAtoms, q \in FewQ}
V2 == {Anch(<<t1, t2>>) : t1 \in FewTerms, t2 \in FewTerms}

Cats == {Cat(<<>>), Cat(<<T(a)>>), Cat(<<T(a), T(b)>>), Cat(<<Term(a, QStar)>>), Cat(<<T(b), Term(End, NoQ)>>)}
        \cup (IF Wide THEN {Cat(<<T(b)>>), Cat(<<Term(a, QOpt), T(b)>>)} ELSE {})
Alts(n) == UNION {{Alt(cs) : cs \in [1..m -> Cats]} : m \in 1..n}
LoopQ == {NoQ, QStar, QPlus, QOpt, Q(2, 2, FALSE), Q(1, 2, FALSE)}
V3 == {Anch(<<Term(Group(x), q)>>) : x \in Alts(IF Wide THEN 3 ELSE 2), q \in LoopQ}
      \cup {Anch(<<Term(Group(x), q), T(b)>>) : x \in Alts(2), q \in {QStar, QOpt, Q(1, 2, FALSE)}}

Inner == {OneCat(<<T(a)>>), OneCat(<<Term(a, QStar)>>), OneCat(<<Term(a, QOpt)>>), Alt(<<Cat(<<T(a)>>), Cat(<<>>)>>), Alt(<<Cat(<<>>), Cat(<<>>)>>), Alt(<<Cat(<<>>)>>)}
V4 == {Anch(<<Term(Group(OneTerm(Term(Group(x), q1))), q2)>> \o tail) :
         x \in (IF Wide THEN Inner ELSE {OneCat(<<T(a)>>), OneCat(<<Term(a, QStar)>>), Alt(<<Cat(<<T(a)>>), Cat(<<>>)>>), Alt(<<Cat(<<>>)>>)}),
         q1 \in {QStar, QOpt} \cup (IF Wide THEN {QPlus, Q(1, 2, FALSE)} ELSE {}),
         q2 \in {QStar, Q(2, 2, FALSE)} \cup (IF Wide THEN {QPlus, Q(2, Unbounded, FALSE)} ELSE {}), tail \in {<<>>, <<T(b)>>}}

DotStar == Term(Dot, QStar)
V5 == {Anch(<<>>), Anch(<<DotStar>>), Anch(<<T(a), DotStar>>), Anch(<<DotStar, T(a)>>), Anch(<<T(a), DotStar, T(b)>>),
       Anch(<<T(a), Term(Dot, QPlus)>>), Anch(<<T(a), Term(Dot, Q(0, 2, FALSE))>>), Anch(<<Term(Group(OneCat(<<T(a), DotStar>>)), NoQ)>>),
       Anch(<<T(a), Term(Group(OneTerm(DotStar)), NoQ)>>), Anch(<<T(a), Term(CSet(TRUE, <<Single(b)>>), QStar)>>),
       Anch(<<T(a), Term(End, NoQ), T(b)>>), Anch(<<T(a), Term(End, NoQ)>>), Anch(<<Term(Group(Alt(<<Cat(<<T(a), Term(End, NoQ)>>), Cat(<<T(b)>>)>>)), NoQ), Term(P(cC), QStar)>>),
       Anch(<<T(a), Term(Start, NoQ), T(b)>>), Anch(<<Term(Group(OneCat(<<Term(Start, NoQ), T(a)>>)), NoQ)>>), Anch(<<Term(Start, NoQ), T(a)>>),
       Anch(<<Term(Group(Alt(<<Cat(<<Term(Start, NoQ), T(a)>>), Cat(<<T(b)>>)>>)), NoQ)>>),
       Anch(<<Term(Group(Alt(<<>>)), NoQ)>>), Anch(<<Term(Group(Alt(<<>>)), QStar), T(a)>>), Anch(<<Term(Group(OneCat(<<>>)), QPlus)>>),
       Anch(<<Term(a, Q(4, 6, FALSE))>>), Anch(<<Term(Group(OneCat(<<T(a), T(b)>>)), Q(2, 3, FALSE))>>),
       Anch(<<Term(a, Q(0, Unbounded, TRUE)), T(b)>>), Anch(<<Term(Group(OneTerm(Term(a, Q(1, Unbounded, TRUE)))), QStar)>>)}

\* V6: a quantified group whose only content is one quantified term, (x q1) q2, for every pair of quantifier shapes --
\* the product of two repetitions incl. the corners "outer minimum 0 / inner minimum >= 2" -- alone and followed by a
\* literal, with one and (Wide) two pairs of parentheses, over a literal and (Wide) a two-character group
NestQ == {NoQ, QOpt, QStar, QPlus, Q(2, 2, FALSE), Q(1, 2, FALSE), Q(2, Unbounded, FALSE), Q(3, Unbounded, FALSE)}
         \cup (IF Wide THEN {Q(0, 2, FALSE), Q(0, 0, FALSE), Q(2, 3, FALSE), Q(0, Unbounded, FALSE)} ELSE {})
Wrap(t, deep) == IF deep THEN Group(OneTerm(Term(Group(OneTerm(t)), NoQ))) ELSE Group(OneTerm(t))
V6 == {Anch(<<Term(Wrap(Term(x, q1), deep), q2)>> \o tail) :
         x \in {a} \cup (IF Wide THEN {Group(OneCat(<<T(a), T(b)>>))} ELSE {}),
         q1 \in NestQ \ {NoQ}, q2 \in NestQ \ {NoQ}, deep \in (IF Wide THEN BOOLEAN ELSE {FALSE}), tail \in {<<>>, <<T(b)>>}}

Families == <<V1, V2, V3, V4, V5, V6>>
FamilyNames == <<"V1", "V2", "V3", "V4", "V5", "V6">>

\* strings without line breaks: the boundary alphabet minus line feed and carriage return
\* (trees that mention many code points -- sets with many ranges -- get a wider alphabet and hence shorter strings)
VmAlphabet(tree) == BoundaryCapped(tree, (IF Cardinality(Mentioned(tree)) > 6 THEN 2 * AlphaCap + 2 ELSE AlphaCap) + 1) \ {10, 13}
CaseOf(f, tree) ==
  LET A == VmAlphabet(tree)
  IN [fam |-> FamilyNames[f], tree |-> tree, text |-> RenderSpec(tree, Canonical), alpha |-> SetToSeq(A),
      maxlen |-> LengthFor(A, LenCap, Budget)]
\* (a pattern with an empty group "()" written as text parses to an alternation with one empty concatenation; both shapes
\* are kept: the tree only documents the intention, the runner always works on what retree.parse returns)
Cases == UNION {{CaseOf(f, t) : t \in {x \in Families[f] : WritableAlt(x)}} : f \in 1..Len(Families)}

ASSUME JsonSerialize(IOEnv.VERIF_OUT, SetToSeq(Cases))
ASSUME PrintT(<<"@@PRINT@@ cases", Cardinality(Cases), [f \in 1..Len(Families) |-> Cardinality(Families[f])]>>)
VARIABLE dummy
Init == dummy = 0
Next == UNCHANGED dummy
====
