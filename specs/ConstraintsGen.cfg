INIT Init
NEXT Next
CONSTANTS
  MaxC = 3
  ChainCs = {0, 2, 3}
  Triples = FALSE
  TripleCs = {0}
  DiaCs = {1, 3}
