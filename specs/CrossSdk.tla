------------------------------- MODULE CrossSdk -------------------------------
(***************************************************************************************************)
(* C09 -- reference semantics every generated SDK (Python, C++, Java, TypeScript) has to agree on.  *)
(*                                                                                                 *)
(* The module is variable-free.  It defines                                                        *)
(*   1. abstract meta-models (classes, properties, invariants as expression trees, enumerations,   *)
(*      constrained primitives, pattern functions, constants),                                     *)
(*   2. values (instances) and a compact evaluator of the invariant forms,                         *)
(*   3. the reference verification result  RefErrors(m, x)  (set of <<path, description>>),         *)
(*   4. the reference wire format  ToJsonable(m, x)  and a total three-valued de-serialiser        *)
(*      FromJsonable(m, cls, doc)  in {accept x, reject, either},                                  *)
(*   5. document mutations,                                                                        *)
(*   6. the reference constant / enumeration tables (constant-set closure over superset_of,        *)
(*      literal <-> text),                                                                         *)
(*   7. the agreement predicates used by CrossSdkTrace (observation of a target vs reference, and  *)
(*      observation of a target vs observation of the Python SDK).                                 *)
(*                                                                                                 *)
(* Strings that are *data* (values of instances, constants, enumeration texts) are sequences of    *)
(* code points; integers are sign + decimal digits, because TLC's integers are 32 bit and the      *)
(* interesting values are at the 64-bit boundary.  Names and descriptions are TLA+ strings.        *)
(***************************************************************************************************)
EXTENDS Integers, Sequences, FiniteSets, TLC

(***************************************************************************************************)
(* 0. small helpers                                                                                *)
(***************************************************************************************************)
MinOf(S) == CHOOSE x \in S : \A y \in S : x <= y
RangeOf(s) == {s[i] : i \in 1..Len(s)}

RECURSIVE ConcatAll(_)
ConcatAll(ss) == IF Len(ss) = 0 THEN <<>> ELSE Head(ss) \o ConcatAll(Tail(ss))

\* keep the first occurrence of every record with a distinct .name
RECURSIVE DedupByName(_, _)
DedupByName(s, seen) ==
  IF Len(s) = 0 THEN <<>>
  ELSE IF Head(s).name \in seen THEN DedupByName(Tail(s), seen)
       ELSE <<Head(s)>> \o DedupByName(Tail(s), seen \cup {Head(s).name})

RECURSIVE SetAsSeq(_)
SetAsSeq(S) == IF S = {} THEN <<>> ELSE LET x == CHOOSE y \in S : TRUE IN <<x>> \o SetAsSeq(S \ {x})

RECURSIVE NatDigits(_)
NatDigits(n) == IF n < 10 THEN <<n>> ELSE NatDigits(n \div 10) \o <<n % 10>>

(***************************************************************************************************)
(* 1. types, meta-models                                                                           *)
(***************************************************************************************************)
TInt == [k |-> "int"]
TStr == [k |-> "str"]
TBool == [k |-> "bool"]
TFloat == [k |-> "float"]
TBytes == [k |-> "bytes"]
TEnum(n) == [k |-> "enum", n |-> n]
TClass(n) == [k |-> "class", n |-> n]
TCprim(n) == [k |-> "cprim", n |-> n]
TList(t) == [k |-> "list", of |-> t]
TOpt(t) == [k |-> "opt", of |-> t]

IsOpt(t) == t.k = "opt"
Base(t) == IF t.k = "opt" THEN t.of ELSE t

\* property: name (Python name in the meta-model), json (wire name: lower camel case), type
P(n, j, t) == [name |-> n, json |-> j, type |-> t]
Inv(d, e) == [desc |-> d, e |-> e]

Find(seq, n) == seq[CHOOSE i \in 1..Len(seq) : seq[i].name = n]
Has(seq, n) == \E i \in 1..Len(seq) : seq[i].name = n
ClassOf(m, n) == Find(m.classes, n)
EnumOf(m, n) == Find(m.enums, n)
CprimOf(m, n) == Find(m.cprims, n)
PatternOf(m, n) == Find(m.patterns, n)
ConstOf(m, n) == Find(m.consts, n)

RECURSIVE AncestorsOrSelf(_, _)
AncestorsOrSelf(m, cn) ==
  {cn} \cup UNION {AncestorsOrSelf(m, b) : b \in RangeOf(ClassOf(m, cn).bases)}

ConcreteBelow(m, cn) ==
  {m.classes[i].name : i \in {j \in 1..Len(m.classes) :
        ~m.classes[j].abstract /\ cn \in AncestorsOrSelf(m, m.classes[j].name)}}

\* constructor / wire order of the properties: ancestors' (per base order, first occurrence wins), then own
RECURSIVE RawProps(_, _)
RawProps(m, cn) ==
  LET c == ClassOf(m, cn) IN
  ConcatAll([i \in 1..Len(c.bases) |-> RawProps(m, c.bases[i])]) \o c.props
AllProps(m, cn) == DedupByName(RawProps(m, cn), {})

WithModelType(m, cn) == \E a \in AncestorsOrSelf(m, cn) : ClassOf(m, a).wmt

\* chain of a constrained primitive: itself, its parent constrained primitive, ...
RECURSIVE CprimChain(_, _)
CprimChain(m, n) ==
  LET c == CprimOf(m, n) IN
  IF Has(m.cprims, c.base) THEN <<n>> \o CprimChain(m, c.base) ELSE <<n>>
CprimPrim(m, n) == LET ch == CprimChain(m, n) IN CprimOf(m, ch[Len(ch)]).base   \* "str", "int", ...

(***************************************************************************************************)
(* 2. values                                                                                       *)
(***************************************************************************************************)
None == [t |-> "none"]
IntV(neg, d) == [t |-> "int", neg |-> neg, d |-> d]      \* d: digits, no leading zero; zero is <<0>>, never neg
NatV(n) == IntV(FALSE, NatDigits(n))
StrV(cps) == [t |-> "str", v |-> cps]
BoolV(b) == [t |-> "bool", v |-> b]
FloatV(tok) == [t |-> "float", v |-> tok]                \* opaque token (TLC has no floats)
BytesV(bs) == [t |-> "bytes", v |-> bs]
EnumV(e, l) == [t |-> "enum", e |-> e, l |-> l]          \* l = literal name
ListV(xs) == [t |-> "list", v |-> xs]
InstV(c, f) == [t |-> "inst", c |-> c, f |-> f]          \* f: record  property name -> value

CmpDigits(a, b) ==
  IF Len(a) # Len(b) THEN (IF Len(a) < Len(b) THEN -1 ELSE 1)
  ELSE LET diff == {i \in 1..Len(a) : a[i] # b[i]} IN
       IF diff = {} THEN 0 ELSE (IF a[MinOf(diff)] < b[MinOf(diff)] THEN -1 ELSE 1)
CmpInt(x, y) ==
  IF x.neg /\ ~y.neg THEN -1
  ELSE IF ~x.neg /\ y.neg THEN 1
  ELSE IF x.neg THEN CmpDigits(y.d, x.d) ELSE CmpDigits(x.d, y.d)

Int64Max == IntV(FALSE, <<9,2,2,3,3,7,2,0,3,6,8,5,4,7,7,5,8,0,7>>)
Int64Min == IntV(TRUE, <<9,2,2,3,3,7,2,0,3,6,8,5,4,7,7,5,8,0,8>>)
InInt64(x) == CmpInt(Int64Min, x) <= 0 /\ CmpInt(x, Int64Max) <= 0

ValEq(x, y) ==
  IF x.t # y.t THEN FALSE
  ELSE CASE x.t = "none" -> TRUE
         [] x.t = "int" -> CmpInt(x, y) = 0
         [] x.t = "enum" -> x.e = y.e /\ x.l = y.l
         [] OTHER -> x.v = y.v          \* str, bool, float token, bytes

(***************************************************************************************************)
(* 3. invariant expressions and their evaluation (Python semantics of the forms used)              *)
(***************************************************************************************************)
\* value expressions
ESelf == [op |-> "self"]                                  \* constrained primitives: the value itself
EProp(n) == [op |-> "prop", n |-> n]                      \* self.n
EVar(n) == [op |-> "var", n |-> n]                        \* comprehension variable
EAttr(a, n) == [op |-> "attr", a |-> a, n |-> n]          \* a.n
EInt(neg, d) == [op |-> "int", neg |-> neg, d |-> d]
ENat(n) == EInt(FALSE, NatDigits(n))
ENeg(n) == EInt(TRUE, NatDigits(n))
EStr(cps) == [op |-> "str", v |-> cps]
ELit(e, l) == [op |-> "enumlit", e |-> e, l |-> l]        \* Enum.Literal
ELen(a) == [op |-> "len", a |-> a]
\* boolean expressions
ECmp(o, a, b) == [op |-> "cmp", o |-> o, a |-> a, b |-> b]  \* o in lt le gt ge eq ne
EIsNone(a) == [op |-> "isnone", a |-> a]
EIsSome(a) == [op |-> "issome", a |-> a]
ENot(a) == [op |-> "not", a |-> a]
EAnd(args) == [op |-> "and", args |-> args]
EOr(args) == [op |-> "or", args |-> args]
EImpl(a, b) == [op |-> "implies", a |-> a, b |-> b]        \* written  not (a) or (b)
EAll(v, over, body) == [op |-> "all", v |-> v, over |-> over, body |-> body]
EAny(v, over, body) == [op |-> "any", v |-> v, over |-> over, body |-> body]
EMatch(fn, a) == [op |-> "match", fn |-> fn, a |-> a]       \* pattern verification function
EIn(a, set) == [op |-> "in", a |-> a, set |-> set]           \* a in Constant_set
EFlag(a) == [op |-> "flag", a |-> a]                         \* a boolean-valued value expression used as a condition

\* ---- patterns: ^ atom* $ ; atom = [ranges, neg, min, max] (max = -1: unbounded) --------------------
Atom(ranges, neg, min, max) == [ranges |-> ranges, neg |-> neg, min |-> min, max |-> max]
InRanges(rs, c) == \E i \in 1..Len(rs) : rs[i][1] <= c /\ c <= rs[i][2]
AtomAdmits(a, c) == IF a.neg THEN ~InRanges(a.ranges, c) ELSE InRanges(a.ranges, c)
\* The meta-model language is Python: a pattern function is  match(pattern, text) is not None  and Python's `$`
\* matches at the end of the text *and just before a line feed that ends the text*.
AtDollar(s, i) == i = Len(s) + 1 \/ (i = Len(s) /\ s[i] = 10)
RECURSIVE MatchFrom(_, _, _, _)
MatchFrom(p, k, s, i) ==
  IF k > Len(p) THEN AtDollar(s, i)
  ELSE LET a == p[k]
           rest == Len(s) - i + 1
           hi == IF a.max = -1 \/ a.max > rest THEN rest ELSE a.max
       IN \E n \in a.min..hi : (\A j \in i..(i + n - 1) : AtomAdmits(a, s[j])) /\ MatchFrom(p, k + 1, s, i + n)
FullMatch(p, s) == MatchFrom(p, 1, s, 1)

\* ---- constant sets: the declared literals.  `superset_of` is a *declared relation* the front end checks
\* (every literal of a listed subset must be repeated in the superset); it adds no members by itself.
ConstSetMembers(m, n) == ConstOf(m, n).v     \* a sequence (code-point sequences / literal names / digit records)
SupersetsDeclaredWell(m) ==
  \A i \in 1..Len(m.consts) :
     LET c == m.consts[i] IN
     c.k \in {"enumset", "strset", "intset"} =>
        \A q \in 1..Len(c.supersetOf) :
           LET sub == ConstSetMembers(m, c.supersetOf[q]) IN
           \A a \in 1..Len(sub) : \E b \in 1..Len(c.v) : c.v[b] = sub[a]

InConstSet(m, n, x) ==
  LET c == ConstOf(m, n)  mem == ConstSetMembers(m, n) IN
  CASE c.k = "enumset" -> \E i \in 1..Len(mem) : mem[i] = x.l
    [] c.k = "strset" -> \E i \in 1..Len(mem) : mem[i] = x.v
    [] c.k = "intset" -> \E i \in 1..Len(mem) : CmpInt(mem[i], x) = 0

RECURSIVE EvalV(_, _, _), EvalB(_, _, _), EvalAnd(_, _, _, _), EvalOr(_, _, _, _)
EvalV(m, e, env) ==
  CASE e.op = "self" -> env.self
    [] e.op = "prop" -> env.self.f[e.n]
    [] e.op = "var" -> env.vars[e.n]
    [] e.op = "attr" -> EvalV(m, e.a, env).f[e.n]
    [] e.op = "int" -> IntV(e.neg, e.d)
    [] e.op = "str" -> StrV(e.v)
    [] e.op = "enumlit" -> EnumV(e.e, e.l)
    [] e.op = "len" -> NatV(Len(EvalV(m, e.a, env).v))      \* str, bytes, list: number of items

Compare(o, x, y) ==
  CASE o = "eq" -> ValEq(x, y)
    [] o = "ne" -> ~ValEq(x, y)
    [] o = "lt" -> CmpInt(x, y) < 0
    [] o = "le" -> CmpInt(x, y) <= 0
    [] o = "gt" -> CmpInt(x, y) > 0
    [] o = "ge" -> CmpInt(x, y) >= 0

EvalB(m, e, env) ==
  CASE e.op = "cmp" -> Compare(e.o, EvalV(m, e.a, env), EvalV(m, e.b, env))
    [] e.op = "isnone" -> EvalV(m, e.a, env).t = "none"
    [] e.op = "issome" -> EvalV(m, e.a, env).t # "none"
    [] e.op = "flag" -> EvalV(m, e.a, env).v
    [] e.op = "not" -> ~EvalB(m, e.a, env)
    [] e.op = "and" -> EvalAnd(m, e.args, 1, env)
    [] e.op = "or" -> EvalOr(m, e.args, 1, env)
    [] e.op = "implies" -> IF EvalB(m, e.a, env) THEN EvalB(m, e.b, env) ELSE TRUE
    [] e.op = "all" -> LET xs == EvalV(m, e.over, env).v IN
                       \A i \in 1..Len(xs) : EvalB(m, e.body, [env EXCEPT !.vars = (e.v :> xs[i]) @@ @])
    [] e.op = "any" -> LET xs == EvalV(m, e.over, env).v IN
                       \E i \in 1..Len(xs) : EvalB(m, e.body, [env EXCEPT !.vars = (e.v :> xs[i]) @@ @])
    [] e.op = "match" -> FullMatch(PatternOf(m, e.fn).pat, EvalV(m, e.a, env).v)
    [] e.op = "in" -> InConstSet(m, e.set, EvalV(m, e.a, env))

\* left-to-right, short-circuit (the right operand may only be defined when the left one holds/fails)
EvalAnd(m, args, i, env) ==
  IF i > Len(args) THEN TRUE ELSE IF EvalB(m, args[i], env) THEN EvalAnd(m, args, i + 1, env) ELSE FALSE
EvalOr(m, args, i, env) ==
  IF i > Len(args) THEN FALSE ELSE IF EvalB(m, args[i], env) THEN TRUE ELSE EvalOr(m, args, i + 1, env)

Env(self) == [self |-> self, vars |-> <<>>]
Holds(m, inv, self) == EvalB(m, inv.e, Env(self))

(***************************************************************************************************)
(* 4. reference verification: the set of <<path, description>> of all failing invariants           *)
(*    reachable from an instance.  A path is a sequence of strings: property names and "#<index>". *)
(***************************************************************************************************)
Err(path, cause) == [path |-> path, cause |-> cause]
IdxSeg(i) == "#" \o ToString(i)

FailingDescs(m, invs, self, path) ==
  {Err(path, invs[j].desc) : j \in {j2 \in 1..Len(invs) : ~Holds(m, invs[j2], self)}}

CprimErrors(m, n, v, path) ==
  LET ch == CprimChain(m, n) IN
  UNION {FailingDescs(m, CprimOf(m, ch[k]).invs, v, path) : k \in 1..Len(ch)}

RECURSIVE ErrorsAt(_, _, _), ErrorsIn(_, _, _, _)
ErrorsAt(m, x, path) ==
  LET anc == AncestorsOrSelf(m, x.c)
      props == AllProps(m, x.c)
      own == UNION {FailingDescs(m, ClassOf(m, a).invs, x, path) : a \in anc}
  IN own \cup UNION {ErrorsIn(m, Base(props[i].type), x.f[props[i].name], path \o <<props[i].name>>) : i \in 1..Len(props)}
ErrorsIn(m, t, v, path) ==
  IF v.t = "none" THEN {}
  ELSE CASE t.k = "class" -> ErrorsAt(m, v, path)
         [] t.k = "cprim" -> CprimErrors(m, t.n, v, path)
         [] t.k = "list" -> UNION {ErrorsIn(m, t.of, v.v[i], path \o <<IdxSeg(i - 1)>>) : i \in 1..Len(v.v)}
         [] OTHER -> {}
RefErrors(m, x) == ErrorsAt(m, x, <<>>)

(***************************************************************************************************)
(* 5. wire format: JSON values and the reference (de)serialiser                                    *)
(***************************************************************************************************)
JNull == [k |-> "null"]
JBool(b) == [k |-> "bool", v |-> b]
JNum(neg, d) == [k |-> "num", neg |-> neg, d |-> d]     \* integral number
JFloat(tok) == [k |-> "float", v |-> tok]               \* non-integral or float-typed number, opaque token
JStr(cps) == [k |-> "str", v |-> cps]
JArr(xs) == [k |-> "arr", v |-> xs]
JObj(pairs) == [k |-> "obj", v |-> pairs]               \* pairs: sequence of [key |-> STRING, val |-> J]; keys distinct
Pair(key, val) == [key |-> key, val |-> val]

B64Alphabet == <<65,66,67,68,69,70,71,72,73,74,75,76,77,78,79,80,81,82,83,84,85,86,87,88,89,90,
                 97,98,99,100,101,102,103,104,105,106,107,108,109,110,111,112,113,114,115,116,117,118,119,120,121,122,
                 48,49,50,51,52,53,54,55,56,57,43,47>>
B64(n) == B64Alphabet[n + 1]
RECURSIVE Base64(_)
Base64(bs) ==
  IF Len(bs) = 0 THEN <<>>
  ELSE IF Len(bs) = 1 THEN <<B64(bs[1] \div 4), B64((bs[1] % 4) * 16), 61, 61>>
  ELSE IF Len(bs) = 2 THEN <<B64(bs[1] \div 4), B64((bs[1] % 4) * 16 + bs[2] \div 16), B64((bs[2] % 16) * 4), 61>>
  ELSE <<B64(bs[1] \div 4), B64((bs[1] % 4) * 16 + bs[2] \div 16), B64((bs[2] % 16) * 4 + bs[3] \div 64), B64(bs[3] % 64)>>
       \o Base64(SubSeq(bs, 4, Len(bs)))

EnumText(m, e, l) == Find(EnumOf(m, e).lits, l).value

\* "modelType" carries the class name as text; names are ASCII TLA+ strings and the observation side projects
\* string *data* to code points, so the model lists the code points of every class name in  m.classes[i].cps
ModelTypeJ(m, cn) == JStr(ClassOf(m, cn).cps)

RECURSIVE ToJ(_, _, _)
InstToJ(m, x) ==
  LET props == AllProps(m, x.c)
      present == SelectSeq([i \in 1..Len(props) |-> i], LAMBDA i : x.f[props[i].name].t # "none")
      pairs == [q \in 1..Len(present) |->
                  Pair(props[present[q]].json, ToJ(m, Base(props[present[q]].type), x.f[props[present[q]].name]))]
  IN JObj(pairs \o (IF WithModelType(m, x.c) THEN <<Pair("modelType", ModelTypeJ(m, x.c))>> ELSE <<>>))
ToJ(m, t, v) ==
  CASE t.k = "int" -> JNum(v.neg, v.d)
    [] t.k = "str" -> JStr(v.v)
    [] t.k = "bool" -> JBool(v.v)
    [] t.k = "float" -> JFloat(v.v)
    [] t.k = "bytes" -> JStr(Base64(v.v))
    [] t.k = "enum" -> JStr(EnumText(m, v.e, v.l))
    [] t.k = "cprim" -> ToJ(m, [k |-> CprimPrim(m, t.n)], v)
    [] t.k = "class" -> InstToJ(m, v)
    [] t.k = "list" -> JArr([i \in 1..Len(v.v) |-> ToJ(m, t.of, v.v[i])])
ToJsonable(m, x) == InstToJ(m, x)

\* structural equality of JSON values (objects: as maps, order-insensitive)
RECURSIVE JsonEq(_, _)
JsonEq(a, b) ==
  IF a.k # b.k THEN FALSE
  ELSE CASE a.k = "null" -> TRUE
         [] a.k = "num" -> a.neg = b.neg /\ a.d = b.d
         [] a.k = "arr" -> Len(a.v) = Len(b.v) /\ \A i \in 1..Len(a.v) : JsonEq(a.v[i], b.v[i])
         [] a.k = "obj" -> /\ Len(a.v) = Len(b.v)
                           /\ \A i \in 1..Len(a.v) : \E j \in 1..Len(b.v) : a.v[i].key = b.v[j].key /\ JsonEq(a.v[i].val, b.v[j].val)
                           /\ \A j \in 1..Len(b.v) : \E i \in 1..Len(a.v) : a.v[i].key = b.v[j].key
         [] OTHER -> a.v = b.v       \* bool, str (code points), float token

JHas(o, key) == \E i \in 1..Len(o.v) : o.v[i].key = key
JGet(o, key) == o.v[CHOOSE i \in 1..Len(o.v) : o.v[i].key = key].val
JKeys(o) == {o.v[i].key : i \in 1..Len(o.v)}

\* ---- total, three-valued reference de-serialiser --------------------------------------------------
\* result: [r |-> "ok", x |-> value] | [r |-> "rej"] | [r |-> "either"]
\*   rej    : the document is malformed or mistyped for the class: every SDK must reject it
\*   ok x   : the document denotes x: every SDK must accept it and produce x
\*   either : the sentence of the property does not decide (extra property, null for an optional
\*            property, number-kind coercions, integers outside 64 bits, non-canonical base64)
Ok(x) == [r |-> "ok", x |-> x]
Rej == [r |-> "rej"]
Either == [r |-> "either"]

\* inverse of Base64, defined on canonical texts only (length a multiple of 4, alphabet characters, '=' only as the
\* last one or two characters, re-encoding gives the text back)
B64Index(c) == IF \E i \in 1..64 : B64Alphabet[i] = c THEN (CHOOSE i \in 1..64 : B64Alphabet[i] = c) - 1 ELSE -1
B64WellShaped(t) ==
  /\ Len(t) % 4 = 0
  /\ \A i \in 1..Len(t) : B64Index(t[i]) >= 0 \/ (t[i] = 61 /\ i >= Len(t) - 1)
  /\ Len(t) > 0 => (t[Len(t) - 1] = 61 => t[Len(t)] = 61)
RECURSIVE B64Dec(_)
B64Dec(t) ==      \* only applied to well-shaped texts
  IF Len(t) = 0 THEN <<>>
  ELSE LET a == B64Index(t[1])  b == B64Index(t[2])
           c == IF t[3] = 61 THEN 0 ELSE B64Index(t[3])
           d == IF t[4] = 61 THEN 0 ELSE B64Index(t[4])
           n == IF t[3] = 61 THEN 1 ELSE IF t[4] = 61 THEN 2 ELSE 3
       IN SubSeq(<<a * 4 + b \div 16, (b % 16) * 16 + c \div 4, (c % 4) * 64 + d>>, 1, n) \o B64Dec(SubSeq(t, 5, Len(t)))
B64Canonical(t) == B64WellShaped(t) /\ Base64(B64Dec(t)) = t

Combine(results) ==   \* results: sequence of verdicts of the components
  IF \E i \in 1..Len(results) : results[i].r = "rej" THEN "rej"
  ELSE IF \E i \in 1..Len(results) : results[i].r = "either" THEN "either" ELSE "ok"

EnumLitOfText(m, e, text) ==
  LET lits == EnumOf(m, e).lits
      hit == {i \in 1..Len(lits) : lits[i].value = text} IN
  IF hit = {} THEN "" ELSE lits[MinOf(hit)].name

RECURSIVE FromJ(_, _, _), ObjFromJ(_, _, _)
FromJ(m, t, j) ==
  CASE t.k = "int" -> IF j.k = "num" THEN (IF InInt64(IntV(j.neg, j.d)) THEN Ok(IntV(j.neg, j.d)) ELSE Either)
                      ELSE IF j.k \in {"float", "bool"} THEN Either ELSE Rej
    [] t.k = "float" -> IF j.k = "float" THEN Ok(FloatV(j.v)) ELSE IF j.k = "num" THEN Either ELSE Rej
    [] t.k = "bool" -> IF j.k = "bool" THEN Ok(BoolV(j.v)) ELSE Rej
    [] t.k = "str" -> IF j.k = "str" THEN Ok(StrV(j.v)) ELSE Rej
    [] t.k = "bytes" -> IF j.k # "str" THEN Rej
                        ELSE IF B64Canonical(j.v) THEN Ok(BytesV(B64Dec(j.v))) ELSE Either
    [] t.k = "enum" -> IF j.k # "str" THEN Rej
                       ELSE LET l == EnumLitOfText(m, t.n, j.v) IN IF l = "" THEN Rej ELSE Ok(EnumV(t.n, l))
    [] t.k = "cprim" -> FromJ(m, [k |-> CprimPrim(m, t.n)], j)
    [] t.k = "list" -> IF j.k # "arr" THEN Rej
                       ELSE LET rs == [i \in 1..Len(j.v) |-> (IF j.v[i].k = "null" THEN Rej ELSE FromJ(m, t.of, j.v[i]))]
                                c == Combine(rs) IN
                            IF c = "ok" THEN Ok(ListV([i \in 1..Len(rs) |-> rs[i].x])) ELSE [r |-> c]
    [] t.k = "class" ->
         IF j.k # "obj" THEN Rej
         ELSE LET below == ConcreteBelow(m, t.n)
                  dispatch == ClassOf(m, t.n).abstract \/ Cardinality(below) > 1 IN
              IF ~dispatch THEN ObjFromJ(m, t.n, j)
              ELSE \* the concrete class is named by "modelType"
                   IF ~JHas(j, "modelType") THEN Rej
                   ELSE LET mt == JGet(j, "modelType")
                            hit == {cn \in below : mt.k = "str" /\ mt.v = ClassOf(m, cn).cps} IN
                        IF hit = {} THEN Rej ELSE ObjFromJ(m, CHOOSE cn \in hit : TRUE, j)
ObjFromJ(m, cn, j) ==
  LET props == AllProps(m, cn)
      known == {props[i].json : i \in 1..Len(props)} \cup (IF WithModelType(m, cn) THEN {"modelType"} ELSE {})
      extra == JKeys(j) \ known
      \* "modelType" on a class that has it: must name this class, may be absent only when not needed for dispatch
      mtres == IF WithModelType(m, cn)
               THEN (IF JHas(j, "modelType")
                     THEN (IF JGet(j, "modelType").k = "str" /\ JGet(j, "modelType").v = ClassOf(m, cn).cps THEN Ok(None) ELSE Rej)
                     ELSE Either)
               ELSE Ok(None)
      one(i) == LET p == props[i] IN
                IF ~JHas(j, p.json) THEN (IF IsOpt(p.type) THEN Ok(None) ELSE Rej)
                ELSE LET val == JGet(j, p.json) IN
                     IF val.k = "null" THEN (IF IsOpt(p.type) THEN Either ELSE Rej)
                     ELSE FromJ(m, Base(p.type), val)
      rs == [i \in 1..Len(props) |-> one(i)]
      c == Combine(rs \o <<mtres>> \o (IF extra = {} THEN <<>> ELSE <<Either>>))
  IN IF c = "ok" THEN Ok(InstV(cn, [n \in {props[i].name : i \in 1..Len(props)} |->
                                      rs[CHOOSE i \in 1..Len(props) : props[i].name = n].x]))
     ELSE [r |-> c]
FromJsonable(m, cn, j) == FromJ(m, TClass(cn), j)

\* equality of values (instances are compared property-wise; lists item-wise)
RECURSIVE DeepEq(_, _)
DeepEq(x, y) ==
  IF x.t # y.t THEN FALSE
  ELSE CASE x.t = "inst" -> x.c = y.c /\ DOMAIN x.f = DOMAIN y.f /\ \A n \in DOMAIN x.f : DeepEq(x.f[n], y.f[n])
         [] x.t = "list" -> Len(x.v) = Len(y.v) /\ \A i \in 1..Len(x.v) : DeepEq(x.v[i], y.v[i])
         [] OTHER -> ValEq(x, y)

(***************************************************************************************************)
(* 6. document mutations.  A location is a sequence of strings: object keys and "#<position>"      *)
(*    (0-based) for array items; <<>> is the root.                                                 *)
(***************************************************************************************************)
PosOf(j, seg) == CHOOSE i \in 1..Len(j.v) : IdxSeg(i - 1) = seg       \* position of an array item named by a segment
Child(j, seg) == IF j.k = "obj" THEN JGet(j, seg) ELSE j.v[PosOf(j, seg)]

RECURSIVE Locs(_, _)
Locs(j, depth) ==      \* all locations of sub-values, up to the given depth
  {<<>>} \cup
  (IF depth = 0 THEN {}
   ELSE CASE j.k = "obj" -> UNION {{<<j.v[i].key>> \o l : l \in Locs(j.v[i].val, depth - 1)} : i \in 1..Len(j.v)}
          [] j.k = "arr" -> UNION {{<<IdxSeg(i - 1)>> \o l : l \in Locs(j.v[i], depth - 1)} : i \in 1..Len(j.v)}
          [] OTHER -> {})

RECURSIVE At(_, _), Subst(_, _, _), Drop(_, _)
At(j, loc) == IF Len(loc) = 0 THEN j ELSE At(Child(j, loc[1]), Tail(loc))
Subst(j, loc, new) ==
  IF Len(loc) = 0 THEN new
  ELSE IF j.k = "obj"
       THEN JObj([i \in 1..Len(j.v) |-> IF j.v[i].key = loc[1] THEN Pair(j.v[i].key, Subst(j.v[i].val, Tail(loc), new)) ELSE j.v[i]])
       ELSE JArr([i \in 1..Len(j.v) |-> IF i = PosOf(j, loc[1]) THEN Subst(j.v[i], Tail(loc), new) ELSE j.v[i]])
Drop(j, loc) ==     \* remove the member / item at a non-root location
  IF Len(loc) = 1
  THEN (IF j.k = "obj" THEN JObj(SelectSeq(j.v, LAMBDA pr : pr.key # loc[1]))
        ELSE LET p == PosOf(j, loc[1]) IN JArr([i \in 1..(Len(j.v) - 1) |-> IF i < p THEN j.v[i] ELSE j.v[i + 1]]))
  ELSE IF j.k = "obj"
       THEN JObj([i \in 1..Len(j.v) |-> IF j.v[i].key = loc[1] THEN Pair(j.v[i].key, Drop(j.v[i].val, Tail(loc))) ELSE j.v[i]])
       ELSE JArr([i \in 1..Len(j.v) |-> IF i = PosOf(j, loc[1]) THEN Drop(j.v[i], Tail(loc)) ELSE j.v[i]])
AddMember(j, loc, key, val) == Subst(j, loc, JObj(At(j, loc).v \o <<Pair(key, val)>>))

\* replacement palette: one value of every JSON kind, plus the number-kind boundary cases
Palette ==
  <<[name |-> "null", j |-> JNull],
    [name |-> "true", j |-> JBool(TRUE)],
    [name |-> "one", j |-> JNum(FALSE, <<1>>)],
    [name |-> "minus_one", j |-> JNum(TRUE, <<1>>)],
    [name |-> "int64_max_plus_1", j |-> JNum(FALSE, <<9,2,2,3,3,7,2,0,3,6,8,5,4,7,7,5,8,0,8>>)],
    [name |-> "one_and_half", j |-> JFloat("1.5")],
    [name |-> "str_x", j |-> JStr(<<120>>)],
    [name |-> "str_empty", j |-> JStr(<<>>)],
    [name |-> "arr_empty", j |-> JArr(<<>>)],
    [name |-> "obj_empty", j |-> JObj(<<>>)]>>

\* the mutants of a document (a sequence), each tagged with the kind of mutation and the kind of value it hit
Mutants(j, depth) ==
  LET locs == SetAsSeq(Locs(j, depth))
      inner == SelectSeq(locs, LAMBDA l : Len(l) > 0)
      objs == SelectSeq(locs, LAMBDA l : At(j, l).k = "obj")
  IN ConcatAll([a \in 1..Len(locs) |->
        [q \in 1..Len(Palette) |->
           [mut |-> "replace_" \o Palette[q].name, at |-> At(j, locs[a]).k, loc |-> locs[a], doc |-> Subst(j, locs[a], Palette[q].j)]]])
     \o [a \in 1..Len(inner) |-> [mut |-> "drop", at |-> At(j, inner[a]).k, loc |-> inner[a], doc |-> Drop(j, inner[a])]]
     \o [a \in 1..Len(objs) |->
           [mut |-> "extra_member", at |-> "obj", loc |-> objs[a],
            doc |-> AddMember(j, objs[a], "unexpectedProperty", JNum(FALSE, <<1>>))]]

(***************************************************************************************************)
(* 7. constants and enumerations: the tables every SDK must expose                                 *)
(***************************************************************************************************)
\* a constant's reference value as a JSON-like value, sets as *sorted-insensitive* arrays (compared as sets)
ConstRef(m, c) ==
  CASE c.k = "int" -> [k |-> "int", neg |-> c.v.neg, d |-> c.v.d]
    [] c.k = "str" -> [k |-> "str", v |-> c.v]
    [] c.k = "bool" -> [k |-> "bool", v |-> c.v]
    [] c.k = "bytes" -> [k |-> "bytes", v |-> c.v]
    [] c.k = "strset" -> [k |-> "strset", v |-> ConstSetMembers(m, c.name)]
    [] c.k = "intset" -> [k |-> "intset", v |-> ConstSetMembers(m, c.name)]
    [] c.k = "enumset" -> [k |-> "enumset", v |-> [i \in 1..Len(ConstSetMembers(m, c.name)) |->
                                                       EnumText(m, c.e, ConstSetMembers(m, c.name)[i])]]

SameMembers(a, b, Eq(_, _)) ==
  /\ \A i \in 1..Len(a) : \E j \in 1..Len(b) : Eq(a[i], b[j])
  /\ \A j \in 1..Len(b) : \E i \in 1..Len(a) : Eq(a[i], b[j])
SeqEq(x, y) == x = y
IntEq(x, y) == x.neg = y.neg /\ x.d = y.d
ConstEq(a, b) ==
  IF a.k # b.k THEN FALSE
  ELSE CASE a.k = "int" -> a.neg = b.neg /\ a.d = b.d
         [] a.k \in {"strset", "enumset"} -> SameMembers(a.v, b.v, SeqEq)
         [] a.k = "intset" -> SameMembers(a.v, b.v, IntEq)
         [] OTHER -> a.v = b.v

\* enumeration table: literal texts in declaration order; parsing a text gives the literal's position or 0
EnumTexts(m, e) == [i \in 1..Len(EnumOf(m, e).lits) |-> EnumOf(m, e).lits[i].value]
EnumParse(m, e, text) ==
  LET hit == {i \in 1..Len(EnumOf(m, e).lits) : EnumOf(m, e).lits[i].value = text} IN
  IF hit = {} THEN 0 ELSE MinOf(hit)
\* texts to try to parse: every literal's text and near misses of it
SwapCase(t) == [i \in 1..Len(t) |-> IF t[i] >= 65 /\ t[i] <= 90 THEN t[i] + 32 ELSE IF t[i] >= 97 /\ t[i] <= 122 THEN t[i] - 32 ELSE t[i]]
EnumProbes(m, e) ==
  LET ts == {EnumOf(m, e).lits[i].value : i \in 1..Len(EnumOf(m, e).lits)} IN
  ts \cup {<<>>} \cup {t \o <<32>> : t \in ts} \cup {SwapCase(t) : t \in ts} \cup {Tail(t) : t \in {t2 \in ts : Len(t2) > 0}}

(***************************************************************************************************)
(* 7b. structural features of a value (used for the fingerprints of findings)                      *)
(***************************************************************************************************)
RECURSIVE Feats(_)
Feats(v) ==
  CASE v.t = "str" -> (IF \E i \in 1..Len(v.v) : v.v[i] > 65535 THEN {"astral"} ELSE {})
                      \cup (IF Len(v.v) > 0 /\ v.v[Len(v.v)] = 10 THEN {"lf_end"} ELSE {})
                      \cup (IF \E i \in 1..Len(v.v) : v.v[i] > 127 /\ v.v[i] <= 65535 THEN {"non_ascii"} ELSE {})
    [] v.t = "int" -> IF CmpInt(v, Int64Max) = 0 \/ CmpInt(v, Int64Min) = 0 THEN {"int64_extreme"} ELSE {}
    [] v.t = "list" -> UNION {Feats(v.v[i]) : i \in 1..Len(v.v)}
    [] v.t = "inst" -> UNION {Feats(v.f[n]) : n \in DOMAIN v.f}
    [] OTHER -> {}

(***************************************************************************************************)
(* 8. agreement predicates over observations (used by CrossSdkTrace)                               *)
(*    An observation of an instance:  [built, errors: seq of [path, cause], json: J or JNull-ish]   *)
(***************************************************************************************************)
ErrSet(errs) == {Err(errs[i].path, errs[i].cause) : i \in 1..Len(errs)}

=============================================================================
