INIT Init
NEXT Next
CONSTANTS
  MaxLen = 3
  AllUnits = TRUE
INVARIANT EscapedTextIsWellFormed
INVARIANT Total
INVARIANT RawNeedsEscaping
INVARIANT LoneMarkupIsRejected
