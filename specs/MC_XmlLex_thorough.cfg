INIT Init
NEXT Next
CONSTANT MaxLen = 4
INVARIANT EscapedTextIsWellFormed
INVARIANT Total
INVARIANT RawNeedsEscaping
INVARIANT LoneMarkupIsRejected
