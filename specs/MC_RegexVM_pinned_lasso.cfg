\* ... but not with them: TLC reports a lasso (Termination violated) for ^(a*)*$ .  Not part of the check's verdict;
\* kept as the design-level explanation of the open finding Inv_CppMatcherAgrees / hang.
SPECIFICATION Spec
CONSTANTS
  Trees <- JustNestedStar
  Alphabet <- ABC
  MaxLen = 1
  PopClearsMark = TRUE
INVARIANT ThreadsInProgram
PROPERTY Termination
