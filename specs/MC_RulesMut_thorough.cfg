SPECIFICATION Spec
CONSTANTS
  MaxDepth = 2
INVARIANT TemplatesWellFormed
INVARIANT BreakViolatesItsRule
