INIT Init
NEXT Next
CONSTANTS
  MaxDev = 2
  MaxTokens = 3
