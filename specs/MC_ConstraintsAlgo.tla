------------------------- MODULE MC_ConstraintsAlgo -------------------------
(* Exhaustive small scope for ConstraintsAlgo: every sequence of <= MaxAtoms atoms per unit over the      *)
(* atom universe below, for every shape of chain.                                                         *)
EXTENDS ConstraintsAlgo

CONSTANTS MaxC, MaxAtoms, Shapes, GuardSet,
          Narrow    \* BOOLEAN: quick scope (second atom of a class and chain atoms from the small universe)

U_class == {LenAtom(op, c, sd, g, "const") : op \in LenOps, c \in 0..MaxC, sd \in Sides, g \in GuardSet}
U_plain == {LenAtom(op, c, "L", "none", "const") : op \in LenOps \ {"!="}, c \in 0..MaxC}
U_small == {LenAtom(op, c, "L", "none", "const") : op \in {"<=", ">=", "=="}, c \in {0, MaxC}}
U_forms == {LenAtom("<=", 1, "L", "none", f) : f \in {"nonconst", "conj"}}

SeqsUpTo(U, n) == UNION {[1..m -> U] : m \in 0..n}
NeedsOpt(cs) == \E j \in 1..Len(cs) : \E a \in Range(cs[j]) : a.g \in SameGuards
Mk(kind, cs, ps) == [kind |-> kind, opt |-> NeedsOpt(cs), wmt |-> TRUE, shape |-> "chain", cls |-> cs, prim |-> ps]

\* shape "one": one class, up to MaxAtoms atoms from the full universe (match + reduce)
S_one   == IF Narrow
           THEN {Mk("str", <<as>>, <<>>) : as \in SeqsUpTo(U_class \cup U_forms, 1)}
                \cup {Mk("str", <<<<a, b>>>>, <<>>) : a \in U_class, b \in U_small}
           ELSE {Mk("str", <<as>>, <<>>) : as \in SeqsUpTo(U_class \cup U_forms, MaxAtoms)}
\* shape "chain": three classes, one plain atom or none each (stacking)
U_chain == IF Narrow THEN U_small ELSE U_plain
S_chain == {Mk("str", <<a, b, c>>, <<>>) : a \in SeqsUpTo(U_chain, 1), b \in SeqsUpTo(U_chain, 1), c \in SeqsUpTo(U_chain, 1)}
\* shape "prim": P1 <- P2 in-lined into C1 <- C2 (value itself, or items of a list)
S_prim  == {Mk(kind, <<c1, c2>>, <<p1, p2>>) : kind \in {"cprim", "listcprim"},
               p1 \in SeqsUpTo(U_small, 1), p2 \in SeqsUpTo(U_small, 1), c1 \in SeqsUpTo(U_small, 1), c2 \in SeqsUpTo(U_small, 1)}

\* shape "dia": the diamond C1 <- C2, C1 <- C3, C4(C2, C3) / C4(C3, C2) with atoms on both parents (and on C4)
S_dia   == {[Mk("str", <<<<>>, a, b, d>>, <<>>) EXCEPT !.shape = sh] :
               sh \in {"dia_ab", "dia_ba"}, a \in SeqsUpTo(U_chain, 1), b \in SeqsUpTo(U_chain, 1),
               d \in IF Narrow THEN {<<>>} ELSE SeqsUpTo(U_small, 1)}

ScenariosDef == (IF "dia" \in Shapes THEN S_dia ELSE {}) \cup (IF "one" \in Shapes THEN S_one ELSE {})
                \cup (IF "chain" \in Shapes THEN S_chain ELSE {})
                \cup (IF "prim" \in Shapes THEN S_prim ELSE {})
=============================================================================
