INIT TraceInit
NEXT TraceNext
CONSTANTS
  MaxErr = 2
  Strict = FALSE
INVARIANT Inv_TraceAccepted
INVARIANT Inv_SmokeAgrees
INVARIANT Inv_SmokeZeroOnlyIfAllSucceed
INVARIANT Inv_SmokeFailsWhenAnyFails
INVARIANT Inv_RecordedMatches
INVARIANT Inv_ExitIffSilent
INVARIANT Inv_ReportShape
INVARIANT Inv_FoundSubsetReported
INVARIANT Inv_ExitCodeFollowsStages
