---- MODULE DeterminismTrace ----
(* V phase of C22: one observation per history = (meta-model, target) with the runs of the plan in order.            *)
(* A run record: cfg (the configuration of DeterminismPlan), files (digest of relative path + bytes of every file    *)
(* the run wrote), nfiles, stdout (digest, output path masked), stderr (digest), rc, and what the harness saw of the *)
(* environment just before the run: pre_count (files in the output directory), cache_before (entries in the cache).  *)
(* One invariant per clause of the sentence: "byte-identical output files, the same stdout up to the output path,    *)
(* the same stderr and the same exit status".                                                                         *)
EXTENDS DeterminismPlan, Json, IOUtils
CONSTANT Which
ThePlan == IF Which = "thorough" THEN ThoroughPlan ELSE QuickPlan
Obs == JsonDeserialize(IOEnv.VERIF_OBS)
VARIABLE i
Init == i \in 1..Len(Obs)
Next == UNCHANGED i
Runs(n) == Obs[n].runs
Same(n, field) == \A a, b \in DOMAIN Runs(n) : Runs(n)[a][field] = Runs(n)[b][field]

Inv_SameFiles == Same(i, "files")
Inv_SameStdout == Same(i, "stdout")
Inv_SameStderr == Same(i, "stderr")
Inv_SameStatus == Same(i, "rc")
OneDigest == Inv_SameFiles /\ Inv_SameStdout /\ Inv_SameStderr /\ Inv_SameStatus

\* binding self-checks (machinery failures, not findings): the history is the plan of the specification, and the harness
\* really established the environment each configuration asks for
Chk_IsPlan == [a \in DOMAIN Runs(i) |-> Runs(i)[a].cfg] = ThePlan
Chk_Established ==
    \A a \in DOMAIN Runs(i) :
        LET r == Runs(i)[a] IN
        /\ r.cfg.pre = "none" => r.pre_count = 0
        /\ r.cfg.pre \in {"stale", "unrelated", "crlf"} => r.pre_count > 0
        /\ r.cfg.cache = "cold" => r.cache_before = 0
        \* warm: the harness left the cache as the previous run left it (a run that fails before the model is loaded
        \* leaves nothing, so "warm" cannot demand a non-empty cache)
        /\ r.cfg.cache = "warm" /\ a > 1 => r.cache_before = Runs(i)[a - 1].cache_after

NRuns == LET RECURSIVE S(_) S(n) == IF n = 0 THEN 0 ELSE Len(Runs(n)) + S(n - 1) IN S(Len(Obs))
NFailing == Cardinality({n \in 1..Len(Obs) : Runs(n)[1].rc # 0})
ASSUME PrintT(<<"@@PRINT@@ histories", Len(Obs), NRuns, NFailing>>)
====
