SPECIFICATION Spec
CONSTANTS
  MCUnits <- UnitsWide
  MaxLevel = 6
  MaxPfx = 2
VIEW View
CONSTRAINT Bound
INVARIANT TypeOK
INVARIANT EscapeInsideLiteral
INVARIANT CodeIsClean
INVARIANT HolesOnlyWhereTheyExist
INVARIANT JavaStageOneOnlyJava
INVARIANT FinishTotal
PROPERTY ErrSticky
PROPERTY SkeletonIgnoresEnvelopeContent
PROPERTY SkeletonSeesCode
