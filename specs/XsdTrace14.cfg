INIT Init
NEXT Next
ALIAS Explain
INVARIANT S_WellFormed
INVARIANT S_ValueOk
INVARIANT S_ReAgrees
INVARIANT S_Shape
INVARIANT S_Verdicts
INVARIANT Inv_ViolationRejected
INVARIANT Inv_MutationRejected
