---- MODULE YieldGen ----
(* G phase of C26: the case space Flows(MaxSize) of Yield.tla written as JSON (one record per flow). *)
EXTENDS Yield, Json, IOUtils, SequencesExt
CONSTANTS MinSize, MaxSize
Cases == UNION {{[flow |-> f, size |-> m] : f \in FlowsOfSize(m)} : m \in MinSize..MaxSize}
ASSUME JsonSerialize(IOEnv.VERIF_OUT, SetToSeq(Cases))
ASSUME PrintT(<<"@@PRINT@@ cases", Cardinality(Cases)>>)
ASSUME \A c \in Cases : WellFormedSeq(c.flow) /\ SizeOfSeq(c.flow) = c.size
VARIABLE dummy
Init == dummy = 0
Next == UNCHANGED dummy
====
