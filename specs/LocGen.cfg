INIT Init
NEXT Next
