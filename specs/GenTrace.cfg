INIT Init
NEXT Next
INVARIANT Inv_WellFormed
INVARIANT Inv_NoUncaughtException
INVARIANT Inv_ExitZeroWroteOutput
INVARIANT Inv_NonZeroReported
