SPECIFICATION Spec
CONSTANTS
  Rich = TRUE
  MaxStr = 3
INVARIANT Faithful
