----------------------------- MODULE XmlDocTrace -----------------------------
(* V phase of C20, clause "C# documentation comments are well-formed XML".                 *)
(* Docs[i] = [text: the /// lines of one documentation comment of a generated C# file with *)
(* the slashes removed, wrapped in <doc>...</doc> (code points); real: "yes" / "no", what   *)
(* expat (xml.etree) says about the same text]                                              *)
EXTENDS XmlLex, Json, IOUtils, TLC
Docs == JsonDeserialize(IOEnv.VERIF_DOCS)
VARIABLE i
Init == i \in 1..Len(Docs)
Next == UNCHANGED i
Inv_DocCommentIsWellFormedXml == WellFormed(Docs[i].text)
\* S: the spec's machine and expat agree (a violation is a defect of the specification)
Inv_SpecAgreesWithExpat == WellFormed(Docs[i].text) <=> (Docs[i].real = "yes")
ASSUME PrintT(<<"@@PRINT@@ docs", Len(Docs)>>)
=============================================================================
