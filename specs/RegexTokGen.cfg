INIT Init
NEXT Next
CONSTANTS
  MaxLen = 3
  WithLonger = FALSE
  AlphaCap = 4
  LenCap = 3
  Budget = 100
