INIT Init
NEXT Next
CONSTANTS
  MaxLen = 2
  CoreLen = 2
  TightLen = 3
  QLen = 3
  SLen = 3
  AlphaCap = 4
  LenCap = 3
  Budget = 50
