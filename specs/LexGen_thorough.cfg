INIT Init
NEXT Next
CONSTANTS
  MaxLen = 2
  SmallLen = 3
  SmallSize = 14
  NSample3 = 6000
  NSample4 = 3000
