INIT Init
NEXT Next
CONSTANTS
  MaxLen = 3
  SmallLen = 4
  NSample = 60000
  SampleLen = 4
