SPECIFICATION Spec
INVARIANT AlgoExact
INVARIANT AlgoRaises
INVARIANT AlgoSoundPrefix
PROPERTY Termination
CONSTANTS
  Wide = FALSE
  BatchSize = 16
  NInst = 30
  StrLen = 3
  MaxModels = 4
  MaxSpecial = 4
  MaxInsts = 30
