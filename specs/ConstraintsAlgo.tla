--------------------------- MODULE ConstraintsAlgo ---------------------------
(* C15, design level (M): the inference algorithm of aas_core_codegen.infer_for_schema for LENGTH         *)
(* constraints, transcribed as a state machine and model-checked against the declarative meaning in      *)
(* Constraints.tla.                                                                                      *)
(*                                                                                                       *)
(*   _len.py   _match_len_constraint_on_member_or_name      -> Match(a)          (action MatchStep)      *)
(*             try_conditional_on_prop + consequent match   -> Sees(a)                                   *)
(*             _reduce_constraints                          -> Reduce(loose)     (action ReduceStep)     *)
(*   _types.py LenConstraint.__init__ precondition          -> Constructible(mn, mx)                     *)
(*   _inline.py _merge_len_constraints                      -> Merge(r1, r2)                             *)
(*             _infer_constraints_by_constrained_primitive  -> actions ReduceStep (units P1..), PrimStack *)
(*             _infer_constraints_of_class_values_...       -> actions ReduceStep (units C1..), Inline    *)
(*             infer_constraints_by_class (stacking)        -> action ClassStack                         *)
(*                                                                                                       *)
(* The pinned code deviates from the property in three named ways; each is a constant switch so that     *)
(* both the design AS IT IS and the design AS REPAIRED (notes/fixes/C15-foreign-guard.patch, C02-len-constraint-errors.patch) are model-checked:      *)
(*   ForeignGuardMisread  a guard naming another property is dropped (the consequent is read as an       *)
(*                        unconditional constraint)                                                      *)
(*   StrictPositiveMin    LenConstraint requires 0 < min when both bounds are present                    *)
(*   RaiseOnConflict      a contradiction that only shows when merging levels violates the precondition  *)
(*                        of LenConstraint (an exception) instead of being reported as an error          *)
(* and the repair adds one behaviour:                                                                    *)
(*   NegativeMaxIsError   an upper bound below 0 (len(x) < 0) is reported as an error by the reduction   *)
EXTENDS Constraints, TLC

CONSTANTS Scenarios,            \* the set of scenarios explored (defined in MC_ConstraintsAlgo.tla)
          MaxLen,
          ForeignGuardMisread, StrictPositiveMin, RaiseOnConflict, NegativeMaxIsError,
          SnapshotStacking      \* (a seeded deviation, off in every committed cfg) a class with several direct parents
                                \* merges each parent with a snapshot of its own constraints instead of the running result

None == -99                     \* "no bound" (Python None); bounds range over -1..MaxLen

VARIABLES scn,        \* the scenario being processed
          pc,         \* "match" | "primstack" | "inline" | "classstack" | "done"
          unit,       \* index of the unit (P1..Pj then C1..Ck) whose invariants are being matched
          ai,         \* index of the next atom of that unit
          loose,      \* sequence of loose constraints <<"min"|"max"|"exact", value>> matched so far
          own,        \* unit index -> reduced result of that unit alone:  [has, mn, mx]
          prim,       \* j -> result of constrained primitive Pj after stacking its parents
          byval,      \* k -> slot -> result of class Ck
          sk,         \* class being stacked onto its parents
          pj,         \* index of the next direct parent of class sk (order of the bases)
          snap,       \* the constraints of class sk before any parent was merged
          errs,       \* errors were collected in the current phase (reported at the end of the phase)
          outcome     \* "running" | "ok" | "error" | "raise"
vars == <<scn, pc, unit, ai, loose, own, prim, byval, sk, pj, snap, errs, outcome>>

NoRes == [has |-> FALSE, mn |-> None, mx |-> None]
NP == Len(scn.prim)
NC == Len(scn.cls)
UnitAtoms(u) == IF u <= NP THEN scn.prim[u] ELSE scn.cls[u - NP]

-----------------------------------------------------------------------------
(* match *)

\* does the matcher look at the comparison of this atom at all?
Sees(a, isPrim) ==
    /\ a.k = "len" /\ a.form = "const"
    /\ IF isPrim THEN a.g = "none"
       ELSE a.g \in {"none"} \cup SameGuards \cup (IF ForeignGuardMisread THEN ForeignGuards ELSE {})

\* _match_len_constraint_on_member_or_name: one branch per operator and operand order
Match(a) ==
    IF a.side = "L"
    THEN CASE a.op = "<"  -> <<"max", a.c - 1>>
           [] a.op = "<=" -> <<"max", a.c>>
           [] a.op = "==" -> <<"exact", a.c>>
           [] a.op = ">"  -> <<"min", a.c + 1>>
           [] a.op = ">=" -> <<"min", a.c>>
           [] a.op = "!=" -> <<"none", 0>>
    ELSE CASE a.op = "<"  -> <<"min", a.c + 1>>
           [] a.op = "<=" -> <<"min", a.c>>
           [] a.op = "==" -> <<"exact", a.c>>
           [] a.op = ">"  -> <<"max", a.c - 1>>
           [] a.op = ">=" -> <<"max", a.c>>
           [] a.op = "!=" -> <<"none", 0>>

-----------------------------------------------------------------------------
(* reduce, construct, merge *)

MaxWithNone(a, b) == IF a = None THEN b ELSE IF b = None THEN a ELSE IF a > b THEN a ELSE b
MinWithNone(a, b) == IF a = None THEN b ELSE IF b = None THEN a ELSE IF a < b THEN a ELSE b

RECURSIVE FoldLoose(_, _, _)
\* acc = [mn, mx, ex, dup]  (dup: a second exact length was seen -> error, whatever its value)
FoldLoose(ls, j, acc) ==
    IF j > Len(ls) THEN acc
    ELSE LET l == ls[j] IN
         FoldLoose(ls, j + 1,
            CASE l[1] = "min"   -> [acc EXCEPT !.mn = MaxWithNone(l[2], acc.mn)]
              [] l[1] = "max"   -> [acc EXCEPT !.mx = MinWithNone(l[2], acc.mx)]
              [] l[1] = "exact" -> [acc EXCEPT !.ex = l[2], !.dup = acc.dup \/ acc.ex # None]
              [] OTHER          -> acc)

\* the precondition of LenConstraint.__init__
Constructible(mn, mx) ==
    mn = None \/ mx = None \/ ((IF StrictPositiveMin THEN 0 < mn ELSE 0 <= mn) /\ mn <= mx)

\* _reduce_constraints: <<"ok", res>> | <<"error">> | <<"raise">>
Reduce(ls) ==
    LET f == FoldLoose(ls, 1, [mn |-> None, mx |-> None, ex |-> None, dup |-> FALSE])
        err == \/ f.dup
               \/ f.ex # None /\ f.mn # None /\ f.mn > f.ex
               \/ f.ex # None /\ f.mx # None /\ f.ex > f.mx
               \/ f.mn # None /\ f.mx # None /\ f.mn > f.mx
               \/ NegativeMaxIsError /\ f.mx # None /\ f.mx < 0
        mn == IF f.ex # None THEN f.ex ELSE f.mn
        mx == IF f.ex # None THEN f.ex ELSE f.mx
    IN  IF err THEN <<"error">>
        ELSE IF ~Constructible(mn, mx) THEN <<"raise">>
        ELSE <<"ok", [has |-> (mn # None \/ mx # None), mn |-> mn, mx |-> mx]>>     \* "dummy" constraints are dropped

\* _merge_len_constraints (with the conflict check of the repaired design)
Merge(a, b) ==
    IF ~a.has THEN <<"ok", b>>
    ELSE IF ~b.has THEN <<"ok", a>>
    ELSE LET mn == MaxWithNone(a.mn, b.mn)
             mx == MinWithNone(a.mx, b.mx)
         IN  IF mn # None /\ mx # None /\ mn > mx /\ ~RaiseOnConflict THEN <<"error">>
             ELSE IF ~Constructible(mn, mx) THEN <<"raise">>
             ELSE <<"ok", [has |-> TRUE, mn |-> mn, mx |-> mx]>>

-----------------------------------------------------------------------------
(* The order of the steps follows infer_constraints_by_class:                                              *)
(*   A  every constrained primitive alone (errors collected, returned after the loop)                     *)
(*   B  constrained primitives stacked on their parents                                                   *)
(*   C  every class: own invariants reduced, then the constrained primitive in-lined (errors collected)   *)
(*   D  classes stacked on their parents                                                                  *)
(* An error is only *collected* (the loop goes on, a later step may still raise); an exception ends the    *)
(* run at once.                                                                                           *)
Init ==
    /\ scn \in Scenarios
    /\ pc = "match" /\ unit = 1 /\ ai = 1 /\ loose = <<>>
    /\ own = <<>> /\ prim = <<>> /\ byval = <<>> /\ sk = 2 /\ pj = 1 /\ snap = [v |-> NoRes, i |-> NoRes] /\ errs = FALSE
    /\ outcome = "running"

Fail(o) == outcome' = o /\ pc' = "done" /\ UNCHANGED <<scn, unit, ai, loose, own, prim, byval, sk, errs>>
Placeholder == [v |-> NoRes, i |-> NoRes]
\* where to go after class unit u is finished
AfterClass(u) == /\ unit' = u + 1 /\ ai' = 1 /\ loose' = <<>>
                 /\ pc' = IF u = NP + NC THEN "classstack" ELSE "match"

\* one invariant of the current unit is matched
MatchStep ==
    /\ UNCHANGED <<pj, snap>>
    /\ pc = "match" /\ unit <= NP + NC /\ ai <= Len(UnitAtoms(unit))
    /\ LET a == UnitAtoms(unit)[ai]
           m == Match(a)
       IN  loose' = IF Sees(a, unit <= NP) /\ m[1] # "none" THEN Append(loose, m) ELSE loose
    /\ ai' = ai + 1
    /\ UNCHANGED <<scn, pc, unit, own, prim, byval, sk, errs, outcome>>

\* all invariants of the unit matched: reduce them
ReduceStep ==
    /\ UNCHANGED <<pj, snap>>
    /\ pc = "match" /\ unit <= NP + NC /\ ai > Len(UnitAtoms(unit))
    /\ LET r == Reduce(loose) IN
       IF r[1] = "raise" THEN Fail("raise")
       ELSE /\ own' = Append(own, IF r[1] = "ok" THEN r[2] ELSE NoRes)
            /\ errs' = (errs \/ r[1] = "error")
            /\ IF unit <= NP
               THEN /\ unit' = unit + 1 /\ ai' = 1 /\ loose' = <<>>
                    /\ pc' = IF unit = NP THEN "primstack" ELSE "match"
                    /\ UNCHANGED byval
               ELSE IF r[1] = "error"
                    THEN byval' = Append(byval, Placeholder) /\ AfterClass(unit)     \* no in-lining after an error
                    ELSE pc' = "inline" /\ UNCHANGED <<unit, ai, loose, byval>>
            /\ UNCHANGED <<scn, prim, sk, outcome>>

\* B: constrained primitives inherit from their parent (topological order)
PrimStack ==
    /\ UNCHANGED <<pj, snap>>
    /\ pc = "primstack"
    /\ IF errs THEN Fail("error")
       ELSE IF Len(prim) = NP
       THEN pc' = "match" /\ UNCHANGED <<scn, unit, ai, loose, own, prim, byval, sk, errs, outcome>>
       ELSE LET j == Len(prim) + 1
                m == IF j = 1 THEN <<"ok", own[1]>> ELSE Merge(prim[j - 1], own[j])
            IN  IF m[1] = "ok"
                THEN prim' = Append(prim, m[2]) /\ UNCHANGED <<scn, pc, unit, ai, loose, own, byval, sk, errs, outcome>>
                ELSE Fail(m[1])

\* C (second half): the constrained primitive is in-lined into the property-level result of class `unit`
PrimRes == IF NP = 0 THEN NoRes ELSE prim[NP]
Inline ==
    /\ UNCHANGED <<pj, snap>>
    /\ pc = "inline"
    /\ LET o == own[unit]
           v == IF scn.kind = "cprim" THEN Merge(o, PrimRes) ELSE <<"ok", o>>
           it == IF scn.kind = "listcprim" THEN PrimRes ELSE NoRes
       IN  IF v[1] = "raise" THEN Fail("raise")
           ELSE /\ byval' = Append(byval, IF v[1] = "ok" THEN [v |-> v[2], i |-> it] ELSE Placeholder)
                /\ errs' = (errs \/ v[1] = "error")
                /\ AfterClass(unit)
                /\ UNCHANGED <<scn, own, prim, sk, outcome>>

\* D: classes inherit from their direct parents, one parent at a time in the order of the bases (the classes are
\* visited in topological order, so every parent is complete when it is merged)
ParentSeq(k) ==
    IF scn.shape = "chain" THEN <<k - 1>>
    ELSE CASE k = 2 -> <<1>> [] k = 3 -> <<1>> [] k = 4 -> (IF scn.shape = "dia_ab" THEN <<2, 3>> ELSE <<3, 2>>)
ClassStack ==
    /\ pc = "classstack"
    /\ IF errs THEN Fail("error") /\ UNCHANGED <<pj, snap>>
       ELSE IF sk > NC
       THEN outcome' = "ok" /\ pc' = "done" /\ UNCHANGED <<scn, unit, ai, loose, own, prim, byval, sk, pj, snap, errs>>
       ELSE IF pj > Len(ParentSeq(sk))
       THEN sk' = sk + 1 /\ pj' = 1 /\ UNCHANGED <<scn, pc, unit, ai, loose, own, prim, byval, snap, errs, outcome>>
       ELSE LET p == ParentSeq(sk)[pj]
                before == IF pj = 1 THEN byval[sk] ELSE snap
                that == IF SnapshotStacking THEN before ELSE byval[sk]
                mv == Merge(byval[p].v, that.v)
                mi == Merge(byval[p].i, that.i)
            IN  IF mv[1] # "ok" THEN Fail(mv[1]) /\ UNCHANGED <<pj, snap>>
                ELSE IF mi[1] # "ok" THEN Fail(mi[1]) /\ UNCHANGED <<pj, snap>>
                ELSE /\ byval' = [byval EXCEPT ![sk] = [v |-> mv[2], i |-> mi[2]]]
                     /\ pj' = pj + 1 /\ snap' = before
                     /\ UNCHANGED <<scn, pc, unit, ai, loose, own, prim, sk, errs, outcome>>

Next == MatchStep \/ ReduceStep \/ PrimStack \/ Inline \/ ClassStack
Spec == Init /\ [][Next]_vars /\ WF_vars(Next)

-----------------------------------------------------------------------------
(* Design-level properties *)

ResRange(r) == {n \in 0..MaxLen : ~r.has \/ ((r.mn = None \/ r.mn <= n) /\ (r.mx = None \/ n <= r.mx))}
Done == pc = "done"
HasForeignLen == \E a \in AllAtoms(scn) : a.k = "len" /\ a.g \in ForeignGuards /\ a.form = "const" /\ a.op # "!="
TwoExact == \E u \in 1..(NP + NC) : Cardinality({j \in 1..Len(UnitAtoms(u)) :
                 LET a == UnitAtoms(u)[j] IN a.k = "len" /\ a.op = "==" /\ Sees(a, u <= NP)}) >= 2
LowerZero == \E a \in AllAtoms(scn) : a.k = "len" /\ Recognised(a) /\ LenBody(a, 0, 0) /\ ~LenBody(a, -1, 0)

\* the property itself (what the repaired design must satisfy, without carve-outs)
Exact        == Done /\ outcome = "ok" => \A k \in 1..NC, s \in Slots : ResRange(byval[k][s]) = AdmitLens(scn, k, s, MaxLen)
UnsatIsError == Done /\ SomeMutuallyUnsat(scn, MaxLen) => outcome = "error"
NeverRaises  == outcome # "raise"
ErrorOnlyIfExplainable == Done /\ outcome = "error" => SomeUnsat(scn, MaxLen) \/ TwoExact

\* what the pinned design satisfies: the same, outside the three named deviations
PinnedExact        == Done /\ outcome = "ok" /\ ~HasForeignLen => \A k \in 1..NC, s \in Slots : ResRange(byval[k][s]) = AdmitLens(scn, k, s, MaxLen)
PinnedUnsatNotOk   == Done /\ SomeMutuallyUnsat(scn, MaxLen) /\ ~HasForeignLen => outcome # "ok"
PinnedRaiseOnlyWhenNamed == outcome = "raise" => HasForeignLen \/ LowerZero \/ SomeUnsat(scn, MaxLen)
PinnedErrorExplainable == Done /\ outcome = "error" /\ ~HasForeignLen => SomeUnsat(scn, MaxLen) \/ TwoExact

\* structural sanity of the machine
TypeOK == /\ pc \in {"match", "primstack", "inline", "classstack", "done"}
          /\ outcome \in {"running", "ok", "error", "raise"}
          /\ (outcome # "running") <=> Done
          /\ Len(own) <= NP + NC /\ Len(prim) <= NP /\ Len(byval) <= NC /\ errs \in BOOLEAN /\ sk \in 2..(NC + 1) /\ pj \in 1..3
Progress == Done \/ ENABLED Next          \* the machine never gets stuck before it has an outcome
Terminates == <>Done
=============================================================================
