SPECIFICATION SortSpec
CONSTANTS
  Dedupe = TRUE
  N = 4
  NSort = 3
  SortAllNames = TRUE
INVARIANT CycleIffCyclic
INVARIANT SortedIsTopological
INVARIANT MarksDisjoint
INVARIANT StackIsPath
