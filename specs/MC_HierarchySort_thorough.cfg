SPECIFICATION SortSpec
CONSTANTS
  Dedupe = TRUE
  N = 4
  Full = TRUE
  NSort = 3
  SortAllNames = TRUE
INVARIANT CycleIffCyclic
INVARIANT SortedIsTopological
INVARIANT MarksDisjoint
INVARIANT StackIsPath
