\* liveness on a tiny scope: every run reaches an outcome (pinned and repaired designs behave alike here)
SPECIFICATION Spec
CONSTANTS
  Scenarios <- ScenariosDef
  MaxLen = 6
  MaxC = 1
  MaxAtoms = 1
  Shapes = {"one", "chain", "prim"}
  ForeignGuardMisread = TRUE
  StrictPositiveMin = TRUE
  RaiseOnConflict = TRUE
INVARIANT TypeOK
INVARIANT PinnedExact
INVARIANT PinnedUnsatNotOk
INVARIANT PinnedRaiseOnlyWhenNamed
INVARIANT PinnedErrorExplainable
INVARIANT Progress
PROPERTY Terminates
