\* liveness on a tiny scope: every run reaches an outcome (pinned and repaired designs behave alike here)
SPECIFICATION Spec
CONSTANTS
  Scenarios <- ScenariosDef
  MaxLen = 6
  MaxC = 1
  MaxAtoms = 1
  GuardSet = {"none", "other"}
  Narrow = FALSE
  Shapes = {"one", "chain", "prim", "dia"}
  ForeignGuardMisread = TRUE
  StrictPositiveMin = TRUE
  RaiseOnConflict = TRUE
  SnapshotStacking = FALSE
  NegativeMaxIsError = FALSE
INVARIANT TypeOK
INVARIANT PinnedExact
INVARIANT PinnedUnsatNotOk
INVARIANT PinnedRaiseOnlyWhenNamed
INVARIANT PinnedErrorExplainable
INVARIANT Progress
PROPERTY Terminates
