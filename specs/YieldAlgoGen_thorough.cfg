INIT Init
NEXT Next
CONSTANTS
  MaxSize = 4
  PassSize = 3
