INIT Init
NEXT Next
CONSTANTS
  MaxSize = 3
  PassSize = 3
