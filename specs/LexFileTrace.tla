---------------------------- MODULE LexFileTrace ----------------------------
(***************************************************************************)
(* V phase of C20 (lexical part). The observations are generated source    *)
(* files; every file is streamed, unit by unit, through the lexer machine  *)
(* of its language (Lexers!Step).                                          *)
(*                                                                         *)
(*   Twins[f] = [lang, text]      a file generated from the meta-model in  *)
(*                                which every payload is a harmless word   *)
(*   Hunks[h] = [twin, tb, te, text]  a VARIANT of that file, generated    *)
(*                                from the same meta-model with a hostile  *)
(*                                payload, differs from the twin exactly   *)
(*                                in that Twins[twin].text[tb+1..te] is    *)
(*                                replaced by text (tb is a multiple of K) *)
(*                                                                         *)
(* A behaviour walks along one twin file in chunks of K units (Chunk, End) *)
(* and may branch off into a hunk that starts where it stands (Branch); it *)
(* then runs the machine from the state reached so far over both spellings *)
(* of the hunk (RunHunk) and ends.                                         *)
(*                                                                         *)
(* "Text taken from descriptions, invariant messages or constants cannot   *)
(* terminate a comment, docstring or literal early" is the invariant       *)
(* Inv_SkeletonIndependentOfPayload: after both spellings the machine is   *)
(* in the SAME state - same mode, same pending escapes and nesting, same   *)
(* lexical skeleton (the code units outside comments and literals, one     *)
(* token per literal, one per run of comments; Lexers!Mix). Since a        *)
(* variant equals its twin outside the hunks, equal states after every     *)
(* hunk mean the whole variant has the twin's skeleton and ends like it.   *)
(* Inv_LexicallyComplete: the twin itself has no lexical error and every   *)
(* comment and literal is closed where the file ends.                      *)
(***************************************************************************)
EXTENDS Lexers, Json, IOUtils, TLC
Obs == JsonDeserialize(IOEnv.VERIF_FILES)
Twins == Obs.twins
Hunks == Obs.hunks
K == Obs.k
VARIABLES f, pos, st, hk, stv, env, fin
vars == <<f, pos, st, hk, stv, env, fin>>
\* length of the common prefix of two sequences
RECURSIVE Common(_, _, _, _, _)
Common(a, ia, b, ib, n) == IF ia + n > Len(a) \/ ib + n > Len(b) \/ a[ia + n] # b[ib + n] THEN n ELSE Common(a, ia, b, ib, n + 1)

Init == f \in 1..Len(Twins) /\ pos = 0 /\ st = S0(FALSE) /\ hk = 0 /\ stv = S0(FALSE) /\ env = "" /\ fin = FALSE
OnTwin == hk = 0 /\ ~fin /\ st.m # "err"
Chunk == /\ OnTwin /\ pos < Len(Twins[f].text)
         /\ LET e == IF pos + K < Len(Twins[f].text) THEN pos + K ELSE Len(Twins[f].text) IN
            /\ st' = RunFrom(Twins[f].lang, st, Twins[f].text, pos + 1, e)
            /\ pos' = e
         /\ UNCHANGED <<f, hk, stv, env, fin>>
End ==   /\ OnTwin /\ pos = Len(Twins[f].text)
         /\ st' = Finish(Twins[f].lang, st)
         /\ fin' = TRUE
         /\ UNCHANGED <<f, pos, hk, stv, env>>
\* choosing a hunk is one step, running it another: a behaviour that does not enter a hunk never pays for it
Branch == /\ OnTwin
          /\ \E h \in 1..Len(Hunks) :
               /\ Hunks[h].twin = f /\ Hunks[h].tb = pos
               /\ hk' = h
          /\ UNCHANGED <<f, pos, st, stv, env, fin>>
RunHunk == /\ hk # 0 /\ ~fin
           /\ LET L == Twins[f].lang
                  h == hk
                  cp == Common(Twins[f].text, pos + 1, Hunks[h].text, 1, 0)      \* both spellings start alike
                  mid == RunFrom(L, st, Twins[f].text, pos + 1, pos + cp)
              IN /\ env' = mid.m                \* where the machine stands when the spellings part: the envelope of the payload
                 /\ st' = RunFrom(L, mid, Twins[f].text, pos + cp + 1, Hunks[h].te)
                 /\ stv' = RunFrom(L, mid, Hunks[h].text, cp + 1, Len(Hunks[h].text))
           /\ fin' = TRUE
           /\ UNCHANGED <<f, pos, hk>>
Next == Chunk \/ End \/ Branch \/ RunHunk
Spec == Init /\ [][Next]_vars

Inv_LexicallyComplete == hk = 0 => (st.m # "err" /\ (fin => st.m = "code"))
Inv_SkeletonIndependentOfPayload == hk # 0 /\ fin => stv = st
=============================================================================
