---------------------------- MODULE LexFileTrace ----------------------------
(* V phase of C20 (lexical part): every generated source file is streamed, unit by unit,    *)
(* through the lexer machine of its language. One behaviour per file: Chunk consumes the     *)
(* next K units, Finish decides the end of input.                                            *)
(*   Files[f] = [lang, path, text (source units: UTF-16 for java, cs, ts), exp1, exp2]      *)
(* exp1/exp2 are the skeleton hashes of the TWIN of the file: the same file generated from   *)
(* the same meta-model with a harmless text in place of the payload (-1: no twin).           *)
(* The property "text taken from descriptions, invariant messages or constants cannot        *)
(* terminate a comment, docstring or literal early" is: the lexical skeleton (code units;    *)
(* one token per literal; one per run of comments) does not depend on that text.             *)
EXTENDS Lexers, Json, IOUtils, TLC
Files == JsonDeserialize(IOEnv.VERIF_FILES)
K == 120
VARIABLES f, pos, st, fin
vars == <<f, pos, st, fin>>
Init == f \in 1..Len(Files) /\ pos = 0 /\ st = S0(FALSE) /\ fin = FALSE
Chunk == /\ ~fin /\ st.m # "err" /\ pos < Len(Files[f].text)
         /\ LET e == IF pos + K < Len(Files[f].text) THEN pos + K ELSE Len(Files[f].text) IN
            /\ st' = RunFrom(Files[f].lang, st, Files[f].text, pos + 1, e)
            /\ pos' = e
         /\ UNCHANGED <<f, fin>>
End ==   /\ ~fin /\ st.m # "err" /\ pos = Len(Files[f].text)
         /\ st' = Finish(Files[f].lang, st)
         /\ fin' = TRUE
         /\ PrintT(<<"@@PRINT@@ skel", f, st'.h1, st'.h2, st'.m>>)
         /\ UNCHANGED <<f, pos>>
Next == Chunk \/ End
Spec == Init /\ [][Next]_vars

\* every comment and literal of the file is closed where the file ends, no lexical error on the way
Inv_LexicallyComplete == st.m # "err" /\ (fin => st.m = "code")
\* the skeleton is the twin's skeleton
Inv_SkeletonIndependentOfPayload ==
  fin /\ st.m = "code" /\ Files[f].exp1 >= 0 => st.h1 = Files[f].exp1 /\ st.h2 = Files[f].exp2
=============================================================================
