--------------------------- MODULE ConstraintsGen ---------------------------
(* G phase of C15 (and the scenario source of C11 - C14): the scenario space of Constraints.tla,       *)
(* enumerated by TLC and written as JSON.  The space is a union of named families; each family is an    *)
(* exhaustive product over a stated atom universe (no sampling inside TLC).                             *)
EXTENDS Constraints, Json, IOUtils, TLC, SequencesExt

CONSTANTS MaxC,        \* length constants range over 0..MaxC
          ChainCs,     \* constants used in the chain families (a subset of 0..MaxC)
          Triples,     \* BOOLEAN: include the three-atom families (thorough tier)
          TripleCs,    \* constants used in the three-atom families
          DiaCs        \* constants used in the diamond family

Cs == 0..MaxC
RecOps == LenOps \ {"!="}
NeedsOpt(cls, prim) == \E j \in 1..Len(cls) : \E a \in Range(cls[j]) : a.g \in SameGuards \cup ChainedGuards
Scn(kind, wmt, cls, prim) == [kind |-> kind, opt |-> NeedsOpt(cls, prim), wmt |-> wmt, shape |-> "chain", porder |-> <<>>, cls |-> cls, prim |-> prim]
Dia(kind, shape, cls, prim) == [kind |-> kind, opt |-> NeedsOpt(cls, prim), wmt |-> TRUE, shape |-> shape, porder |-> <<>>, cls |-> cls, prim |-> prim]
DiaShapes == {"dia_ab", "dia_ba"}

\* atom universes
LenU(ops, cs, sides, gs) == {LenAtom(op, c, sd, g, "const") : op \in ops, c \in cs, sd \in sides, g \in gs}
Plain(cs)   == LenU(RecOps, cs, {"L"}, {"none"})                \* len(x) op c
Mirror(cs)  == LenU(RecOps, cs, Sides, {"none"})                \* both operand orders

\* F1: one atom, every form, on every kind of lengthable value
F1_class == {Scn(kind, FALSE, <<<<a>>>>, <<>>) : kind \in {"str", "bytes", "list"}, a \in LenU(LenOps, Cs, Sides, Guards)}
F1_forms == {Scn("str", FALSE, <<<<LenAtom(op, 1, sd, g, f)>>>>, <<>>) :
                op \in LenOps, sd \in Sides, g \in {"none", "isnone"}, f \in {"nonconst", "conj"}}
F1_prim  == {Scn(kind, FALSE, <<<<>>>>, <<<<a>>>>) : kind \in {"cprim", "listcprim"}, a \in LenU(LenOps, Cs, Sides, {"none"})}
F1 == F1_class \cup F1_forms \cup F1_prim

\* F2: two atoms in the same class (reduction), incl. a guarded / unrecognised second atom
F2_plain  == {Scn("str", FALSE, <<<<a, b>>>>, <<>>) : a \in Mirror(Cs), b \in Plain(Cs)}
F2_guard  == {Scn("str", FALSE, <<<<a, b>>>>, <<>>) : a \in Plain({1, 3}), b \in LenU(RecOps, {1, 3}, {"L"}, {"isnone", "other", "othernot"})}
F2_prim   == {Scn("cprim", FALSE, <<<<>>>>, <<<<a, b>>>>) : a \in Plain(ChainCs), b \in Plain(ChainCs)}
F2 == F2_plain \cup F2_guard \cup F2_prim

\* F3: two atoms at different places of the inheritance / constrained-primitive chains (merge, in-lining)
F3 == UNION {
        { Scn("str", TRUE, <<<<a>>, <<b>>>>, <<>>),                         \* C1, C2
          Scn("list", TRUE, <<<<a>>, <<>>, <<b>>>>, <<>>),                  \* C1, C3 (C2 adds nothing)
          Scn("bytes", TRUE, <<<<>>, <<a>>, <<b>>>>, <<>>),                 \* C2, C3 (C1 unconstrained)
          Scn("cprim", FALSE, <<<<>>>>, <<<<a>>, <<b>>>>),                  \* P1, P2
          Scn("cprim", FALSE, <<<<b>>>>, <<<<a>>>>),                        \* P1 and the class using it
          Scn("cprim", TRUE, <<<<>>, <<b>>>>, <<<<>>, <<a>>>>),             \* P2 and a descendant class
          Scn("listcprim", FALSE, <<<<b>>>>, <<<<a>>>>) }                   \* items (P1) and list size (C1): independent
        : a \in Plain(ChainCs), b \in Plain(ChainCs) }

\* F4: three atoms (thorough)
F4 == IF ~Triples THEN {} ELSE
      {Scn("str", FALSE, <<<<a, b, c>>>>, <<>>) : a \in Plain(TripleCs), b \in Plain(TripleCs), c \in Plain(TripleCs)}
      \cup {Scn("str", TRUE, <<<<a>>, <<b>>, <<c>>>>, <<>>) : a \in Plain(TripleCs), b \in Plain(TripleCs), c \in Plain(TripleCs)}
      \cup {Scn("cprim", TRUE, <<<<>>, <<c>>>>, <<<<a>>, <<b>>>>) : a \in Plain(TripleCs), b \in Plain(TripleCs), c \in Plain(TripleCs)}

\* F5: patterns
PatIdSeqs == {<<"ab">>, <<"bc">>, <<"b">>, <<"ab", "bc">>, <<"bmpx">>, <<"astral">>}
F5_single == {Scn("str", FALSE, <<<<PatAtom(ids, g)>>>>, <<>>) : ids \in PatIdSeqs, g \in Guards}
F5_pairs  == UNION {
        { Scn("str", FALSE, <<<<PatAtom(p, "none"), PatAtom(q, "none")>>>>, <<>>),
          Scn("str", TRUE, <<<<PatAtom(p, "none")>>, <<PatAtom(q, "none")>>>>, <<>>),
          Scn("str", TRUE, <<<<PatAtom(p, "none")>>, <<>>, <<PatAtom(q, "isnone")>>>>, <<>>),
          Scn("cprim", FALSE, <<<<>>>>, <<<<PatAtom(p, "none")>>, <<PatAtom(q, "none")>>>>),
          Scn("cprim", FALSE, <<<<PatAtom(q, "none")>>>>, <<<<PatAtom(p, "none")>>>>),
          Scn("listcprim", FALSE, <<<<>>>>, <<<<PatAtom(p, "none"), PatAtom(q, "none")>>>>) }
        : p \in PatIdSeqs \ {<<"astral">>}, q \in {<<"ab">>, <<"bc">>, <<"ab", "bc">>} }
F5 == F5_single \cup F5_pairs

\* F6: constant sets (strings and enumeration literals)
StrSetSeqs  == {<<"S_ab">>, <<"S_bc">>, <<"S_c">>, <<"S_ab", "S_bc">>}
EnumSetSeqs == {<<"E_rg">>, <<"E_gb">>, <<"E_b">>, <<"E_rg", "E_gb">>}
SetFam(kind, seqs) ==
    {Scn(kind, FALSE, <<<<SetAtom(ids, g)>>>>, <<>>) : ids \in seqs, g \in Guards}
    \cup UNION {
        { Scn(kind, FALSE, <<<<SetAtom(p, "none"), SetAtom(q, "none")>>>>, <<>>),
          Scn(kind, TRUE, <<<<SetAtom(p, "none")>>, <<SetAtom(q, "none")>>>>, <<>>),
          Scn(kind, TRUE, <<<<SetAtom(p, "none")>>, <<>>, <<SetAtom(q, "notnot")>>>>, <<>>),
          Scn(kind, TRUE, <<<<>>, <<SetAtom(p, "none")>>, <<SetAtom(q, "none")>>>>, <<>>) }
        : p \in seqs, q \in seqs }
F6 == SetFam("str", StrSetSeqs) \cup SetFam("enum", EnumSetSeqs)
      \cup {Scn("cprim", FALSE, <<<<>>>>, <<<<SetAtom(ids, "none")>>>>) : ids \in StrSetSeqs}   \* on a constrained primitive: not a documented form

\* F7: length + pattern + set on the same value, at the same and at different levels
F7 == UNION {
        { Scn("str", FALSE, <<<<a, PatAtom(p, "none"), SetAtom(<<"S_ab">>, "none")>>>>, <<>>),
          Scn("str", TRUE, <<<<a>>, <<PatAtom(p, "none")>>, <<SetAtom(<<"S_bc">>, "none"), b>>>>, <<>>),
          Scn("cprim", TRUE, <<<<SetAtom(<<"S_ab">>, "none")>>, <<b>>>>, <<<<a, PatAtom(p, "none")>>>>) }
        : a \in LenU({"<=", ">"}, {1, 3}, {"L"}, {"none"}), b \in LenU({">=", "<"}, {2}, {"R"}, {"none"}), p \in {<<"ab">>, <<"ab", "bc">>} }

\* F8: multiple inheritance (diamond C1 <- C2, C1 <- C3, C4(C2, C3) and C4(C3, C2)): the two direct parents constrain the
\* same inherited property; C4 must get the conjunction over ALL ancestors, whatever the order of its bases
TinyLen == LenU({"<=", ">="}, {1, 3}, {"L"}, {"none"})
F8 == UNION {
        { Dia("str", sh, <<<<>>, <<a>>, <<b>>, <<>>>>, <<>>) : a \in Plain(DiaCs), b \in Plain(DiaCs) }
        \cup { Dia("list", sh, <<<<t>>, <<a>>, <<b>>, <<d>>>>, <<>>) : t \in {LenAtom(">=", 1, "L", "none", "const")}, a \in TinyLen, b \in TinyLen, d \in TinyLen }
        \cup { Dia("str", sh, <<<<>>, <<PatAtom(p, "none"), a>>, <<PatAtom(q, "none")>>, <<>>>>, <<>>)
                 : p \in {<<"ab">>, <<"bmpx">>}, q \in {<<"ab">>, <<"bc">>}, a \in TinyLen }
        \cup { Dia(kind, sh, <<<<>>, <<SetAtom(p, "none")>>, <<SetAtom(q, "none")>>, <<>>>>, <<>>)
                 : kind \in {"str"}, p \in StrSetSeqs, q \in StrSetSeqs }
        \cup { Dia("enum", sh, <<<<>>, <<SetAtom(p, "none")>>, <<SetAtom(q, "none")>>, <<SetAtom(<<"E_rg">>, "none")>>>>, <<>>)
                 : p \in EnumSetSeqs, q \in EnumSetSeqs }
        \cup { Dia("cprim", sh, <<<<>>, <<a>>, <<b>>, <<>>>>, <<<<LenAtom(">=", 1, "L", "none", "const")>>>>) : a \in TinyLen, b \in TinyLen }
        : sh \in DiaShapes }

\* F9: a chain of three constrained primitives P1 <- P2 <- P3 written in every order in the file (porder = the order of
\* declaration; the meaning does not depend on it): P3 must receive P1's constraints through P2 whatever comes first
Perms3 == {<<1, 2, 3>>, <<1, 3, 2>>, <<2, 1, 3>>, <<2, 3, 1>>, <<3, 1, 2>>, <<3, 2, 1>>}
F9 == { [Scn(kind, FALSE, <<<<>>>>, <<<<a>>, p2, p3>>) EXCEPT !.porder = po] :
          kind \in {"cprim", "listcprim"}, po \in Perms3,
          a \in TinyLen \cup {PatAtom(<<"ab">>, "none")},
          p2 \in {<<>>, <<LenAtom("<=", 3, "L", "none", "const")>>},
          p3 \in {<<>>, <<PatAtom(<<"bc">>, "none")>>} }

Families == <<F1, F2, F3, F4, F5, F6, F7, F8, F9>>
Scenarios == UNION {Families[j] : j \in DOMAIN Families}

ASSUME JsonSerialize(IOEnv.VERIF_OUT, SetToSeq(Scenarios))
\* the pattern / set library, for the harness to cross-check its concrete tables against the spec
Library == [pats |-> [p \in PatIds |-> SetToSeq(PatRanges(p))], sets |-> [z \in SetIds |-> SetToSeq(SetDef(z))]]
ASSUME JsonSerialize(IOEnv.VERIF_LIB, Library)
ASSUME PrintT(<<"@@PRINT@@ scenarios", Cardinality(Scenarios), [j \in DOMAIN Families |-> Cardinality(Families[j])]>>)
VARIABLE dummy
Init == dummy = 0
Next == UNCHANGED dummy
=============================================================================
