INIT Init
NEXT Next
INVARIANT Inv_SdkGenerated
INVARIANT Inv_JsonForm
INVARIANT Inv_JsonRoundTrip
INVARIANT Inv_JsonTextRoundTrip
INVARIANT Inv_JsonFieldByField
INVARIANT Inv_XmlForm
INVARIANT Inv_XmlRoundTrip
INVARIANT Inv_XmlFieldByField
