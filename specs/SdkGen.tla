------------------------------- MODULE SdkGen -------------------------------
(* G for C10: the case space, written as JSON.                                                     *)
(*   models    -- the fixed family plus NParam members of the parametric family (chosen by TLC's    *)
(*                seeded RandomSubset), as raw meta-models (the harness renders them to text);      *)
(*   instances -- per model the root instances Roots(m, depth, mode) with the expected wire forms   *)
(*                ToJ / ToX (the harness needs the latter to align number tokens);                   *)
(*   mutants   -- per model, for a spread of instances, every JSON and XML mutant of the             *)
(*                serialization (mutation actions of Sdk.tla applied at every position).             *)
EXTENDS SdkMut, Json, IOUtils, Randomization
CONSTANTS RichModels, RichDepth, BaseDepth, NParam, ParamDepth, MutDepth, MutStar
Part == atoi(IOEnv.VERIF_PART)      \* the case space is written in NParts slices (parallel TLC runs)
NParts == atoi(IOEnv.VERIF_NPARTS)
Mine(i) == i % NParts = Part

Pairs == SetToSeq(RandomSubset(NParam, (1..NKinds) \X (1..NKinds)))
GenModels == FixedModels \o DoubtfulModels
EntriesOf(pairs) ==
    T([i \in 1..Len(GenModels) |-> [m |-> GenModels[i], pa |-> 0, pb |-> 0, fixed |-> TRUE]])
    \o T([i \in 1..Len(pairs) |-> [m |-> ParamModel(pairs[i][1], pairs[i][2]), pa |-> pairs[i][1], pb |-> pairs[i][2], fixed |-> FALSE]])

Raw(m) == [id |-> m.id, root |-> m.root, enums |-> m.enums, classes |-> m.classes]
ModelOut(e, i) == [mi |-> i, pa |-> e.pa, pb |-> e.pb, raw |-> Raw(e.m)]
ModelsOut(es) == T([i \in 1..Len(es) |-> ModelOut(es[i], i)])

InstOut(e, i, xs) == T([q \in 1..Len(xs) |-> [mi |-> i, pa |-> e.pa, pb |-> e.pb, x |-> xs[q], xexp |-> ToX(e.m, xs[q]), xmlok |-> XmlRepresentable(e.m, xs[q])]])
\* boundary values everywhere down to RichDepth (models of RichModels), plain values down to BaseDepth (deeper nesting)
RootsOf(e) == IF ~e.fixed THEN Roots(e.m, ParamDepth, "base")
              ELSE (IF e.m.id \in RichModels THEN Roots(e.m, RichDepth, "rich") ELSE {}) \cup Roots(e.m, BaseDepth, "base")
InstancesOut(es) == Flat(T([i \in 1..Len(es) |-> IF Mine(i) THEN InstOut(es[i], i, SetToSeq(RootsOf(es[i]))) ELSE <<>>]))

\* the instances whose serializations are mutated
MutInstances(m) ==
    UNION {{Base(m, c, MutDepth, TRUE), Base(m, c, 1, FALSE)} \cup (IF MutStar THEN Star(m, c, 1, FALSE, "base") ELSE {}) : c \in ConcreteOf(m, m.root)}
MutOf1(e, i, x, fmt, ms) == T([q \in 1..Len(ms) |-> [mi |-> i, pa |-> e.pa, pb |-> e.pb, fmt |-> fmt, kind |-> ms[q].kind, at |-> ms[q].at, doc |-> ms[q].doc]])
MutOf(e, i, x) == MutOf1(e, i, x, "json", JRootMutants(e.m, ToJ(e.m, x), e.m.root)) \o MutOf1(e, i, x, "xml", XRootMutants(e.m, ToX(e.m, x), x.cls))
MutSeq(e, i, xs) == Flat(T([q \in 1..Len(xs) |-> MutOf(e, i, xs[q])]))
\* the same mutated document may arise from several instances / positions: keep one of each
MutantsOut(es) == SetToSeq(ToSet(Flat(T([i \in 1..Len(es) |-> IF Mine(i) THEN MutSeq(es[i], i, SetToSeq(MutInstances(es[i].m))) ELSE <<>>]))))

Out(what, path, v) == JsonSerialize(path, v) /\ PrintT(<<"@@PRINT@@ " \o what, Len(v)>>)
\* (the entries are evaluated once and threaded through: a second evaluation would draw another random sample)
Emit(es) == Out("models", IOEnv.VERIF_OUT_MODELS, ModelsOut(es)) /\ Out("instances", IOEnv.VERIF_OUT_INSTANCES, InstancesOut(es)) /\ Out("mutants", IOEnv.VERIF_OUT_MUTANTS, MutantsOut(es))
ASSUME Emit(EntriesOf(Pairs))
VARIABLE dummy
Init == dummy = 0
Next == UNCHANGED dummy
=============================================================================
