----------------------------- MODULE XsdTranslate -----------------------------
(* M phase of C13, pattern clause: the DESIGN of the pattern translation, at the level of the   *)
(* pattern TEXT, model-checked by TLC against the declarative language of the tree.             *)
(*                                                                                              *)
(*  XRender(tree)      the intended translation: parse first, then write every character        *)
(*                     verbatim (XSD has no \x \u \U), escaped where XSD needs it; no anchors   *)
(*  XsdParse(text)     a recursive-descent parser of the XSD pattern syntax (XML Schema Part 2, *)
(*                     appendix F; the fragment without category escapes and subtraction)       *)
(*  XsdAccepts(t, s)   the text parses and the parsed tree matches s                            *)
(*  UnescapeX(text)    the pinned design step: replace \xHH by the character in the TEXT,       *)
(*                     before parsing                                                           *)
(* Checked as a state machine that walks over the tree family of XsdGen (one tree per state):   *)
(*    Faithful       XRender(t) is well-formed XSD and accepts exactly the strings (<= MaxStr   *)
(*                   over Boundary(t)) that the meta-model pattern accepts                      *)
(*    TextualIsFaithful   the same for UnescapeX(Render(t)) -- EXPECTED TO BE VIOLATED (negative*)
(*                   control in its own cfg): TLC exhibits an encoded metacharacter that turns  *)
(*                   into syntax.                                                               *)
EXTENDS XsdTrees

CONSTANT MaxStr

---------------------------------------------------------------------------
(* the intended rendering for XSD *)
\*  \ | . ? * + ( ) { } [ ] ^   need a backslash outside a character class;  $ and - do not
XEscOutside == {92, 124, 46, 63, 42, 43, 40, 41, 123, 125, 91, 93, 94}
\*  \ [ ] - ^   inside a character class (always escaped here: simplest correct choice)
XEscInside == {92, 91, 93, 45, 94}
XChar(c) == IF c \in XEscOutside THEN <<92, c>> ELSE <<c>>
XItem(c) == IF c \in XEscInside THEN <<92, c>> ELSE <<c>>
RECURSIVE XRender(_)
RECURSIVE XRenderSeq(_, _, _)
RECURSIVE XRenderItems(_, _)
XRenderItems(rs, q) ==
    IF q > Len(rs) THEN <<>>
    ELSE (IF rs[q].rng THEN XItem(rs[q].lo) \o <<45>> \o XItem(rs[q].hi) ELSE XItem(rs[q].lo)) \o XRenderItems(rs, q + 1)
XRenderSeq(xs, q, sep) ==
    IF q > Len(xs) THEN <<>>
    ELSE XRender(xs[q]) \o (IF q < Len(xs) THEN sep ELSE <<>>) \o XRenderSeq(xs, q + 1, sep)
XRender(n) ==
    CASE n.k = "lit" -> XChar(n.c)
      [] n.k = "dot" -> <<46>>
      [] n.k = "set" -> <<91>> \o (IF n.neg THEN <<94>> ELSE <<>>) \o XRenderItems(n.rs, 1) \o <<93>>
      [] n.k = "cat" -> XRenderSeq(n.xs, 1, <<>>)
      [] n.k = "alt" -> Paren(XRenderSeq(n.xs, 1, <<124>>))
      [] n.k = "rep" -> (IF n.xs[1].k \in {"lit", "dot", "set", "alt"} THEN XRender(n.xs[1])
                         ELSE Paren(XRender(n.xs[1]))) \o Quant(n.lo, n.hi)

---------------------------------------------------------------------------
(* the pinned step: un-escape \xHH in the text *)
IsHex(c) == (c >= 48 /\ c <= 57) \/ (c >= 65 /\ c <= 70) \/ (c >= 97 /\ c <= 102)
HexVal(c) == IF c <= 57 THEN c - 48 ELSE IF c <= 70 THEN c - 55 ELSE c - 87
RECURSIVE UnescapeFrom(_, _)
UnescapeFrom(t, q) ==
    IF q > Len(t) THEN <<>>
    ELSE IF q + 3 <= Len(t) /\ t[q] = 92 /\ t[q + 1] = 120 /\ IsHex(t[q + 2]) /\ IsHex(t[q + 3])
         THEN <<16 * HexVal(t[q + 2]) + HexVal(t[q + 3])>> \o UnescapeFrom(t, q + 4)
         ELSE <<t[q]>> \o UnescapeFrom(t, q + 1)
UnescapeX(t) == UnescapeFrom(t, 1)

---------------------------------------------------------------------------
(* a parser of XSD pattern text: results [ok, node, pos] (pos = next unread position) *)
Res(ok, node, pos) == [ok |-> ok, node |-> node, pos |-> pos]
Fail == Res(FALSE, Dot, 0)
At(t, q) == IF q <= Len(t) THEN t[q] ELSE 0 - 1
IsDigit(c) == c >= 48 /\ c <= 57
\* single character escapes: n r t and the escaped punctuation
EscValue(c) == CASE c = 110 -> 10 [] c = 114 -> 13 [] c = 116 -> 9 [] OTHER -> c
\* Normal characters of the grammar: everything but  . \ ? * + { } ( ) | [ ]
XsdMeta == {46, 92, 63, 42, 43, 123, 125, 40, 41, 124, 91, 93}

RECURSIVE PRegExp(_, _)
RECURSIVE PAlts(_, _, _)
RECURSIVE PPieces(_, _, _)
RECURSIVE PAtom(_, _)
RECURSIVE PSetItems(_, _, _)
RECURSIVE PNumber(_, _, _)

\* digits starting at q: <<value, next position>> (value -1 if there is no digit)
PNumber(t, q, acc) ==
    IF IsDigit(At(t, q)) THEN PNumber(t, q + 1, (IF acc < 0 THEN 0 ELSE acc * 10) + (At(t, q) - 48)) ELSE <<acc, q>>
\* quantifier at q: <<lo, hi, next position>>, <<1, 1, q>> when there is none, <<0-2, 0, 0>> when malformed
Bad == 0 - 2
PQuant(t, q) ==
    CASE At(t, q) = 63 -> <<0, 1, q + 1>>
      [] At(t, q) = 42 -> <<0, Inf, q + 1>>
      [] At(t, q) = 43 -> <<1, Inf, q + 1>>
      [] At(t, q) = 123 ->
            LET a == PNumber(t, q + 1, 0 - 1) IN
            IF a[1] < 0 THEN <<Bad, 0, 0>>
            ELSE IF At(t, a[2]) = 125 THEN <<a[1], a[1], a[2] + 1>>
            ELSE IF At(t, a[2]) # 44 THEN <<Bad, 0, 0>>
            ELSE IF At(t, a[2] + 1) = 125 THEN <<a[1], Inf, a[2] + 2>>
            ELSE LET b == PNumber(t, a[2] + 1, 0 - 1) IN
                 IF b[1] < 0 \/ At(t, b[2]) # 125 \/ b[1] < a[1] THEN <<Bad, 0, 0>> ELSE <<a[1], b[1], b[2] + 1>>
      [] OTHER -> <<1, 1, q>>

\* one character (or escape) inside a character class at q: <<code, next>> or <<-1, 0>>
PSetChar(t, q) ==
    IF q > Len(t) THEN <<0 - 1, 0>>
    ELSE IF t[q] = 92 THEN (IF q + 1 <= Len(t) /\ t[q + 1] \in XsdSingleEsc THEN <<EscValue(t[q + 1]), q + 2>> ELSE <<0 - 1, 0>>)
    ELSE IF t[q] \in {91, 93} THEN <<0 - 1, 0>>
    ELSE <<t[q], q + 1>>
\* items of a class until the closing bracket
PSetItems(t, q, acc) ==
    IF At(t, q) = 93 THEN (IF Len(acc) = 0 THEN Fail ELSE Res(TRUE, CSet(FALSE, acc), q + 1))
    ELSE LET a == PSetChar(t, q) IN
         IF a[1] < 0 THEN Fail
         \* a hyphen that is followed by something other than the closing bracket makes a range
         ELSE IF At(t, a[2]) = 45 /\ At(t, a[2] + 1) # 93
              THEN LET b == PSetChar(t, a[2] + 1) IN
                   IF b[1] < 0 \/ b[1] < a[1] THEN Fail
                   ELSE PSetItems(t, b[2], Append(acc, Rng(a[1], "raw", b[1], "raw")))
              ELSE PSetItems(t, a[2], Append(acc, One(a[1], "raw")))

PAtom(t, q) ==
    LET c == At(t, q) IN
    CASE c = 40 -> LET r == PRegExp(t, q + 1) IN
                   IF r.ok /\ At(t, r.pos) = 41 THEN Res(TRUE, r.node, r.pos + 1) ELSE Fail
      [] c = 91 -> LET neg == At(t, q + 1) = 94
                       r == PSetItems(t, IF neg THEN q + 2 ELSE q + 1, <<>>) IN
                   IF r.ok THEN Res(TRUE, CSet(neg, r.node.rs), r.pos) ELSE Fail
      [] c = 92 -> IF q + 1 <= Len(t) /\ t[q + 1] \in XsdSingleEsc THEN Res(TRUE, Lit(EscValue(t[q + 1]), "raw"), q + 2) ELSE Fail
      [] c = 46 -> Res(TRUE, Dot, q + 1)
      [] c \in XsdMeta \/ c < 0 -> Fail
      [] OTHER -> Res(TRUE, Lit(c, "raw"), q + 1)

\* pieces of a branch until  |  )  or the end
PPieces(t, q, acc) ==
    IF q > Len(t) \/ At(t, q) \in {124, 41}
    THEN Res(TRUE, IF Len(acc) = 1 THEN acc[1] ELSE Cat(acc), q)
    ELSE LET a == PAtom(t, q) IN
         IF ~a.ok THEN Fail
         ELSE LET qu == PQuant(t, a.pos) IN
              IF qu[1] = Bad THEN Fail
              ELSE PPieces(t, qu[3], Append(acc, IF qu[1] = 1 /\ qu[2] = 1 THEN a.node ELSE Rep(a.node, qu[1], qu[2])))
PAlts(t, q, acc) ==
    LET b == PPieces(t, q, <<>>) IN
    IF ~b.ok THEN Fail
    ELSE IF At(t, b.pos) = 124 THEN PAlts(t, b.pos + 1, Append(acc, b.node))
    ELSE Res(TRUE, IF Len(acc) = 0 THEN b.node ELSE Alt(Append(acc, b.node)), b.pos)
PRegExp(t, q) == PAlts(t, q, <<>>)

XsdParse(t) == LET r == PRegExp(t, 1) IN IF r.ok /\ r.pos = Len(t) + 1 THEN r ELSE Fail
XsdAccepts(t, s) == LET r == XsdParse(t) IN r.ok /\ FullMatch(r.node, s)

---------------------------------------------------------------------------
(* strings over an alphabet *)
StringsUpTo(A, n) == UNION {[1..m -> A] : m \in 0..n}
FaithfulText(text, tree) ==
    /\ XsdPatternWellFormed(text)
    /\ LET r == XsdParse(text) IN
       r.ok /\ \A s \in StringsUpTo(Boundary({tree}), MaxStr) : FullMatch(r.node, s) = FullMatch(tree, s)

(* the walk over the family: one tree per state; two levels (group, tree) so that TLC's workers share *)
(* the family                                                                                         *)
TreeSeq == SetToSeq(Trees)
Groups == 16
VARIABLES g, k
vars == <<g, k>>
Init == g = 0 /\ k = 0
Next == \/ g = 0 /\ g' \in 1..Groups /\ k' = 0
        \/ g > 0 /\ k = 0 /\ g' = g /\ k' \in {n \in 1..Len(TreeSeq) : n % Groups = g - 1}
Spec == Init /\ [][Next]_vars
T == TreeSeq[k]
Faithful == k > 0 => FaithfulText(XRender(T), T)
\* trees whose text contains no \u / \U escape (those are not touched by the textual step)
NoUni(t) == ~\E p \in Lits(t) \cup SetItems(t) : p[2] \in {"u", "U"}
TextualIsFaithful == k > 0 /\ NoUni(T) => FaithfulText(UnescapeX(Render(T)), T)
=============================================================================
