INIT Init
NEXT Next
CONSTANTS
  Which = "thorough"
INVARIANT Inv_SameFiles
INVARIANT Inv_SameStdout
INVARIANT Inv_SameStderr
INVARIANT Inv_SameStatus
INVARIANT Chk_IsPlan
INVARIANT Chk_Established
