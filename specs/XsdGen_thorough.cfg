INIT Init
NEXT Next
CONSTANTS
  MaxC = 2
  Rich = TRUE
