INIT Init
NEXT Next
CONSTANTS
  MaxC = 3
  Rich = TRUE
