INIT Init
NEXT Next
CONSTANTS
  PairScope = "all"
  DocScope = "all"
