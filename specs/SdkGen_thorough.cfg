INIT Init
NEXT Next
CONSTANTS
  RichModels = {"prims", "enums", "hier", "mixin", "rec"}
  RichDepth = 1
  BaseDepth = 3
  NParam = 40
  ParamDepth = 1
  MutDepth = 2
  MutStar = TRUE
