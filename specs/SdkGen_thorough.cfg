INIT Init
NEXT Next
CONSTANTS
  RichDepth = 2
  BaseDepth = 3
  NParam = 160
  ParamDepth = 1
  MutDepth = 2
  MutStar = TRUE
