INIT Init
NEXT Next
CONSTANTS
  RichModels = {"prims", "enums", "hier", "mixin", "rec"}
  RichDepth = 2
  BaseDepth = 3
  NParam = 120
  ParamDepth = 1
  MutDepth = 2
  MutStar = TRUE
