SPECIFICATION Spec
CONSTANTS
  MaxC = 2
  MaxLen = 3
  ModelKinds = {"str"}
  FormOps = {"<=", ">="}
  Sides = {"L"}
INVARIANT Design_ExclusionIsReal
