INIT Init
NEXT Next
CONSTANTS
  N = 4
  Full = TRUE
  Fifth = TRUE
