INIT Init
NEXT Next
CONSTANTS
  Wide = TRUE
