---- MODULE LocTrace ----
(* V phase of C04. One record per observation of the real code:                                   *)
(*   kind "node"   a located error as formatted by LinenoColumner.error_message: reported (L, C), *)
(*                 the newline offsets of the text, and the candidates = start offsets of the     *)
(*                 error's AST node and of the statements enclosing it (computed by the harness   *)
(*                 from Python's ast line/column data and from the token range);                  *)
(*   kind "stderr" an "At line L and column C" found in the stderr of main.execute / the smoke   *)
(*                 tool; candidates = the starts of ALL constructs of the text (which one the     *)
(*                 message is about is not visible in the stream);                                *)
(*   kind "table"  the offset table the real LinenoColumner built for a tiny text.               *)
EXTENDS Loc, Json, IOUtils, TLC
Obs == JsonDeserialize(IOEnv.VERIF_OBS)
VARIABLE i
Init == i \in 1..Len(Obs)
Next == UNCHANGED i

Rng(s) == {s[j] : j \in 1..Len(s)}
NL == Rng(Obs[i].nl)
Cands == Rng(Obs[i].cands)
Located == Obs[i].kind \in {"node", "stderr"}

Inv_OneBased == Located => Obs[i].L >= 1 /\ Obs[i].C >= 1
Inv_Line == Located => LineOk(NL, Cands, Obs[i].L)
Inv_NoShift == Located => ~ShiftedByOne(NL, Cands, Obs[i].L, Obs[i].C)
Inv_Column == Located /\ LineOk(NL, Cands, Obs[i].L) => ColumnOk(NL, Cands, Obs[i].L, Obs[i].C)

\* the real table agrees with the declarative map wherever a construct can start: at every
\* non-newline character, and at offset 0 (the start of the module node) whatever stands there
TableNL == {o \in 0..(Len(Obs[i].txt) - 1) : Obs[i].txt[o + 1] = 1}
Inv_TableRefines ==
    Obs[i].kind = "table" =>
        \A o \in 0..(Len(Obs[i].positions) - 1) :
            (Obs[i].txt[o + 1] # 1 \/ o = 0) => Obs[i].positions[o + 1] = Pos(TableNL, o)

\* non-vacuity counters: located reports on a line after the first; tables with a character after a newline
NLater == Cardinality({n \in 1..Len(Obs) : Obs[n].kind \in {"node", "stderr"} /\ Obs[n].L > 1})
NFirst == Cardinality({n \in 1..Len(Obs) : Obs[n].kind \in {"node", "stderr"} /\ Obs[n].L = 1})
NTable == Cardinality({n \in 1..Len(Obs) : Obs[n].kind = "table" /\
                          \E o \in 1..(Len(Obs[n].positions) - 1) : Obs[n].txt[o] = 1 /\ Obs[n].txt[o + 1] # 1})
ASSUME PrintT(<<"@@PRINT@@ counters", Len(Obs), NLater, NFirst, NTable>>)
====
