---- MODULE LocTrace ----
(* V phase of C04. One record per observation of the real code:                                   *)
(*   kind "node"   a located error as formatted by LinenoColumner.error_message: reported (L, C), *)
(*                 the newline offsets of the text, and the candidates = start offsets of the     *)
(*                 error's AST node and of the statements enclosing it (computed by the harness   *)
(*                 from Python's ast line/column data and from the token range);                  *)
(*   kind "stderr" an "At line L and column C" found in the stderr of main.execute / the smoke   *)
(*                 tool; candidates = the starts of ALL constructs of the text (which one the     *)
(*                 message is about is not visible in the stream);                                *)
(*   kind "table"  the offset table the real LinenoColumner built for a tiny text;                *)
(*   kind "nonode" an error WITHOUT a construct, as rendered inside a report (L = C = 0 when it   *)
(*                 carries no location prefix);                                                   *)
(*   kind "raised" error_message raised instead of returning a report.                            *)
EXTENDS Loc, Json, IOUtils, TLC
Obs == JsonDeserialize(IOEnv.VERIF_OBS)
VARIABLE i
Init == i \in 1..Len(Obs)
Next == UNCHANGED i

Rng(s) == {s[j] : j \in 1..Len(s)}
NL == Rng(Obs[i].nl)
Cands == Rng(Obs[i].cands)
Located == Obs[i].kind \in {"node", "stderr"}

Inv_OneBased == Located => Obs[i].L >= 1 /\ Obs[i].C >= 1
Inv_Line == Located => LineOk(NL, Cands, Obs[i].L)
Inv_NoShift == Located => ~ShiftedByOne(NL, Cands, Obs[i].L, Obs[i].C)
Inv_Column == Located /\ LineOk(NL, Cands, Obs[i].L) => ColumnOk(NL, Cands, Obs[i].L, Obs[i].C)

\* a location is claimed only for an error that has a construct: the prefix of a located error must not
\* leak onto an un-located one rendered after it
Inv_NoLocationWithoutConstruct == Obs[i].kind = "nonode" => Obs[i].L = 0 /\ Obs[i].C = 0
\* the location of a located error can always be computed
Inv_LocationComputed == Obs[i].kind # "raised"

\* the real table agrees with the declarative map wherever a construct can start: at every
\* non-newline character, and at offset 0 (the start of the module node) whatever stands there
\* (a table may have more entries than the text has characters, e.g. one for the end of the text)
Min2(a, b) == IF a < b THEN a ELSE b
TableLen(n) == Min2(Len(Obs[n].positions), Len(Obs[n].txt))
TableNL == {o \in 0..(Len(Obs[i].txt) - 1) : Obs[i].txt[o + 1] = 1}
Inv_TableRefines ==
    Obs[i].kind = "table" =>
        \A o \in 0..(TableLen(i) - 1) :
            (Obs[i].txt[o + 1] # 1 \/ o = 0) => Obs[i].positions[o + 1] = Pos(TableNL, o)

\* non-vacuity counters: located reports on a line after the first; tables with a character after a newline
NLater == Cardinality({n \in 1..Len(Obs) : Obs[n].kind \in {"node", "stderr"} /\ Obs[n].L > 1})
NFirst == Cardinality({n \in 1..Len(Obs) : Obs[n].kind \in {"node", "stderr"} /\ Obs[n].L = 1})
NNoNode == Cardinality({n \in 1..Len(Obs) : Obs[n].kind = "nonode"})
NTable == Cardinality({n \in 1..Len(Obs) : Obs[n].kind = "table" /\
                          \E o \in 1..(TableLen(n) - 1) : Obs[n].txt[o] = 1 /\ Obs[n].txt[o + 1] # 1})
ASSUME PrintT(<<"@@PRINT@@ counters", Len(Obs), NLater, NFirst, NTable, NNoNode>>)
====
