--------------------------- MODULE PipeSyntaxGen ---------------------------
(* G phase of C01 (and the syntax part of C03 / C28): TLC enumerates the items of PipeSyntax and  *)
(* writes them as JSON:                                                                           *)
(*   VERIF_OUT_ITEMS   all items deviating in <= MaxDev slots from their template (+ templates)   *)
(*   VERIF_OUT_TOKENS  the regex token alphabet and all token sequences of length <= MaxTokens    *)
(* Module cases = base + one item, or base + two items of Items1 (pairs are formed by index in    *)
(* the harness, seeded, because |Items1|^2 modules are run by sampling).                          *)
EXTENDS PipeSyntax, Json, IOUtils, TLC, SequencesExt

ItemSeq == SetToSeq(Items)
Item1Seq == SetToSeq(Items1)
TemplateSeq == SetToSeq(Templates)
TokSeqs == SetToSeq(TokenSeqs(MaxTokens))

ASSUME JsonSerialize(IOEnv.VERIF_OUT_ITEMS,
                     [items |-> ItemSeq, items1 |-> Item1Seq, templates |-> TemplateSeq])
ASSUME JsonSerialize(IOEnv.VERIF_OUT_TOKENS, [tokens |-> RegexTokens, seqs |-> TokSeqs])
ASSUME PrintT(<<"@@PRINT@@ items", Len(ItemSeq), Len(Item1Seq), Len(TokSeqs)>>)

VARIABLE dummy
Init == dummy = 0
Next == UNCHANGED dummy
=============================================================================
