----------------------------- MODULE WrapAlgo -----------------------------
(* C27, design level: the greedy algorithm of common.wrap_text_into_lines as a state machine  *)
(* (one action per part while tokenising, one per token while flowing), model-checked against  *)
(* the declarative clauses of Wrap.tla.                                                        *)
EXTENDS Wrap


CONSTANTS Vocabulary,  \* set of parts (code point sequences), may contain <<>>
          MaxParts, MaxWidth

VARIABLES text, width, pc, parts, k, article, hasArticle, tokens, j, acc, accLen, segs
vars == <<text, width, pc, parts, k, article, hasArticle, tokens, j, acc, accLen, segs>>

PartSeqs == UNION {[1..n -> Vocabulary] : n \in 1..MaxParts}

Init ==
    /\ \E ps \in PartSeqs : text = JoinSp(ps)
    /\ width \in 1..MaxWidth
    /\ pc = "start" /\ parts = <<>> /\ k = 1 /\ article = <<>> /\ hasArticle = FALSE
    /\ tokens = <<>> /\ j = 1 /\ acc = <<>> /\ accLen = 0 /\ segs = <<>>

Start ==
    /\ pc = "start"
    /\ parts' = Parts(text)
    /\ IF Len(Parts(text)) = 1
       THEN segs' = <<text>> /\ pc' = "done"
       ELSE segs' = segs /\ pc' = "tokenize"
    /\ UNCHANGED <<text, width, k, article, hasArticle, tokens, j, acc, accLen>>

TokenizePart ==
    /\ pc = "tokenize" /\ k <= Len(parts)
    /\ LET p == parts[k] IN
       IF ~hasArticle
       THEN IF IsArticle(p)
            THEN article' = p /\ hasArticle' = TRUE /\ tokens' = tokens
            ELSE tokens' = Append(tokens, p) /\ UNCHANGED <<article, hasArticle>>
       ELSE IF IsArticle(p)
            THEN tokens' = Append(tokens, article) /\ article' = p /\ hasArticle' = TRUE
            ELSE tokens' = Append(tokens, article \o <<SP>> \o p) /\ article' = <<>> /\ hasArticle' = FALSE
    /\ k' = k + 1
    /\ UNCHANGED <<text, width, pc, parts, j, acc, accLen, segs>>

TokenizeEnd ==
    /\ pc = "tokenize" /\ k > Len(parts)
    /\ LET toks == IF hasArticle THEN Append(tokens, article) ELSE tokens
       IN  tokens' = [i \in 1..Len(toks) |-> IF i < Len(toks) THEN Append(toks[i], SP) ELSE toks[i]]
    /\ pc' = "flow"
    /\ UNCHANGED <<text, width, parts, k, article, hasArticle, j, acc, accLen, segs>>

FlowToken ==
    /\ pc = "flow" /\ j <= Len(tokens)
    /\ LET t == tokens[j] IN
       IF Len(t) > width
       THEN segs' = segs \o <<acc, t>> /\ acc' = <<>> /\ accLen' = 0
       ELSE IF accLen + Len(t) > width
            THEN segs' = Append(segs, acc) /\ acc' = t /\ accLen' = Len(t)
            ELSE segs' = segs /\ acc' = acc \o t /\ accLen' = accLen + Len(t)
    /\ j' = j + 1
    /\ UNCHANGED <<text, width, pc, parts, k, article, hasArticle, tokens>>

FlowEnd ==
    /\ pc = "flow" /\ j > Len(tokens)
    /\ segs' = IF accLen > 0 THEN Append(segs, acc) ELSE segs
    /\ pc' = "done"
    /\ UNCHANGED <<text, width, parts, k, article, hasArticle, tokens, j, acc, accLen>>

Next == Start \/ TokenizePart \/ TokenizeEnd \/ FlowToken \/ FlowEnd
Spec == Init /\ [][Next]_vars

\* design-level properties
DoneConcat == pc = "done" => Concat(text, segs)
DoneFits == pc = "done" => Fits(segs, width)
DoneGlued == pc = "done" => ArticleGlued(text, segs)
TokensRebuildText == pc = "flow" => FlattenSeq(tokens) = text
=============================================================================
