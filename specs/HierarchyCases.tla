---------------------------- MODULE HierarchyCases ----------------------------
(* C05: the case space -- class hierarchies as a reader of a meta-model sees them.               *)
(* Shared by the design-level model check (MC_HierarchyAlgo) and the generator (HierarchyGen).   *)
(*                                                                                               *)
(* A case is [h |-> hierarchy (see Hierarchy.tla), rank |-> <<rank of the name of class c among  *)
(* the sorted class names>>, style |-> how the constructors are written (h.ctor),                *)
(* part |-> which slice of the space the case belongs to].  Classes are numbered in declaration  *)
(* order and every base is declared earlier, as in a Python module.                              *)
EXTENDS Hierarchy

\* all DAGs on 1..n whose edges point to earlier declarations: << set of bases of 1, ..., of n >>
RECURSIVE Dags(_)
Dags(n) == IF n = 0 THEN {<<>>} ELSE {Append(d, S) : d \in Dags(n - 1), S \in SUBSET (1..(n - 1))}

\* every digraph on 1..n, self loops and forward edges included (for the cycle detection of the DFS)
RECURSIVE Digraphs(_, _)
Digraphs(n, k) == IF k = 0 THEN {<<>>} ELSE {Append(d, S) : d \in Digraphs(n, k - 1), S \in SUBSET (1..n)}

RECURSIVE Asc(_)
Asc(S) == IF S = {} THEN <<>> ELSE LET m == CHOOSE x \in S : \A y \in S : x <= y IN <<m>> \o Asc(S \ {m})
Rev(s) == [k \in DOMAIN s |-> s[Len(s) + 1 - k]]

Perms(n) == {f \in [1..n -> 1..n] : \A i, j \in 1..n : i # j => f[i] # f[j]}
Identity(n) == [c \in 1..n |-> c]

PropName(c, k) == "p" \o ToString(c) \o "x" \o ToString(k)
InvName(c, k) == "i" \o ToString(c) \o "x" \o ToString(k)
MethName(c, k) == "m" \o ToString(c) \o "x" \o ToString(k)

Names(F(_, _), c, cnt) == [k \in 1..cnt |-> F(c, k)]

\* the written constructor of class c.  style:
\*   "super_first"  super-constructor calls in the order of the bases, then the own assignments
\*   "own_first"    own assignments first
\*   "super_rev"    super-constructor calls in the opposite order of the bases
\*   "own_twice"    as super_first, but every own assignment is written twice
\* A super-constructor is called only for a base that has properties to initialise.
CtorOf(h, c, style) ==
    LET bs == SelectSeq(IF style = "super_rev" THEN Rev(h.bases[c]) ELSE h.bases[c],
                        LAMBDA b : AllPropNames(h, b) # {})
        supers == [k \in DOMAIN bs |-> [t |-> "super", b |-> bs[k], p |-> ""]]
        own == [k \in DOMAIN h.props[c] |-> [t |-> "assign", b |-> 0, p |-> h.props[c][k]]]
    IN  IF h.kind[c] # "class" THEN <<>>
        ELSE IF style = "own_first" THEN own \o supers
        ELSE IF style = "own_twice" THEN supers \o own \o own
        ELSE supers \o own

\* the hierarchy: dag (sets of bases), order of writing the bases, flags and member counts per class,
\* style of the written constructors
Hier(dag, revBases, kinds, abs, np, ni, nm, wmt, style) ==
    LET n == Len(dag)
        bases == [c \in 1..n |-> IF revBases THEN Rev(Asc(dag[c])) ELSE Asc(dag[c])]
        props == [c \in 1..n |-> IF kinds[c] = "class" THEN Names(PropName, c, np[c]) ELSE <<>>]
        h0 == [n |-> n, kind |-> kinds, bases |-> bases, props |-> props]   \* what CtorOf looks at
    IN  [n |-> n,
         kind |-> kinds,
         bases |-> bases,
         abstract |-> abs,
         props |-> props,
         invs |-> [c \in 1..n |-> Names(InvName, c, ni[c])],
         methods |-> [c \in 1..n |-> IF kinds[c] = "class" THEN Names(MethName, c, nm[c]) ELSE <<>>],
         wmt |-> wmt,
         ctor |-> [c \in 1..n |-> CtorOf(h0, c, style)]]

Case(h, rank, style, part) == [h |-> h, rank |-> rank, style |-> style, part |-> part]

AllClass(n) == [c \in 1..n |-> "class"]
AllCprim(n) == [c \in 1..n |-> "cprim"]
Const(n, v) == [c \in 1..n |-> v]
Mod3(n) == [c \in 1..n |-> c % 3]              \* 1, 2, 0, 1, 2
Alt(n) == [c \in 1..n |-> (c + 1) % 2]         \* 0, 1, 0, 1, 0
AbsButLast(n) == [c \in 1..n |-> c < n]

\* ---- slices of the case space (n classes) ---------------------------------------------------
\* Every slice ranges over *all* DAGs on n classes.  With full = FALSE (quick tier, n >= 4) the other
\* dimensions of the larger slices are thinned out; n <= 3 is always complete.
\* A: every DAG x every assignment of abstract flags
PartA(n, full) ==
    {Case(Hier(d, TRUE, AllClass(n), abs, Mod3(n), Const(n, 1), Const(n, 0), Const(n, "none"), "super_first"),
          Identity(n), "super_first", "A")
     : d \in Dags(n), abs \in [1..n -> BOOLEAN]}
\* B: every DAG x every assignment of names (the sort draws its roots from a name-sorted set)
Rot(n, k) == [c \in 1..n |-> ((c + k - 1) % n) + 1]
PartB(n, full) ==
    {Case(Hier(d, TRUE, AllClass(n), AbsButLast(n), Const(n, 1), Alt(n), Const(n, 0), Const(n, "none"), "super_first"),
          r, "super_first", "B")
     : d \in Dags(n),
       r \in IF full \/ n <= 3 THEN Perms(n) ELSE {Identity(n), Rev(Identity(n)), Rot(n, 1), Rev(Rot(n, 2))}}
\* C: every DAG x declared with_model_type per class
\* "bare" = @serialization() without with_model_type: the class has a setting object that says nothing
WmtChoices(n, full) ==
    IF n <= 3 THEN [1..n -> {"none", "true", "false", "bare"}]
    ELSE IF full THEN [1..n -> {"none", "true", "bare"}]
    ELSE {Const(n, "true")} \cup {[c \in 1..n |-> IF c = k THEN "true" ELSE "none"] : k \in 1..n}
         \cup {[c \in 1..n |-> IF c = k THEN "true" ELSE "bare"] : k \in 1..n}
PartC(n, full) ==
    {Case(Hier(d, TRUE, AllClass(n), AbsButLast(n), Const(n, 1), Const(n, 0), Const(n, 0), w, "super_first"),
          Identity(n), "super_first", "C")
     : d \in Dags(n), w \in WmtChoices(n, full)}
\* D: every DAG x member profiles x order of the bases x constructor style
MemberProfiles(n) ==
    {[np |-> Mod3(n), ni |-> Alt(n), nm |-> Const(n, 0)],
     [np |-> Const(n, 2), ni |-> Const(n, 2), nm |-> [c \in 1..n |-> IF c = n THEN 2 ELSE 0]],
     [np |-> Alt(n), ni |-> Mod3(n), nm |-> [c \in 1..n |-> IF c = 1 THEN 1 ELSE 0]],
     [np |-> Const(n, 0), ni |-> Const(n, 0), nm |-> Const(n, 1)],
     [np |-> [c \in 1..n |-> IF c = 1 THEN 0 ELSE 1], ni |-> Const(n, 1), nm |-> Alt(n)]}
Writings(n, full) ==
    IF full \/ n <= 3
    THEN {[rv |-> rv, st |-> st] : rv \in BOOLEAN, st \in {"super_first", "own_first", "super_rev"}}
    ELSE {[rv |-> FALSE, st |-> "super_first"], [rv |-> TRUE, st |-> "own_first"], [rv |-> TRUE, st |-> "super_rev"]}
PartD(n, full) ==
    {Case(Hier(d, w.rv, AllClass(n), AbsButLast(n), m.np, m.ni, m.nm, Const(n, "none"), w.st),
          Identity(n), w.st, "D")
     : d \in Dags(n), m \in MemberProfiles(n), w \in Writings(n, full)}
\* E: hierarchies of constrained primitives (roots constrain str)
PartE(n, full) ==
    {Case(Hier(d, v.rv, AllCprim(n), Const(n, FALSE), Const(n, 0), v.ni, Const(n, 0), Const(n, "none"), "super_first"),
          v.r, "super_first", "E")
     : d \in Dags(n),
       v \in IF full \/ n <= 3
              THEN {[rv |-> rv, ni |-> ni, r |-> r] : rv \in BOOLEAN, ni \in {Const(n, 1), Mod3(n)},
                                                     r \in {Identity(n), Rev(Identity(n))}}
              ELSE {[rv |-> TRUE, ni |-> Mod3(n), r |-> Identity(n)], [rv |-> FALSE, ni |-> Const(n, 1), r |-> Rev(Identity(n))]}}
\* F: classes and constrained primitives side by side (the first k members are constrained primitives)
PartF(n, full) ==
    UNION {{Case(Hier(d, TRUE, [c \in 1..n |-> IF c <= k THEN "cprim" ELSE "class"],
                      [c \in 1..n |-> c > k /\ c < n], Const(n, 1), Const(n, 1), Const(n, 0), Const(n, "none"), "super_first"),
                 r, "super_first", "F")
            : r \in {Identity(n), Rev(Identity(n))},
              d \in {dd \in Dags(n) : \A c \in 1..n : \A b \in dd[c] : (b <= k) <=> (c <= k)}}
           : k \in 1..(n - 1)}
\* H: the written constructor assigns its own properties twice
PartH(n, full) ==
    {Case(Hier(d, TRUE, AllClass(n), AbsButLast(n), Const(n, 1), Const(n, 0), Const(n, 0), Const(n, "none"), "own_twice"),
          Identity(n), "own_twice", "H")
     : d \in Dags(n)}

AllParts(n, full) ==
    PartA(n, full) \cup PartB(n, full) \cup PartC(n, full) \cup PartD(n, full) \cup PartE(n, full)
    \cup PartF(n, full) \cup PartH(n, full)
\* a fifth class (thorough tier): every DAG on five classes x a few flag assignments, name assignments,
\* member profiles and constrained primitives.  (An operator with a parameter, so that TLC does not evaluate it
\* eagerly as a constant where it is not used.)
Part5(full) ==
    LET n == 5 IN
    {Case(Hier(d, TRUE, AllClass(n), abs, Mod3(n), Const(n, 1), Const(n, 0), Const(n, "none"), "super_first"),
          Identity(n), "super_first", "A")
     : d \in Dags(n), abs \in {Const(n, FALSE), AbsButLast(n), [c \in 1..n |-> c % 2 = 1], [c \in 1..n |-> c % 2 = 0]}}
    \cup PartB(n, full)
    \cup {cs \in PartD(n, full) : cs.h.props[1] # <<>> /\ cs.h.methods[n] = <<>>}
    \cup PartE(n, full)

\* every digraph (cycles, self loops, bases declared later): only the sort is meaningful on these
PartG(n, allNames) == {Case(Hier(d, FALSE, AllClass(n), Const(n, FALSE), Const(n, 0), Const(n, 0), Const(n, 0), Const(n, "none"), "super_first"),
                  r, "super_first", "G")
             : d \in Digraphs(n, n), r \in IF allNames THEN Perms(n) ELSE {Identity(n), Rev(Identity(n))}}

UpTo(N, full) == UNION {AllParts(n, full) : n \in 1..N}
=============================================================================
