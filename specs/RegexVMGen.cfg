INIT Init
NEXT Next
CONSTANTS
  Wide = FALSE
  AlphaCap = 4
  LenCap = 5
  Budget = 200
