INIT Init
NEXT Next
INVARIANT Inv_RealParserAccepts
