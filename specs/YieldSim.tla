---- MODULE YieldSim ----
(* G phase of C26 beyond the exhaustive bound: a growth machine whose states are flows. Every step  *)
(* inserts one new node (a leaf, an empty loop, or an if around a fresh leaf, with or without an   *)
(* else branch) at ANY position of ANY node sequence of the current flow. Run with                 *)
(*   tlc -simulate num=N -depth D -seed S                                                          *)
(* every candidate successor of size >= MinPrint is printed (compactly) and becomes a case.       *)
(* case. Exhaustive mode (no -simulate) with a small MaxSize reaches every flow of Flows(MaxSize). *)
EXTENDS Yield
CONSTANTS MaxSize, MinPrint
VARIABLE flow

NewNodes ==
    {LeafShape("cmd"), LeafShape("yield"),
     LoopShape("while", 0, <<>>), LoopShape("for", 0, <<>>), LoopShape("for", 1, <<>>)}
    \cup {IfShape(k, <<l>>, e, <<>>) : k \in {"ift", "iff"}, l \in {LeafShape("cmd"), LeafShape("yield")}, e \in BOOLEAN}

InsertAt(ns, i, nd) == SubSeq(ns, 1, i - 1) \o <<nd>> \o SubSeq(ns, i, Len(ns))
ReplaceAt(ns, i, nd) == [ns EXCEPT ![i] = nd]

\* all sequences obtained from ns by inserting nd somewhere in it or below it
RECURSIVE Inserts(_, _)
NodeInserts(x, nd) ==
    IF IsLeaf(x) THEN {}
    ELSE {[x EXCEPT !.body = b] : b \in Inserts(x.body, nd)}
         \cup (IF x.hasElse THEN {[x EXCEPT !.els = e] : e \in Inserts(x.els, nd)} ELSE {})
Inserts(ns, nd) ==
    {InsertAt(ns, i, nd) : i \in 1..(Len(ns) + 1)}
    \cup UNION {{ReplaceAt(ns, i, m) : m \in NodeInserts(ns[i], nd)} : i \in 1..Len(ns)}

\* compact prefix encoding of a shape (printed instead of the records: TLC's pretty printer is slow):
\* 1 cmd, 2 yield, 3 while, 4 for, 5 for with init, 6/7 IfTrue without/with else, 8/9 IfFalse;
\* every body / else list is closed by 0. The harness decodes it and numbers the codes in pre-order
\* exactly as Numbered() does.
RECURSIVE EncSeq(_)
EncNode(nd) ==
    (CASE nd.k = "cmd" -> <<1>>
       [] nd.k = "yield" -> <<2>>
       [] nd.k = "while" -> <<3>> \o EncSeq(nd.body) \o <<0>>
       [] nd.k = "for" -> <<IF nd.init = 0 THEN 4 ELSE 5>> \o EncSeq(nd.body) \o <<0>>
       [] nd.k \in {"ift", "iff"} ->
            <<(IF nd.k = "ift" THEN 6 ELSE 8) + (IF nd.hasElse THEN 1 ELSE 0)>> \o EncSeq(nd.body) \o <<0>>
            \o (IF nd.hasElse THEN EncSeq(nd.els) \o <<0>> ELSE <<>>))
EncSeq(ns) == IF Len(ns) = 0 THEN <<>> ELSE EncNode(ns[1]) \o EncSeq(Tail(ns))

Init == flow = <<>>
Grow == \E nd \in NewNodes :
           /\ SizeOfSeq(flow) + SizeOfNode(nd) <= MaxSize
           /\ \E f \in Inserts(flow, nd) :
                /\ flow' = f
                /\ (SizeOfSeq(f) >= MinPrint => PrintT(<<"@@FLOW@@", EncSeq(f)>>))
Next == Grow
Spec == Init /\ [][Next]_flow

WellFormed == WellFormedSeq(flow) /\ SizeOfSeq(flow) <= MaxSize
====
