---- MODULE DeterminismPlan ----
(* C22 -- the variable-free part of Determinism.tla: the dimensions of a run configuration, their values, the  *)
(* plans (sequences of configurations replayed against the real generator) and the covering predicates.      *)
EXTENDS Naturals, Sequences, FiniteSets, TLC

Dims == {"seed", "loc", "pre", "order", "proc", "cache"}
Values == [seed |-> {"0", "1", "2", "random"}, loc |-> {"A", "B"}, pre |-> {"none", "stale", "unrelated", "crlf"},
           order |-> {"natural", "reversed", "shuffled"}, proc |-> {"sub", "inproc"}, cache |-> {"cold", "warm"}]
Configs == [seed : Values.seed, loc : Values.loc, pre : Values.pre, order : Values.order, proc : Values.proc, cache : Values.cache]
Cfg(seed, loc, pre, order, proc, cache) == [seed |-> seed, loc |-> loc, pre |-> pre, order |-> order, proc |-> proc, cache |-> cache]

(* plans ----------------------------------------------------------------------------------------- *)
\* quick: every value of every dimension occurs, and every dimension changes between two runs that agree elsewhere
\* as far as feasibility allows
QuickPlan == <<
    Cfg("0",      "A", "none",      "natural",  "sub",    "cold"),
    Cfg("1",      "A", "stale",     "natural",  "sub",    "warm"),
    Cfg("2",      "B", "none",      "reversed", "inproc", "cold"),
    Cfg("random", "B", "stale",     "shuffled", "sub",    "warm"),
    Cfg("1",      "A", "unrelated", "shuffled", "inproc", "cold"),
    Cfg("0",      "B", "crlf",      "natural",  "sub",    "warm") >>

\* thorough: a pairwise covering array (every pair of values of two different dimensions occurs in some run)
ThoroughPlan == <<
    Cfg("0",      "A", "none",      "natural",  "sub",    "cold"),
    Cfg("1",      "A", "stale",     "reversed", "sub",    "warm"),
    Cfg("2",      "B", "none",      "shuffled", "inproc", "warm"),
    Cfg("random", "B", "stale",     "natural",  "inproc", "cold"),
    Cfg("0",      "B", "unrelated", "reversed", "inproc", "warm"),
    Cfg("1",      "B", "unrelated", "shuffled", "sub",    "cold"),
    Cfg("2",      "A", "stale",     "natural",  "sub",    "warm"),
    Cfg("random", "A", "unrelated", "reversed", "sub",    "cold"),
    Cfg("0",      "A", "stale",     "shuffled", "inproc", "cold"),
    Cfg("1",      "A", "none",      "natural",  "inproc", "warm"),
    Cfg("2",      "B", "unrelated", "reversed", "sub",    "cold"),
    Cfg("random", "B", "none",      "shuffled", "sub",    "warm"),
    Cfg("1",      "B", "stale",     "natural",  "inproc", "cold"),
    Cfg("2",      "A", "none",      "reversed", "inproc", "cold"),
    Cfg("random", "A", "stale",     "shuffled", "sub",    "warm"),
    Cfg("0",      "B", "none",      "natural",  "sub",    "warm"),
    Cfg("1",      "A", "unrelated", "natural",  "sub",    "warm"),
    Cfg("2",      "B", "stale",     "shuffled", "sub",    "cold"),
    Cfg("random", "A", "none",      "natural",  "inproc", "warm"),
    Cfg("0",      "A", "unrelated", "shuffled", "sub",    "warm"),
    Cfg("random", "B", "unrelated", "natural",  "sub",    "cold"),
    Cfg("1",      "B", "none",      "reversed", "sub",    "cold"),
    Cfg("2",      "A", "unrelated", "natural",  "inproc", "warm"),
    Cfg("random", "B", "stale",     "reversed", "inproc", "warm"),
    Cfg("0",      "A", "crlf",      "natural",  "sub",    "cold"),
    Cfg("1",      "B", "crlf",      "reversed", "inproc", "warm"),
    Cfg("2",      "A", "crlf",      "shuffled", "sub",    "warm"),
    Cfg("random", "B", "crlf",      "natural",  "inproc", "cold") >>

AllValuesOccur(plan) == \A d \in Dims : \A v \in Values[d] : \E i \in DOMAIN plan : plan[i][d] = v
PairwiseCovering(plan) ==
    \A d1, d2 \in Dims : d1 # d2 =>
        \A v1 \in Values[d1], v2 \in Values[d2] : \E i \in DOMAIN plan : plan[i][d1] = v1 /\ plan[i][d2] = v2

====
