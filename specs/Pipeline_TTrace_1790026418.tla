---- MODULE Pipeline_TTrace_1790026418 ----
EXTENDS Sequences, TLCExt, Toolbox, Naturals, TLC, Pipeline

_expression ==
    LET Pipeline_TEExpression == INSTANCE Pipeline_TEExpression
    IN Pipeline_TEExpression!expression
----

_trace ==
    LET Pipeline_TETrace == INSTANCE Pipeline_TETrace
    IN Pipeline_TETrace!trace
----

_inv ==
    ~(
        TLCGet("level") = Len(_TETrace)
        /\
        phase = (0)
        /\
        comp = ([frontend |-> "notrun", infer |-> "notrun", csverify |-> "notrun", cstypes |-> "notrun", csverification |-> "notrun"])
        /\
        errs = ({})
        /\
        stdoutTail = ("generated")
        /\
        wrote = ({})
        /\
        pending = (FALSE)
        /\
        failed = ("no")
        /\
        tool = ("main")
        /\
        rc = (0)
        /\
        input = ([argDefect |-> "none", parses |-> FALSE, cache |-> "off"])
        /\
        stage = ("Done")
        /\
        reported = ({})
        /\
        stderrLines = (<<>>)
        /\
        lex = ("start")
    )
----

_init ==
    /\ phase = _TETrace[1].phase
    /\ wrote = _TETrace[1].wrote
    /\ comp = _TETrace[1].comp
    /\ reported = _TETrace[1].reported
    /\ stage = _TETrace[1].stage
    /\ pending = _TETrace[1].pending
    /\ lex = _TETrace[1].lex
    /\ rc = _TETrace[1].rc
    /\ input = _TETrace[1].input
    /\ tool = _TETrace[1].tool
    /\ errs = _TETrace[1].errs
    /\ failed = _TETrace[1].failed
    /\ stdoutTail = _TETrace[1].stdoutTail
    /\ stderrLines = _TETrace[1].stderrLines
----

_next ==
    /\ \E i,j \in DOMAIN _TETrace:
        /\ \/ /\ j = i + 1
              /\ i = TLCGet("level")
        /\ phase  = _TETrace[i].phase
        /\ phase' = _TETrace[j].phase
        /\ wrote  = _TETrace[i].wrote
        /\ wrote' = _TETrace[j].wrote
        /\ comp  = _TETrace[i].comp
        /\ comp' = _TETrace[j].comp
        /\ reported  = _TETrace[i].reported
        /\ reported' = _TETrace[j].reported
        /\ stage  = _TETrace[i].stage
        /\ stage' = _TETrace[j].stage
        /\ pending  = _TETrace[i].pending
        /\ pending' = _TETrace[j].pending
        /\ lex  = _TETrace[i].lex
        /\ lex' = _TETrace[j].lex
        /\ rc  = _TETrace[i].rc
        /\ rc' = _TETrace[j].rc
        /\ input  = _TETrace[i].input
        /\ input' = _TETrace[j].input
        /\ tool  = _TETrace[i].tool
        /\ tool' = _TETrace[j].tool
        /\ errs  = _TETrace[i].errs
        /\ errs' = _TETrace[j].errs
        /\ failed  = _TETrace[i].failed
        /\ failed' = _TETrace[j].failed
        /\ stdoutTail  = _TETrace[i].stdoutTail
        /\ stdoutTail' = _TETrace[j].stdoutTail
        /\ stderrLines  = _TETrace[i].stderrLines
        /\ stderrLines' = _TETrace[j].stderrLines

\* Uncomment the ASSUME below to write the states of the error trace
\* to the given file in Json format. Note that you can pass any tuple
\* to `JsonSerialize`. For example, a sub-sequence of _TETrace.
    \* ASSUME
    \*     LET J == INSTANCE Json
    \*         IN J!JsonSerialize("Pipeline_TTrace_1790026418.json", _TETrace)

=============================================================================

 Note that you can extract this module `Pipeline_TEExpression`
  to a dedicated file to reuse `expression` (the module in the 
  dedicated `Pipeline_TEExpression.tla` file takes precedence 
  over the module `Pipeline_TEExpression` below).

---- MODULE Pipeline_TEExpression ----
EXTENDS Sequences, TLCExt, Toolbox, Naturals, TLC, Pipeline

expression == 
    [
        \* To hide variables of the `Pipeline` spec from the error trace,
        \* remove the variables below.  The trace will be written in the order
        \* of the fields of this record.
        phase |-> phase
        ,wrote |-> wrote
        ,comp |-> comp
        ,reported |-> reported
        ,stage |-> stage
        ,pending |-> pending
        ,lex |-> lex
        ,rc |-> rc
        ,input |-> input
        ,tool |-> tool
        ,errs |-> errs
        ,failed |-> failed
        ,stdoutTail |-> stdoutTail
        ,stderrLines |-> stderrLines
        
        \* Put additional constant-, state-, and action-level expressions here:
        \* ,_stateNumber |-> _TEPosition
        \* ,_phaseUnchanged |-> phase = phase'
        
        \* Format the `phase` variable as Json value.
        \* ,_phaseJson |->
        \*     LET J == INSTANCE Json
        \*     IN J!ToJson(phase)
        
        \* Lastly, you may build expressions over arbitrary sets of states by
        \* leveraging the _TETrace operator.  For example, this is how to
        \* count the number of times a spec variable changed up to the current
        \* state in the trace.
        \* ,_phaseModCount |->
        \*     LET F[s \in DOMAIN _TETrace] ==
        \*         IF s = 1 THEN 0
        \*         ELSE IF _TETrace[s].phase # _TETrace[s-1].phase
        \*             THEN 1 + F[s-1] ELSE F[s-1]
        \*     IN F[_TEPosition - 1]
    ]

=============================================================================



Parsing and semantic processing can take forever if the trace below is long.
 In this case, it is advised to uncomment the module below to deserialize the
 trace from a generated binary file.

\*
\*---- MODULE Pipeline_TETrace ----
\*EXTENDS IOUtils, TLC, Pipeline
\*
\*trace == IODeserialize("Pipeline_TTrace_1790026418.bin", TRUE)
\*
\*=============================================================================
\*

---- MODULE Pipeline_TETrace ----
EXTENDS TLC, Pipeline

trace == 
    <<
    ([phase |-> 0,comp |-> [frontend |-> "notrun", infer |-> "notrun", csverify |-> "notrun", cstypes |-> "notrun", csverification |-> "notrun"],errs |-> {},stdoutTail |-> "none",wrote |-> {},pending |-> FALSE,failed |-> "no",tool |-> "main",rc |-> 9,input |-> [argDefect |-> "none", parses |-> FALSE, cache |-> "off"],stage |-> "CheckArgs",reported |-> {},stderrLines |-> <<>>,lex |-> "start"]),
    ([phase |-> 0,comp |-> [frontend |-> "notrun", infer |-> "notrun", csverify |-> "notrun", cstypes |-> "notrun", csverification |-> "notrun"],errs |-> {},stdoutTail |-> "none",wrote |-> {},pending |-> FALSE,failed |-> "no",tool |-> "main",rc |-> 9,input |-> [argDefect |-> "none", parses |-> FALSE, cache |-> "off"],stage |-> "TargetVerify",reported |-> {},stderrLines |-> <<>>,lex |-> "start"]),
    ([phase |-> 0,comp |-> [frontend |-> "notrun", infer |-> "notrun", csverify |-> "notrun", cstypes |-> "notrun", csverification |-> "notrun"],errs |-> {},stdoutTail |-> "generated",wrote |-> {},pending |-> FALSE,failed |-> "no",tool |-> "main",rc |-> 0,input |-> [argDefect |-> "none", parses |-> FALSE, cache |-> "off"],stage |-> "Done",reported |-> {},stderrLines |-> <<>>,lex |-> "start"])
    >>
----


=============================================================================

---- CONFIG Pipeline_TTrace_1790026418 ----
CONSTANTS
    MaxErr = 1
    Strict = FALSE

INVARIANT
    _inv

CHECK_DEADLOCK
    \* CHECK_DEADLOCK off because of PROPERTY or INVARIANT above.
    FALSE

INIT
    _init

NEXT
    _next

CONSTANT
    _TETrace <- _trace

ALIAS
    _expression
=============================================================================
\* Generated on Mon Sep 21 21:33:40 UTC 2026