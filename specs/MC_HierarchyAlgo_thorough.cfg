SPECIFICATION Spec
CONSTANTS
  Dedupe = TRUE
  N = 4
  Full = TRUE
  NSort = 3
  SortAllNames = TRUE
INVARIANT DoneAllClauses
INVARIANT CycleIffCyclic
INVARIANT SortedIsTopological
INVARIANT MarksDisjoint
INVARIANT StackIsPath
INVARIANT RejectedIffReason
