------------------------------ MODULE LexDiag -------------------------------
(* Diagnosis pass of C19: for the observations TLC found in violation, write what the spec *)
(* decodes and a structural fingerprint (cause, class of the first non-plain character of  *)
(* the original, class of its successor) as JSON.                                          *)
EXTENDS Lexers, Json, IOUtils, TLC
Bad == JsonDeserialize(IOEnv.VERIF_OBS)
Diag == [n \in 1..Len(Bad) |-> Diagnose(Bad[n].kind, Bad[n].text, Bad[n].orig)]
ASSUME JsonSerialize(IOEnv.VERIF_OUT, Diag)
VARIABLE dummy
Init == dummy = 0
Next == UNCHANGED dummy
=============================================================================
