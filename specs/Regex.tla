---- MODULE Regex ----
(***************************************************************************************************)
(* Regular expressions of aas-core-codegen (parse/retree) as TLA+ data, with a declarative         *)
(* semantics.  Variable-free: extended by the generators (RegexGen, Utf16Gen, RegexVMGen), the      *)
(* conformance specs (RegexTrace, Utf16Trace, RegexVMTrace) and by the VM model (RegexVM).          *)
(*                                                                                                 *)
(* Strings are sequences of code points (Seq(Int)); a position is the number of consumed           *)
(* characters (0..Len(s)).                                                                         *)
(*                                                                                                 *)
(* Tree vocabulary (the projection of retree._types used on the Python side is identical):         *)
(*   alt   [k |-> "alt",  cats  |-> <<cat, ...>>]        UnionExpr (zero alternatives = empty text) *)
(*   cat   [k |-> "cat",  terms |-> <<term, ...>>]       Concatenation (may be empty)               *)
(*   term  [k |-> "term", v |-> value, q |-> quantifier] Term                                       *)
(*   quantifier [has, min, max, ng]   max = Unbounded (-1) for "no upper bound"; ng = non-greedy    *)
(*   value: [k |-> "char", c, enc] | [k |-> "set", neg, ranges |-> <<[lo, hi, single]...>>]         *)
(*          | [k |-> "dot"] | [k |-> "start"] | [k |-> "end"] | [k |-> "group", alt]                *)
(*   range endpoints lo / hi are char values [k |-> "char", c, enc]; single = written without "-".  *)
(***************************************************************************************************)
EXTENDS Integers, Sequences, FiniteSets

Unbounded == -1

NoQ == [has |-> FALSE, min |-> 1, max |-> 1, ng |-> FALSE]
Q(mn, mx, ng) == [has |-> TRUE, min |-> mn, max |-> mx, ng |-> ng]
Chr(c, enc) == [k |-> "char", c |-> c, enc |-> enc]
Rng(lo, hi) == [lo |-> lo, hi |-> hi, single |-> FALSE]
Single(c) == [lo |-> c, hi |-> c, single |-> TRUE]
CSet(neg, ranges) == [k |-> "set", neg |-> neg, ranges |-> ranges]
Dot == [k |-> "dot"]
Start == [k |-> "start"]
End == [k |-> "end"]
Group(a) == [k |-> "group", alt |-> a]
Term(v, q) == [k |-> "term", v |-> v, q |-> q]
Cat(ts) == [k |-> "cat", terms |-> ts]
Alt(cs) == [k |-> "alt", cats |-> cs]
\* a regex consisting of a single term / a single concatenation
OneTerm(t) == Alt(<<Cat(<<t>>)>>)
OneCat(ts) == Alt(<<Cat(ts)>>)

LineFeed == 10
MaxCodePoint == 1114111
IsSurrogate(c) == 55296 <= c /\ c <= 57343
IsScalar(c) == 0 <= c /\ c <= MaxCodePoint /\ ~IsSurrogate(c)
IsAstral(c) == c >= 65536

(***************************************************************************************************)
(* Semantics.  Ends*(x, s, P): the set of positions at which a match of x can end when it starts at *)
(* some position of P.  Python `re` semantics without flags: "." is any character but line feed,    *)
(* a complemented set matches line feed, "^" holds at 0 only, "$" holds at the end and just before  *)
(* a final line feed.  Greediness does not change the set of end positions.  A quantified loop is   *)
(* a least fixed point over the (finite) set of positions, so nested empty loops are unproblematic. *)
(***************************************************************************************************)
InRanges(c, ranges) == \E r \in 1..Len(ranges) : ranges[r].lo.c <= c /\ c <= ranges[r].hi.c

AtomMatches(v, c) ==
  CASE v.k = "char" -> c = v.c
    [] v.k = "set" -> (InRanges(c, v.ranges) # v.neg)
    [] v.k = "dot" -> c # LineFeed

EndHolds(s, i) == i = Len(s) \/ (i = Len(s) - 1 /\ s[Len(s)] = LineFeed)

RECURSIVE EndsV(_, _, _), EndsAlt(_, _, _), EndsCat(_, _, _, _), EndsTerm(_, _, _), Lift(_, _, _),
          Iter(_, _, _, _), UpTo(_, _, _, _), Star(_, _, _)

EndsV(v, s, i) ==
  CASE v.k \in {"char", "set", "dot"} -> IF i < Len(s) /\ AtomMatches(v, s[i + 1]) THEN {i + 1} ELSE {}
    [] v.k = "start" -> IF i = 0 THEN {i} ELSE {}
    [] v.k = "end" -> IF EndHolds(s, i) THEN {i} ELSE {}
    [] v.k = "group" -> EndsAlt(v.alt, s, i)

Lift(v, s, P) == UNION {EndsV(v, s, p) : p \in P}
\* exactly n repetitions
Iter(v, s, P, n) == IF n = 0 \/ P = {} THEN P ELSE Iter(v, s, Lift(v, s, P), n - 1)
\* between 0 and n repetitions
UpTo(v, s, P, n) == IF n = 0 \/ P = {} THEN P ELSE P \cup UpTo(v, s, Lift(v, s, P), n - 1)
\* any number of repetitions
Star(v, s, P) == LET R == P \cup Lift(v, s, P) IN IF R = P THEN P ELSE Star(v, s, R)

EndsTerm(t, s, P) ==
  IF ~t.q.has THEN Lift(t.v, s, P)
  ELSE LET M == Iter(t.v, s, P, t.q.min)
       IN IF t.q.max = Unbounded THEN Star(t.v, s, M) ELSE UpTo(t.v, s, M, t.q.max - t.q.min)

EndsCat(terms, n, s, P) ==
  IF n > Len(terms) \/ P = {} THEN P ELSE EndsCat(terms, n + 1, s, EndsTerm(terms[n], s, P))

EndsAlt(a, s, i) ==
  IF Len(a.cats) = 0 THEN {i}
  ELSE UNION {EndsCat(a.cats[c].terms, 1, s, {i}) : c \in 1..Len(a.cats)}

Ends(re, s, i) == EndsAlt(re, s, i)
FullMatch(re, s) == Len(s) \in EndsAlt(re, s, 0)
Search(re, s) == \E i \in 0..Len(s) : EndsAlt(re, s, i) # {}

(***************************************************************************************************)
(* Strings, encodings, alphabets                                                                    *)
(***************************************************************************************************)
\* all strings of length <= n over the alphabet A
StringsUpTo(A, n) == UNION {[1..m -> A] : m \in 0..n}

\* the largest length L <= cap with |A|^0 + ... + |A|^L <= budget (at least 1)
RECURSIVE CountUpTo(_, _)
CountUpTo(a, n) == IF n = 0 THEN 1 ELSE 1 + a * CountUpTo(a, n - 1)
LengthFor(A, cap, budget) ==
  LET ok == {l \in 1..cap : CountUpTo(Cardinality(A), l) <= budget}
  IN IF ok = {} THEN 1 ELSE CHOOSE l \in ok : \A m \in ok : m <= l

HighSurrogate(c) == 55296 + ((c - 65536) \div 1024)
LowSurrogate(c) == 56320 + ((c - 65536) % 1024)
RECURSIVE Utf16(_)
Utf16(s) ==
  IF s = <<>> THEN <<>>
  ELSE (IF IsAstral(Head(s)) THEN <<HighSurrogate(Head(s)), LowSurrogate(Head(s))>> ELSE <<Head(s)>>)
       \o Utf16(Tail(s))

SeqToSet(q) == {q[n] : n \in 1..Len(q)}
RECURSIVE UnionOver(_, _)   \* UNION {f[n] : n \in 1..Len(f)} for a sequence of sets
UnionOver(f, n) == IF n = 0 THEN {} ELSE f[n] \cup UnionOver(f, n - 1)

\* the code points a tree mentions: literals and both endpoints of every range
RECURSIVE MentionedV(_), MentionedAlt(_)
MentionedV(v) ==
  CASE v.k = "char" -> {v.c}
    [] v.k = "set" -> UNION {{v.ranges[r].lo.c, v.ranges[r].hi.c} : r \in 1..Len(v.ranges)}
    [] v.k = "group" -> MentionedAlt(v.alt)
    [] OTHER -> {}
MentionedAlt(a) ==
  UNION {UNION {MentionedV(a.cats[c].terms[t].v) : t \in 1..Len(a.cats[c].terms)} : c \in 1..Len(a.cats)}
Mentioned(re) == MentionedAlt(re)

\* boundary alphabet: every mentioned code point with both neighbours, plus a neutral letter ("z") and,
\* where line feed is mentioned or wanted, line feed; surrogates and out-of-range values dropped
Neutral == 122
Boundary(re) == {c \in UNION {{m - 1, m, m + 1} : m \in Mentioned(re)} \cup {Neutral} : IsScalar(c)}
\* the mentioned code points first, then upper neighbours, then lower neighbours, truncated to n elements
RECURSIVE TakeMin(_, _)
TakeMin(S, n) == IF n = 0 \/ S = {} THEN {} ELSE LET m == CHOOSE x \in S : \A y \in S : x <= y IN {m} \cup TakeMin(S \ {m}, n - 1)
\* line feed is added where it is special: under ".", a complemented set or "$"
RECURSIVE KindsV(_), KindsAlt(_)
KindsV(v) == {IF v.k = "set" /\ v.neg THEN "negset" ELSE v.k} \cup (IF v.k = "group" THEN KindsAlt(v.alt) ELSE {})
KindsAlt(a) == UNION {UNION {KindsV(a.cats[c].terms[t].v) : t \in 1..Len(a.cats[c].terms)} : c \in 1..Len(a.cats)}
LineFeedMatters(re) == KindsAlt(re) \cap {"dot", "negset", "end"} # {}
BoundaryCapped(re, n) ==
  LET M == {c \in Mentioned(re) : IsScalar(c)}
      U == {c \in {m + 1 : m \in M} : IsScalar(c)} \ M
      D == {c \in {m - 1 : m \in M} : IsScalar(c)} \ (M \cup U)
      x == {Neutral} \cup (IF LineFeedMatters(re) THEN {LineFeed} ELSE {})
      k == n - Cardinality(x)
      a == TakeMin(M, k)
      b == TakeMin(U, k - Cardinality(a))
      d == TakeMin(D, k - Cardinality(a) - Cardinality(b))
  IN a \cup b \cup d \cup x

(***************************************************************************************************)
(* Structure predicates                                                                             *)
(***************************************************************************************************)
\* all value nodes / all terms of a tree (at any depth) as sequences, in text order
RECURSIVE ValuesV(_), ValuesAlt(_), ValuesCats(_, _), ValuesTerms(_, _)
ValuesV(v) == <<v>> \o (IF v.k = "group" THEN ValuesAlt(v.alt) ELSE <<>>)
ValuesTerms(ts, n) == IF n > Len(ts) THEN <<>> ELSE ValuesV(ts[n].v) \o ValuesTerms(ts, n + 1)
ValuesCats(cs, n) == IF n > Len(cs) THEN <<>> ELSE ValuesTerms(cs[n].terms, 1) \o ValuesCats(cs, n + 1)
ValuesAlt(a) == ValuesCats(a.cats, 1)
RECURSIVE TermsAlt(_), TermsCats(_, _), TermsTerms(_, _)
TermsTerms(ts, n) ==
  IF n > Len(ts) THEN <<>>
  ELSE <<ts[n]>> \o (IF ts[n].v.k = "group" THEN TermsAlt(ts[n].v.alt) ELSE <<>>) \o TermsTerms(ts, n + 1)
TermsCats(cs, n) == IF n > Len(cs) THEN <<>> ELSE TermsTerms(cs[n].terms, 1) \o TermsCats(cs, n + 1)
TermsAlt(a) == TermsCats(a.cats, 1)
Some(q, Pr(_)) == \E n \in 1..Len(q) : Pr(q[n])
AnyValueAlt(a, Pr(_)) == Some(ValuesAlt(a), Pr)
AnyTermAlt(a, Pr(_)) == Some(TermsAlt(a), Pr)

IsEmptySet(v) == v.k = "set" /\ Len(v.ranges) = 0
IsNegSet(v) == v.k = "set" /\ v.neg
IsDot(v) == v.k = "dot"
IsStart(v) == v.k = "start"
MentionsAstral(v) == \E c \in MentionedV(v) : IsAstral(c)
MentionsSurrogate(v) == \E c \in MentionedV(v) : IsSurrogate(c)
IsStraddlingSet(v) == v.k = "set" /\ \E r \in 1..Len(v.ranges) : ~IsAstral(v.ranges[r].lo.c) /\ IsAstral(v.ranges[r].hi.c)
IsNonGreedy(t) == t.q.has /\ t.q.ng

\* anchored as the front end demands it: exactly one alternative, first term "^", last term "$"
Anchored(re) ==
  /\ Len(re.cats) = 1
  /\ Len(re.cats[1].terms) >= 1
  /\ re.cats[1].terms[1].v.k = "start"
  /\ re.cats[1].terms[Len(re.cats[1].terms)].v.k = "end"
\* a "^" other than the very first term of the pattern
HasInnerStart(re) ==
  LET vs == ValuesAlt(re) IN \E n \in 2..Len(vs) : IsStart(vs[n])

(***************************************************************************************************)
(* Concrete syntax of the supported subset (what retree.parse reads).  RenderSpec(re, style):       *)
(*   style.braces: write every quantifier as {m,n} / {m,} / {,n} instead of ? * +                   *)
(*   style.raw: write control characters and, inside sets, "-" at the border, "^" off the first     *)
(*   position and "[" without escape; upper-case hex digits                                         *)
(* Plain "{" and "|" have no escape in this syntax: trees must carry them explicitly encoded.       *)
(***************************************************************************************************)
HexDigit(d, upper) == IF d < 10 THEN 48 + d ELSE (IF upper THEN 55 ELSE 87) + d
RECURSIVE Hex(_, _, _)
Hex(n, width, upper) == IF width = 0 THEN <<>> ELSE Hex(n \div 16, width - 1, upper) \o <<HexDigit(n % 16, upper)>>
RECURSIVE Dec(_)
Dec(n) == IF n < 10 THEN <<48 + n>> ELSE Dec(n \div 10) \o <<48 + (n % 10)>>

Backslash == 92
Esc(c) == <<Backslash, c>>
Encoded(c, upper) ==
  IF c <= 255 THEN <<Backslash, 120>> \o Hex(c, 2, upper)
  ELSE IF c <= 65535 THEN <<Backslash, 117>> \o Hex(c, 4, upper)
  ELSE <<Backslash, 85>> \o Hex(c, 8, upper)
ControlLetter(c) == CASE c = 9 -> 116 [] c = 10 -> 110 [] c = 13 -> 114 [] c = 12 -> 102 [] c = 11 -> 118
IsControl(c) == c \in {9, 10, 11, 12, 13}
\* . ^ $ ( ) [ ] \ * + ? #
LiteralEscaped == {46, 94, 36, 40, 41, 91, 93, 92, 42, 43, 63}
Writable(ch) == ch.enc \/ ch.c \notin {123, 124}

RenderLiteral(ch, style) ==
  IF ch.enc THEN Encoded(ch.c, style.raw)
  ELSE IF IsControl(ch.c) THEN (IF style.raw THEN <<ch.c>> ELSE Esc(ControlLetter(ch.c)))
  ELSE IF ch.c \in LiteralEscaped THEN Esc(ch.c)
  ELSE <<ch.c>>

\* inside a set: position first / last matter for "-" and "^"
RenderSetChar(ch, style, first, last, alone) ==
  IF ch.enc THEN Encoded(ch.c, style.raw)
  ELSE IF IsControl(ch.c) THEN (IF style.raw THEN <<ch.c>> ELSE Esc(ControlLetter(ch.c)))
  ELSE IF ch.c = 45 THEN (IF style.raw /\ alone /\ (first \/ last) THEN <<45>> ELSE Esc(45))
  ELSE IF ch.c = 94 THEN (IF style.raw /\ ~first THEN <<94>> ELSE Esc(94))
  ELSE IF ch.c = 91 THEN (IF style.raw THEN <<91>> ELSE Esc(91))
  ELSE IF ch.c \in {93, 92} THEN Esc(ch.c)
  ELSE <<ch.c>>

RECURSIVE RenderRanges(_, _, _, _)
RenderRanges(rs, n, style, neg) ==
  IF n > Len(rs) THEN <<>>
  ELSE LET r == rs[n]
           first == (n = 1) /\ ~neg
           last == n = Len(rs)
       IN (IF r.single THEN RenderSetChar(r.lo, style, n = 1, last, TRUE)
           ELSE RenderSetChar(r.lo, style, first, FALSE, FALSE) \o <<45>> \o RenderSetChar(r.hi, style, FALSE, FALSE, FALSE))
          \o RenderRanges(rs, n + 1, style, neg)

RenderQuantifier(q, style) ==
  IF ~q.has THEN <<>>
  ELSE (IF style.braces
        THEN <<123>> \o (IF q.min = 0 /\ q.max # Unbounded /\ q.max # 0 THEN <<>> ELSE Dec(q.min))
             \o (IF q.max = q.min THEN <<>> ELSE <<44>> \o (IF q.max = Unbounded THEN <<>> ELSE Dec(q.max))) \o <<125>>
        ELSE IF q.min = 0 /\ q.max = 1 THEN <<63>>
        ELSE IF q.min = 0 /\ q.max = Unbounded THEN <<42>>
        ELSE IF q.min = 1 /\ q.max = Unbounded THEN <<43>>
        ELSE IF q.max = q.min THEN <<123>> \o Dec(q.min) \o <<125>>
        ELSE IF q.max = Unbounded THEN <<123>> \o Dec(q.min) \o <<44, 125>>
        ELSE <<123>> \o Dec(q.min) \o <<44>> \o Dec(q.max) \o <<125>>)
       \o (IF q.ng THEN <<63>> ELSE <<>>)

RECURSIVE RenderV(_, _), RenderAlt(_, _), RenderCats(_, _, _), RenderTerms(_, _, _)
RenderV(v, style) ==
  CASE v.k = "char" -> RenderLiteral(v, style)
    [] v.k = "set" -> <<91>> \o (IF v.neg THEN <<94>> ELSE <<>>) \o RenderRanges(v.ranges, 1, style, v.neg) \o <<93>>
    [] v.k = "dot" -> <<46>>
    [] v.k = "start" -> <<94>>
    [] v.k = "end" -> <<36>>
    [] v.k = "group" -> <<40>> \o RenderAlt(v.alt, style) \o <<41>>
RenderTerms(ts, n, style) ==
  IF n > Len(ts) THEN <<>> ELSE RenderV(ts[n].v, style) \o RenderQuantifier(ts[n].q, style) \o RenderTerms(ts, n + 1, style)
RenderCats(cs, n, style) ==
  IF n > Len(cs) THEN <<>>
  ELSE (IF n > 1 THEN <<124>> ELSE <<>>) \o RenderTerms(cs[n].terms, 1, style) \o RenderCats(cs, n + 1, style)
RenderAlt(a, style) == RenderCats(a.cats, 1, style)
RenderSpec(re, style) == RenderAlt(re, style)
Canonical == [braces |-> FALSE, raw |-> FALSE]

\* can the tree be written at all (no plain "{" / "|" literal, quantifiers well-formed, no quantified anchor)
WellFormedQ(q) == ~q.has \/ (q.min >= 0 /\ (q.max = Unbounded \/ q.min <= q.max))
RECURSIVE WritableV(_), WritableAlt(_)
WritableV(v) ==
  CASE v.k = "char" -> Writable(v)
    [] v.k = "set" -> \A r \in 1..Len(v.ranges) : v.ranges[r].lo.c <= v.ranges[r].hi.c
    [] v.k = "group" -> WritableAlt(v.alt)
    [] OTHER -> TRUE
WritableAlt(a) ==
  \A c \in 1..Len(a.cats) : \A t \in 1..Len(a.cats[c].terms) :
     LET tm == a.cats[c].terms[t]
     IN WritableV(tm.v) /\ WellFormedQ(tm.q) /\ (tm.v.k \in {"start", "end"} => ~tm.q.has)
====
