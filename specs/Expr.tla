-------------------------------- MODULE Expr --------------------------------
(* The invariant language of aas-core-codegen meta-models with *Python semantics*.            *)
(*                                                                                             *)
(* Part 1: values and error tokens.                                                            *)
(* Part 2: expression trees (the constructs parse/_rules.py recognises).                       *)
(* Part 3: Eval(e, env, G): a recursive big-step evaluator following CPython (short-circuit    *)
(*         and/or returning operands, truthiness, equality that never raises, ordering that    *)
(*         raises on mixed types, lazy any/all with filters, range, f-strings, calls of        *)
(*         pattern and transpilable verification functions).                                   *)
(* Part 4: a small regular-expression matcher (FullMatch) for pattern functions.               *)
(* Part 5: TypeOf / WellTyped: a *reference* type system with Optional narrowing. It is never  *)
(*         used as an oracle for what the code accepts, only to stratify cases, and it is      *)
(*         model-checked to be sound w.r.t. Eval (MC_ExprSound).                               *)
(* Part 6: the clauses of C07 over an evaluation result.                                       *)
(*                                                                                             *)
(* The evaluator is validated against CPython (S phase of C07/C08): every (tree, instance)     *)
(* pair the checks use is also evaluated by eval() on real objects and must agree.             *)
(* Strings are sequences of code points. The module has no variables.                          *)
EXTENDS Integers, Sequences, FiniteSets, TLC

-----------------------------------------------------------------------------
(* Part 1 — values *)

\* TLC keeps [k \in 1..n |-> f(k)] as an unevaluated function and re-evaluates f(k) at every
\* application; concatenation turns it into an explicit sequence (each element evaluated once).
Force(s) == s \o <<>>

NoneV == [t |-> "none"]
BoolV(b) == [t |-> "bool", b |-> b]
IntV(n) == [t |-> "int", n |-> n]
StrV(cs) == [t |-> "str", cs |-> cs]
ListV(xs) == [t |-> "list", xs |-> xs]
\* id: identity of the object (Python compares plain objects by identity)
InstV(c, id, f) == [t |-> "inst", c |-> c, id |-> id, f |-> f]
EnumV(c, l) == [t |-> "enum", c |-> c, l |-> l]
EnumTypeV(c, lits) == [t |-> "enumtype", c |-> c, lits |-> lits]
SetV(els) == [t |-> "set", els |-> els]

\* Error tokens. e: class; c: the construct that raised (a structural fingerprint of the origin
\* which survives propagation); d: detail of the operands.
Err(e, c, d) == [t |-> "err", e |-> e, c |-> c, d |-> d]
IsErr(v) == v.t = "err"

\* TypeErr      TypeError not involving None
\* NoneErr      TypeError because an operand is None           (None-dereference)
\* NoneAttrErr  AttributeError on None                         (None-dereference)
\* AttrErr      AttributeError on a non-None value
\* IndexErr     IndexError
\* NameErr      NameError (free variable)
\* SpecLimit    the specification does not define this case (never a verdict: machinery failure)
ErrClasses == {"TypeErr", "NoneErr", "NoneAttrErr", "AttrErr", "IndexErr", "NameErr", "SpecLimit"}

PyExcName(e) ==
    CASE e \in {"TypeErr", "NoneErr"} -> "TypeError"
      [] e \in {"NoneAttrErr", "AttrErr"} -> "AttributeError"
      [] e = "IndexErr" -> "IndexError"
      [] e = "NameErr" -> "NameError"
      [] OTHER -> "SpecLimit"

IsNum(v) == v.t \in {"int", "bool"}
NumOf(v) == IF v.t = "bool" THEN (IF v.b THEN 1 ELSE 0) ELSE v.n

Truthy(v) ==
    CASE v.t = "none" -> FALSE
      [] v.t = "bool" -> v.b
      [] v.t = "int" -> v.n # 0
      [] v.t = "str" -> Len(v.cs) > 0
      [] v.t = "list" -> Len(v.xs) > 0
      [] v.t = "set" -> v.els # {}
      [] OTHER -> TRUE

\* type error or None error, depending on whether an operand is None
TErr2(c, l, r) == IF l.t = "none" \/ r.t = "none" THEN Err("NoneErr", c, l.t \o "," \o r.t) ELSE Err("TypeErr", c, l.t \o "," \o r.t)
TErr1(c, v) == IF v.t = "none" THEN Err("NoneErr", c, v.t) ELSE Err("TypeErr", c, v.t)

\* Python ==: never raises. bool is an int; plain objects compare by identity; lists element-wise.
RECURSIVE PyEq(_, _)
PyEq(l, r) ==
    IF IsNum(l) /\ IsNum(r) THEN NumOf(l) = NumOf(r)
    ELSE IF l.t # r.t THEN FALSE
    ELSE CASE l.t = "none" -> TRUE
           [] l.t = "str" -> l.cs = r.cs
           [] l.t = "list" -> Len(l.xs) = Len(r.xs) /\ \A k \in 1..Len(l.xs) : PyEq(l.xs[k], r.xs[k])
           [] l.t = "inst" -> l.id = r.id
           [] l.t = "enum" -> l.c = r.c /\ l.l = r.l
           [] l.t = "enumtype" -> l.c = r.c
           [] l.t = "set" -> l.els = r.els
           [] OTHER -> FALSE

CmpInt(op, a, b) ==
    CASE op = "<" -> a < b
      [] op = "<=" -> a <= b
      [] op = ">" -> a > b
      [] op = ">=" -> a >= b

\* first position at which two sequences of values differ (by ==), or 0
RECURSIVE FirstDiff(_, _, _)
FirstDiff(xs, ys, k) ==
    IF k > Len(xs) \/ k > Len(ys) THEN 0
    ELSE IF PyEq(xs[k], ys[k]) THEN FirstDiff(xs, ys, k + 1) ELSE k

\* Python ordering (<, <=, >, >=): numbers, strings and lists (lexicographic); everything else raises.
RECURSIVE PyOrder(_, _, _)
PyOrder(op, l, r) ==
    IF IsNum(l) /\ IsNum(r) THEN BoolV(CmpInt(op, NumOf(l), NumOf(r)))
    ELSE IF l.t = "str" /\ r.t = "str" THEN
        LET d == CHOOSE k \in 0..Len(l.cs) : (k = 0 /\ \A j \in 1..Len(l.cs) : j <= Len(r.cs) => l.cs[j] = r.cs[j])
                                          \/ (k > 0 /\ k <= Len(r.cs) /\ l.cs[k] # r.cs[k] /\ \A j \in 1..(k - 1) : l.cs[j] = r.cs[j])
        IN  IF d = 0 THEN BoolV(CmpInt(op, Len(l.cs), Len(r.cs))) ELSE BoolV(CmpInt(op, l.cs[d], r.cs[d]))
    ELSE IF l.t = "list" /\ r.t = "list" THEN
        LET d == FirstDiff(l.xs, r.xs, 1)
        IN  IF d = 0 THEN BoolV(CmpInt(op, Len(l.xs), Len(r.xs))) ELSE PyOrder(op, l.xs[d], r.xs[d])
    ELSE TErr2("compare_order", l, r)

PyCompare(op, l, r) ==
    CASE op = "==" -> BoolV(PyEq(l, r))
      [] op = "!=" -> BoolV(~PyEq(l, r))
      [] OTHER -> PyOrder(op, l, r)

\* is `needle` a contiguous sub-sequence of `hay`
IsSubSeq(needle, hay) == \E st \in 0..(Len(hay) - Len(needle)) : \A j \in 1..Len(needle) : hay[st + j] = needle[j]

PyIn(m, c) ==
    CASE c.t = "set" -> IF m.t \in {"list", "set"} THEN Err("TypeErr", "in_unhashable", m.t) ELSE BoolV(\E el \in c.els : PyEq(el, m))
      [] c.t = "list" -> BoolV(\E k \in 1..Len(c.xs) : PyEq(c.xs[k], m))
      [] c.t = "str" -> IF m.t = "str" THEN BoolV(IsSubSeq(m.cs, c.cs)) ELSE TErr1("in_str_member", m)
      [] OTHER -> TErr1("in_container", c)

PyLen(v) ==
    CASE v.t = "str" -> IntV(Len(v.cs))
      [] v.t = "list" -> IntV(Len(v.xs))
      [] v.t = "set" -> IntV(Cardinality(v.els))
      [] OTHER -> TErr1("len", v)

PyIndex(c, i) ==
    IF c.t \in {"list", "str"} THEN
        IF ~IsNum(i) THEN TErr1("index_index", i)
        ELSE LET n == NumOf(i)
                 size == IF c.t = "list" THEN Len(c.xs) ELSE Len(c.cs)
                 pos == IF n < 0 THEN size + n + 1 ELSE n + 1
             IN  IF pos < 1 \/ pos > size THEN Err("IndexErr", "index", c.t)
                 ELSE IF c.t = "list" THEN c.xs[pos] ELSE StrV(<<c.cs[pos]>>)
    ELSE TErr1("index_collection", c)

PyAdd(l, r) ==
    IF IsNum(l) /\ IsNum(r) THEN IntV(NumOf(l) + NumOf(r))
    ELSE IF l.t = "str" /\ r.t = "str" THEN StrV(l.cs \o r.cs)
    ELSE IF l.t = "list" /\ r.t = "list" THEN ListV(l.xs \o r.xs)
    ELSE TErr2("add", l, r)

PySub(l, r) == IF IsNum(l) /\ IsNum(r) THEN IntV(NumOf(l) - NumOf(r)) ELSE TErr2("sub", l, r)

PyGetAttr(o, name) ==
    CASE o.t = "inst" -> IF name \in DOMAIN o.f THEN o.f[name] ELSE Err("AttrErr", "member", o.c)
      [] o.t = "enumtype" -> IF name \in o.lits THEN EnumV(o.c, name) ELSE Err("AttrErr", "member", o.c)
      [] o.t = "none" -> Err("NoneAttrErr", "member", "none")
      [] OTHER -> Err("AttrErr", "member", o.t)

\* decimal digits of a natural number
RECURSIVE Digits(_)
Digits(n) == IF n < 10 THEN <<48 + n>> ELSE Digits(n \div 10) \o <<48 + (n % 10)>>

\* str(v) as used by f-strings
PyStr(v) ==
    CASE v.t = "str" -> v
      [] v.t = "int" -> StrV(IF v.n < 0 THEN <<45>> \o Digits(0 - v.n) ELSE Digits(v.n))
      [] v.t = "bool" -> StrV(IF v.b THEN <<84, 114, 117, 101>> ELSE <<70, 97, 108, 115, 101>>)
      [] v.t = "none" -> StrV(<<78, 111, 110, 101>>)
      [] OTHER -> Err("SpecLimit", "str", v.t)

\* the values a `for` clause iterates over (a sequence), or an error
PyIter(v) ==
    CASE v.t = "list" -> v
      [] v.t = "str" -> ListV([k \in 1..Len(v.cs) |-> StrV(<<v.cs[k]>>)])
      [] v.t = "set" -> Err("SpecLimit", "iterate_set", "set")
      [] OTHER -> TErr1("iterate", v)

PyRange(a, b) ==
    IF IsNum(a) /\ IsNum(b) THEN
        LET lo == NumOf(a)
            hi == NumOf(b)
        IN  ListV([k \in 1..(IF hi > lo THEN hi - lo ELSE 0) |-> IntV(lo + k - 1)])
    ELSE TErr2("range", a, b)

-----------------------------------------------------------------------------
(* Part 2 — expression trees. Every node has the same five fields so that trees can cross the   *)
(* JSON boundary unchanged: k kind, s name/operator, n integer payload, cs string payload,     *)
(* a children.                                                                                 *)

Node(k, s, n, cs, a) == [k |-> k, s |-> s, n |-> n, cs |-> cs, a |-> a]
Name(s) == Node("name", s, 0, <<>>, <<>>)
Self == Name("self")
Mem(o, attr) == Node("mem", attr, 0, <<>>, <<o>>)
P(attr) == Mem(Self, attr)
IntC(n) == Node("int", "", n, <<>>, <<>>)
BoolC(b) == Node("bool", "", IF b THEN 1 ELSE 0, <<>>, <<>>)
StrC(cs) == Node("str", "", 0, cs, <<>>)
Cmp(op, l, r) == Node("cmp", op, 0, <<>>, <<l, r>>)
IsNone(v) == Node("isnone", "", 0, <<>>, <<v>>)
IsNotNone(v) == Node("isnotnone", "", 0, <<>>, <<v>>)
Not(v) == Node("not", "", 0, <<>>, <<v>>)
And(vs) == Node("and", "", 0, <<>>, vs)
Or(vs) == Node("or", "", 0, <<>>, vs)
Imp(a, c) == Node("imp", "", 0, <<>>, <<a, c>>)            \* written `not A or B`
LenOf(v) == Node("len", "", 0, <<>>, <<v>>)
Call(f, args) == Node("call", f, 0, <<>>, args)
In(m, c) == Node("in", "", 0, <<>>, <<m, c>>)
Idx(c, i) == Node("idx", "", 0, <<>>, <<c, i>>)
Add(l, r) == Node("add", "", 0, <<>>, <<l, r>>)
Sub(l, r) == Node("sub", "", 0, <<>>, <<l, r>>)
FStr(parts) == Node("fstr", "", 0, <<>>, parts)            \* parts: str constants and expressions
\* quantifiers: s = loop variable; a = <<condition, iterable>> | <<condition, iterable, filter>>
QAll(x, cond, it) == Node("all", x, 0, <<>>, <<cond, it>>)
QAny(x, cond, it) == Node("any", x, 0, <<>>, <<cond, it>>)
QAllIf(x, cond, it, f) == Node("all", x, 0, <<>>, <<cond, it, f>>)
QAnyIf(x, cond, it, f) == Node("any", x, 0, <<>>, <<cond, it, f>>)
\* over range(start, end): a = <<condition, start, end>>
QAllR(x, cond, lo, hi) == Node("allr", x, 0, <<>>, <<cond, lo, hi>>)
QAnyR(x, cond, lo, hi) == Node("anyr", x, 0, <<>>, <<cond, lo, hi>>)
\* statements of transpilable functions
Assign(x, v) == Node("assign", x, 0, <<>>, <<v>>)
Return(v) == Node("return", "", 0, <<>>, <<v>>)

CmpOps == {"<", "<=", ">", ">=", "==", "!="}

RECURSIVE Depth(_)
Depth(e) == IF Len(e.a) = 0 THEN 1 ELSE 1 + (CHOOSE m \in {Depth(e.a[k]) : k \in 1..Len(e.a)} : \A k \in 1..Len(e.a) : Depth(e.a[k]) <= m)

RECURSIVE Size(_)
RECURSIVE SumSizes(_, _)
SumSizes(a, k) == IF k = 0 THEN 0 ELSE Size(a[k]) + SumSizes(a, k - 1)
Size(e) == 1 + SumSizes(e.a, Len(e.a))

\* the properties of `self` an expression mentions
RECURSIVE Mentions(_)
Mentions(e) ==
    IF e.k = "mem" /\ e.a[1] = Self THEN {e.s}
    ELSE UNION {Mentions(e.a[k]) : k \in 1..Len(e.a)}

\* the node kinds occurring in a tree
RECURSIVE Kinds(_)
Kinds(e) == {e.k} \cup UNION {Kinds(e.a[k]) : k \in 1..Len(e.a)}

-----------------------------------------------------------------------------
(* Part 4 (placed before Eval, which uses it) — regular expressions of pattern functions.       *)
(* r.k: "chr" (n = code point), "set" (a = <<[lo, hi], ...>> as pairs in cs: lo1,hi1,lo2,hi2;    *)
(* n = 1 when complemented), "dot", "cat", "alt" (children a), "rep" (a = <<child>>, n = min,   *)
(* cs = <<max>> or <<>> for unbounded). Anchors ^...$ are implied: FullMatch.                   *)

RNode(k, n, cs, a) == [k |-> k, n |-> n, cs |-> cs, a |-> a]
RChr(c) == RNode("chr", c, <<>>, <<>>)
RSet(pairs) == RNode("set", 0, pairs, <<>>)
RNotSet(pairs) == RNode("set", 1, pairs, <<>>)
RDot == RNode("dot", 0, <<>>, <<>>)
RCat(rs) == RNode("cat", 0, <<>>, rs)
RAlt(rs) == RNode("alt", 0, <<>>, rs)
RRep(r, lo, hi) == RNode("rep", lo, <<hi>>, <<r>>)
RStar(r) == RNode("rep", 0, <<>>, <<r>>)
RPlus(r) == RNode("rep", 1, <<>>, <<r>>)
ROpt(r) == RRep(r, 0, 1)

InPairs(c, cs) == \E k \in 1..(Len(cs) \div 2) : cs[2 * k - 1] <= c /\ c <= cs[2 * k]

\* Ends(r, s, i): the set of positions j (i <= j <= Len(s)+1) such that r matches s[i..j-1]
RECURSIVE Ends(_, _, _)
RECURSIVE CatEnds(_, _, _, _)
RECURSIVE RepEnds(_, _, _, _, _)
CatEnds(rs, k, s, from) ==
    IF k > Len(rs) THEN from
    ELSE CatEnds(rs, k + 1, s, UNION {Ends(rs[k], s, i) : i \in from})
\* positions reachable by count >= lo (and <= hi when bounded) repetitions; `cur` = positions after `count` reps
RepEnds(r, s, cur, count, seen) ==
    LET lo == r.n
        bounded == Len(r.cs) > 0
        ok == IF count >= lo THEN cur ELSE {}
    IN  IF cur = {} \/ (bounded /\ count >= r.cs[1]) THEN ok
        ELSE LET nxt == UNION {Ends(r.a[1], s, i) : i \in cur}
                 \* once past the minimum, positions already seen add nothing (stops empty-match loops)
                 fresh == IF count >= lo THEN nxt \ seen ELSE nxt
             IN  ok \cup RepEnds(r, s, fresh, count + 1, IF count >= lo THEN seen \cup nxt ELSE seen)
Ends(r, s, i) ==
    CASE r.k = "chr" -> IF i <= Len(s) /\ s[i] = r.n THEN {i + 1} ELSE {}
      [] r.k = "set" -> IF i <= Len(s) /\ (InPairs(s[i], r.cs) <=> r.n = 0) THEN {i + 1} ELSE {}
      [] r.k = "dot" -> IF i <= Len(s) /\ s[i] # 10 THEN {i + 1} ELSE {}
      [] r.k = "cat" -> CatEnds(r.a, 1, s, {i})
      [] r.k = "alt" -> UNION {Ends(r.a[k], s, i) : k \in 1..Len(r.a)}
      [] r.k = "rep" -> RepEnds(r, s, {i}, 0, {i})

FullMatch(r, s) == (Len(s) + 1) \in Ends(r, s, 1)

\* the characters a pattern distinguishes (for generating test strings): bounds of sets and their neighbours
RECURSIVE Boundary(_)
Boundary(r) ==
    CASE r.k = "chr" -> {r.n}
      [] r.k = "set" -> {r.cs[k] : k \in 1..Len(r.cs)} \cup {r.cs[2 * k - 1] - 1 : k \in 1..(Len(r.cs) \div 2)} \cup {r.cs[2 * k] + 1 : k \in 1..(Len(r.cs) \div 2)}
      [] r.k = "dot" -> {}
      [] OTHER -> UNION {Boundary(r.a[k]) : k \in 1..Len(r.a)}

-----------------------------------------------------------------------------
(* Part 3 — evaluation.                                                                        *)
(* env: record name |-> value (self, loop variables, arguments, local variables).               *)
(* G: [vals |-> record of global names (constant sets, enumeration classes),                    *)
(*     funcs |-> record name |-> [kind |-> "pattern", re |-> regex]                              *)
(*                              | [kind |-> "transp", params |-> <<names>>, body |-> <<stmts>>]] *)

Bind(env, x, v) == [y \in (DOMAIN env) \cup {x} |-> IF y = x THEN v ELSE env[y]]

RECURSIVE Eval(_, _, _)
RECURSIVE EvalArgs(_, _, _, _)
RECURSIVE EvalJunct(_, _, _, _)
RECURSIVE EvalQuant(_, _, _, _, _)
RECURSIVE EvalFStr(_, _, _, _, _)
RECURSIVE ExecBody(_, _, _, _)

\* evaluate a[k..] left to right; result: [err |-> first error or None, vs |-> the values]
EvalArgs(a, k, env, G) ==
    IF k > Len(a) THEN [err |-> NoneV, vs |-> <<>>]
    ELSE LET v == Eval(a[k], env, G)
         IN  IF IsErr(v) THEN [err |-> v, vs |-> <<>>]
             ELSE LET rest == EvalArgs(a, k + 1, env, G)
                  IN  IF IsErr(rest.err) THEN rest ELSE [err |-> NoneV, vs |-> <<v>> \o rest.vs]

\* `and` / `or` with operand values as results (short-circuit)
EvalJunct(e, k, env, G) ==
    LET v == Eval(e.a[k], env, G)
    IN  IF IsErr(v) \/ k = Len(e.a) THEN v
        ELSE IF e.k = "and" THEN (IF Truthy(v) THEN EvalJunct(e, k + 1, env, G) ELSE v)
        ELSE (IF Truthy(v) THEN v ELSE EvalJunct(e, k + 1, env, G))

\* any/all over the item sequence `items`, from position k
EvalQuant(e, items, k, env, G) ==
    LET isAll == e.k \in {"all", "allr"}
        hasFilter == e.k \in {"all", "any"} /\ Len(e.a) = 3
    IN  IF k > Len(items) THEN BoolV(isAll)
        ELSE LET env2 == Bind(env, e.s, items[k])
                 f == IF hasFilter THEN Eval(e.a[3], env2, G) ELSE BoolV(TRUE)
             IN  IF IsErr(f) THEN f
                 ELSE IF ~Truthy(f) THEN EvalQuant(e, items, k + 1, env, G)
                 ELSE LET c == Eval(e.a[1], env2, G)
                      IN  IF IsErr(c) THEN c
                          ELSE IF isAll /\ ~Truthy(c) THEN BoolV(FALSE)
                          ELSE IF ~isAll /\ Truthy(c) THEN BoolV(TRUE)
                          ELSE EvalQuant(e, items, k + 1, env, G)

EvalFStr(a, k, acc, env, G) ==
    IF k > Len(a) THEN StrV(acc)
    ELSE LET v == Eval(a[k], env, G)
         IN  IF IsErr(v) THEN v
             ELSE LET sv == PyStr(v)
                  IN  IF IsErr(sv) THEN sv ELSE EvalFStr(a, k + 1, acc \o sv.cs, env, G)

\* statements of a transpilable function: assignments then return; falling off the end returns None
ExecBody(body, k, env, G) ==
    IF k > Len(body) THEN NoneV
    ELSE LET st == body[k]
             v == Eval(st.a[1], env, G)
         IN  IF IsErr(v) THEN v
             ELSE IF st.k = "return" THEN v
             ELSE ExecBody(body, k + 1, Bind(env, st.s, v), G)

\* an error raised inside a called function keeps its class, but is attributed to the call
ViaCall(v, fname) == IF IsErr(v) /\ v.e # "SpecLimit" THEN Err(v.e, "call_transpilable_arg", v.c) ELSE v

Eval(e, env, G) ==
    CASE e.k = "name" ->
            IF e.s \in DOMAIN env THEN env[e.s]
            ELSE IF e.s \in DOMAIN G.vals THEN G.vals[e.s]
            ELSE Err("NameErr", "name", e.s)
      [] e.k = "int" -> IntV(e.n)
      [] e.k = "bool" -> BoolV(e.n = 1)
      [] e.k = "str" -> StrV(e.cs)
      [] e.k = "mem" ->
            LET o == Eval(e.a[1], env, G) IN IF IsErr(o) THEN o ELSE PyGetAttr(o, e.s)
      [] e.k \in {"cmp", "in", "idx", "add", "sub"} ->
            LET l == Eval(e.a[1], env, G)
            IN  IF IsErr(l) THEN l
                ELSE LET r == Eval(e.a[2], env, G)
                     IN  IF IsErr(r) THEN r
                         ELSE (CASE e.k = "cmp" -> PyCompare(e.s, l, r)
                                 [] e.k = "in" -> PyIn(l, r)
                                 [] e.k = "idx" -> PyIndex(l, r)
                                 [] e.k = "add" -> PyAdd(l, r)
                                 [] e.k = "sub" -> PySub(l, r))
      [] e.k \in {"isnone", "isnotnone", "not", "len"} ->
            LET v == Eval(e.a[1], env, G)
            IN  IF IsErr(v) THEN v
                ELSE (CASE e.k = "isnone" -> BoolV(v.t = "none")
                        [] e.k = "isnotnone" -> BoolV(v.t # "none")
                        [] e.k = "not" -> BoolV(~Truthy(v))
                        [] e.k = "len" -> PyLen(v))
      [] e.k \in {"and", "or"} -> EvalJunct(e, 1, env, G)
      [] e.k = "imp" ->
            \* `not A or B`
            LET a == Eval(e.a[1], env, G)
            IN  IF IsErr(a) THEN a ELSE IF ~Truthy(a) THEN BoolV(TRUE) ELSE Eval(e.a[2], env, G)
      [] e.k \in {"all", "any"} ->
            LET it == Eval(e.a[2], env, G)
            IN  IF IsErr(it) THEN it
                ELSE LET items == PyIter(it)
                     IN  IF IsErr(items) THEN items ELSE EvalQuant(e, items.xs, 1, env, G)
      [] e.k \in {"allr", "anyr"} ->
            LET lo == Eval(e.a[2], env, G)
            IN  IF IsErr(lo) THEN lo
                ELSE LET hi == Eval(e.a[3], env, G)
                     IN  IF IsErr(hi) THEN hi
                         ELSE LET items == PyRange(lo, hi)
                              IN  IF IsErr(items) THEN items ELSE EvalQuant(e, items.xs, 1, env, G)
      [] e.k = "fstr" -> EvalFStr(e.a, 1, <<>>, env, G)
      [] e.k = "call" ->
            IF e.s \notin DOMAIN G.funcs THEN Err("NameErr", "name", e.s)
            ELSE LET fn == G.funcs[e.s]
                     ea == EvalArgs(e.a, 1, env, G)
                     args == ea.vs
                 IN  IF IsErr(ea.err) THEN ea.err
                     ELSE IF fn.kind = "pattern" THEN
                         (IF Len(args) # 1 THEN Err("TypeErr", "call_arity", e.s)
                          ELSE IF args[1].t = "str" THEN BoolV(FullMatch(fn.re, args[1].cs))
                          ELSE TErr1("call_pattern_arg", args[1]))
                     ELSE
                         (IF Len(args) # Len(fn.params) THEN Err("TypeErr", "call_arity", e.s)
                          ELSE ViaCall(ExecBody(fn.body, 1, [x \in {fn.params[k] : k \in 1..Len(fn.params)} |-> args[CHOOSE k \in 1..Len(fn.params) : fn.params[k] = x]], G), e.s))
      [] OTHER -> Err("SpecLimit", "node", e.k)

-----------------------------------------------------------------------------
(* Part 5 — reference typing.                                                                  *)
(* Types: [t |-> "int" | "str" | "bool"], [t |-> "list"/"opt"/"set", of |-> T],                  *)
(* [t |-> "inst"/"enum"/"enumtype", c |-> class name], [t |-> "bad"].                            *)
(* S (the schema): [classes |-> record class |-> record prop |-> type,                           *)
(*                  enums |-> record enum |-> set of literals,                                   *)
(*                  globals |-> record name |-> type,                                            *)
(*                  funcs |-> record name |-> [params |-> <<types>>, ret |-> type]].             *)
(* nn: the set of expressions known to be non-None at this point (Optional narrowing).          *)

TInt == [t |-> "int"]
TStr == [t |-> "str"]
TBool == [t |-> "bool"]
TBad == [t |-> "bad"]
TList(x) == [t |-> "list", of |-> x]
TOpt(x) == [t |-> "opt", of |-> x]
TSet(x) == [t |-> "set", of |-> x]
TInst(c) == [t |-> "inst", c |-> c]
TEnum(c) == [t |-> "enum", c |-> c]
TEnumType(c) == [t |-> "enumtype", c |-> c]

Narrow(e, ty, nn) == IF ty.t = "opt" /\ e \in nn THEN ty.of ELSE ty

\* facts established when `e` is true / false
FactsIfTrue(e) ==
    IF e.k = "isnotnone" THEN {e.a[1]}
    ELSE IF e.k = "and" THEN {e.a[k].a[1] : k \in {j \in 1..Len(e.a) : e.a[j].k = "isnotnone"}}
    ELSE IF e.k = "not" /\ e.a[1].k = "isnone" THEN {e.a[1].a[1]}
    ELSE {}
FactsIfFalse(e) ==
    IF e.k = "isnone" THEN {e.a[1]}
    ELSE IF e.k = "or" THEN {e.a[k].a[1] : k \in {j \in 1..Len(e.a) : e.a[j].k = "isnone"}}
    ELSE IF e.k = "not" /\ e.a[1].k = "isnotnone" THEN {e.a[1].a[1]}
    ELSE {}

RECURSIVE TypeOf(_, _, _, _)
RECURSIVE JunctOK(_, _, _, _, _)
\* all operands of and/or are bool, each typed under the facts of the previous ones
JunctOK(e, k, tenv, nn, S) ==
    IF k > Len(e.a) THEN TRUE
    ELSE /\ TypeOf(e.a[k], tenv, nn, S) = TBool
         /\ JunctOK(e, k + 1, tenv, nn \cup (IF e.k = "and" THEN FactsIfTrue(e.a[k]) ELSE FactsIfFalse(e.a[k])), S)

TypeOf(e, tenv, nn, S) ==
    CASE e.k = "name" ->
            IF e.s \in DOMAIN tenv THEN Narrow(e, tenv[e.s], nn)
            ELSE IF e.s \in DOMAIN S.globals THEN S.globals[e.s]
            ELSE TBad
      [] e.k = "int" -> TInt
      [] e.k = "bool" -> TBool
      [] e.k = "str" -> TStr
      [] e.k = "mem" ->
            LET o == TypeOf(e.a[1], tenv, nn, S)
            IN  IF o.t = "inst" /\ e.s \in DOMAIN S.classes[o.c] THEN Narrow(e, S.classes[o.c][e.s], nn)
                ELSE IF o.t = "enumtype" /\ e.s \in S.enums[o.c] THEN TEnum(o.c)
                ELSE TBad
      [] e.k = "cmp" ->
            LET l == TypeOf(e.a[1], tenv, nn, S)
                r == TypeOf(e.a[2], tenv, nn, S)
            IN  IF l = r /\ (IF e.s \in {"==", "!="} THEN l.t \in {"int", "str", "bool", "enum"} ELSE l.t \in {"int", "str"}) THEN TBool ELSE TBad
      [] e.k \in {"isnone", "isnotnone"} -> IF TypeOf(e.a[1], tenv, nn, S) = TBad THEN TBad ELSE TBool
      [] e.k = "not" -> IF TypeOf(e.a[1], tenv, nn, S) = TBool THEN TBool ELSE TBad
      [] e.k \in {"and", "or"} -> IF JunctOK(e, 1, tenv, nn, S) THEN TBool ELSE TBad
      [] e.k = "imp" ->
            IF TypeOf(e.a[1], tenv, nn, S) = TBool /\ TypeOf(e.a[2], tenv, nn \cup FactsIfTrue(e.a[1]), S) = TBool THEN TBool ELSE TBad
      [] e.k = "len" -> IF TypeOf(e.a[1], tenv, nn, S).t \in {"str", "list"} THEN TInt ELSE TBad
      [] e.k = "idx" ->
            LET c == TypeOf(e.a[1], tenv, nn, S)
            IN  IF c.t = "list" /\ TypeOf(e.a[2], tenv, nn, S) = TInt THEN c.of ELSE TBad
      [] e.k = "in" ->
            LET c == TypeOf(e.a[2], tenv, nn, S)
            IN  IF c.t = "set" /\ TypeOf(e.a[1], tenv, nn, S) = c.of THEN TBool ELSE TBad
      [] e.k \in {"add", "sub"} -> IF TypeOf(e.a[1], tenv, nn, S) = TInt /\ TypeOf(e.a[2], tenv, nn, S) = TInt THEN TInt ELSE TBad
      [] e.k \in {"all", "any"} ->
            LET it == TypeOf(e.a[2], tenv, nn, S)
            IN  IF it.t # "list" \/ e.s \in DOMAIN tenv THEN TBad
                ELSE LET tenv2 == Bind(tenv, e.s, it.of)
                     IN  IF Len(e.a) = 3
                         THEN (IF TypeOf(e.a[3], tenv2, nn, S) = TBool /\ TypeOf(e.a[1], tenv2, nn \cup FactsIfTrue(e.a[3]), S) = TBool THEN TBool ELSE TBad)
                         ELSE (IF TypeOf(e.a[1], tenv2, nn, S) = TBool THEN TBool ELSE TBad)
      [] e.k \in {"allr", "anyr"} ->
            IF TypeOf(e.a[2], tenv, nn, S) = TInt /\ TypeOf(e.a[3], tenv, nn, S) = TInt /\ e.s \notin DOMAIN tenv
               /\ TypeOf(e.a[1], Bind(tenv, e.s, TInt), nn, S) = TBool THEN TBool ELSE TBad
      [] e.k = "fstr" -> IF \A k \in 1..Len(e.a) : TypeOf(e.a[k], tenv, nn, S).t \in {"str", "int"} THEN TStr ELSE TBad
      [] e.k = "call" ->
            IF e.s \notin DOMAIN S.funcs THEN TBad
            ELSE LET fn == S.funcs[e.s]
                 IN  IF Len(e.a) = Len(fn.params) /\ \A k \in 1..Len(e.a) : TypeOf(e.a[k], tenv, nn, S) = fn.params[k] THEN fn.ret ELSE TBad
      [] OTHER -> TBad

\* an invariant of class `cls` is well-typed when it is a boolean under self: cls
WellTyped(e, selfType, S) == TypeOf(e, [self |-> selfType], {}, S) = TBool

-----------------------------------------------------------------------------
(* Part 6 — the clauses of C07 over one evaluation result r = Eval(e, env, G).                  *)
(* "always yields a boolean; never raises a type, attribute or None-dereference error; only an  *)
(* out-of-range list index may still raise".                                                    *)

NoTypeError(r) == ~(IsErr(r) /\ r.e = "TypeErr")
NoAttributeError(r) == ~(IsErr(r) /\ r.e = "AttrErr")
NoNoneDereference(r) == ~(IsErr(r) /\ r.e \in {"NoneErr", "NoneAttrErr"})
NoOtherError(r) == ~(IsErr(r) /\ r.e \in {"NameErr"})
YieldsBoolean(r) == IsErr(r) \/ r.t = "bool"
Defined(r) == ~(IsErr(r) /\ r.e = "SpecLimit")
\* the whole sentence
RunsFine(r) == (r.t = "bool") \/ (IsErr(r) /\ r.e = "IndexErr")

\* projection of a result for the comparison with CPython (S phase): a string
RECURSIVE PyCode(_)
RECURSIVE PyCodes(_, _)
PyCodes(xs, k) == IF k > Len(xs) THEN "" ELSE PyCode(xs[k]) \o ";" \o PyCodes(xs, k + 1)
PyCode(r) ==
    CASE r.t = "err" -> "exc:" \o PyExcName(r.e)
      [] r.t = "bool" -> IF r.b THEN "bool:1" ELSE "bool:0"
      [] r.t = "int" -> "int:" \o ToString(r.n)
      [] r.t = "str" -> "str:" \o ToString(r.cs)
      [] r.t = "none" -> "none"
      [] r.t = "list" -> "list:" \o PyCodes(r.xs, 1)
      [] r.t = "inst" -> "inst:" \o r.id
      [] r.t = "enum" -> "enum:" \o r.l
      [] OTHER -> "other:" \o r.t
=============================================================================
