----------------------------- MODULE Snippets -----------------------------
(* C25 — loading a directory of implementation-specific snippets                                  *)
(* (specific_implementations.read_from_directory, main.execute).                                  *)
(*                                                                                                *)
(* A directory tree is a set of ENTRIES                                                           *)
(*    [dirs |-> sequence of directory names, name |-> entry name, kind |-> "file" | "dir",        *)
(*     bytes |-> the file's bytes, utf8 |-> the bytes are valid UTF-8, text |-> their decoding]   *)
(* (names and texts are sequences of code points; a "dir" entry is an empty directory; the        *)
(* directories on the way to an entry exist implicitly).                                          *)
(* Declarative part: which entries are snippets, their keys, the expected mapping, the entries    *)
(* that must make the run fail, and the clauses of the property over an observation.              *)
(* Generator part: the name / content classes and the entry space (SnippetsGen enumerates and    *)
(* combines them).  This module is variable-free.                                                 *)
EXTENDS Integers, Sequences, FiniteSets

-----------------------------------------------------------------------------
(* keys *)
IsAlpha(c) == (c >= 65 /\ c <= 90) \/ (c >= 97 /\ c <= 122) \/ c = 95
IsTail(c) == IsAlpha(c) \/ (c >= 48 /\ c <= 57) \/ c = 46
\* one segment of a snippet key: [a-zA-Z_][a-zA-Z_0-9.]*
ValidSegment(n) == Len(n) >= 1 /\ IsAlpha(n[1]) /\ \A i \in 2..Len(n) : IsTail(n[i])
Hidden(n) == Len(n) >= 1 /\ n[1] = 46

RECURSIVE JoinSlash(_)
JoinSlash(parts) == IF Len(parts) = 0 THEN <<>>
                    ELSE IF Len(parts) = 1 THEN parts[1]
                    ELSE parts[1] \o <<47>> \o JoinSlash(Tail(parts))

Parts(e) == Append(e.dirs, e.name)
\* the key of an entry: its POSIX path relative to the snippets directory
Key(e) == JoinSlash(Parts(e))
ValidKey(e) == \A i \in 1..Len(Parts(e)) : ValidSegment(Parts(e)[i])

IsFile(e) == e.kind = "file"
InHiddenDir(e) == \E i \in 1..Len(e.dirs) : Hidden(e.dirs[i])
\* a snippet: a regular file that is not hidden and does not live below a hidden directory
Snippet(e) == IsFile(e) /\ ~Hidden(e.name) /\ ~InHiddenDir(e)
\* a visible file below a hidden directory: the sentence does not settle whether the hidden
\* directory hides it (then it is ignored) or not (then its key is invalid): both are accepted
Unsettled(e) == IsFile(e) /\ ~Hidden(e.name) /\ InHiddenDir(e)

Snippets(T) == {e \in T : Snippet(e)}
MustError(T) == {e \in T : Snippet(e) /\ (~ValidKey(e) \/ ~e.utf8)}
MayError(T) == {e \in T : Unsettled(e)}

-----------------------------------------------------------------------------
(* contents *)
WsAscii == {9, 10, 11, 12, 13, 32}
WsUnicode == WsAscii \cup {28, 29, 30, 31, 133, 160, 5760, 8232, 8233, 8239, 8287, 12288} \cup (8192..8202)

RECURSIVE LStrip(_, _)
LStrip(s, W) == IF Len(s) > 0 /\ s[1] \in W THEN LStrip(Tail(s), W) ELSE s
RECURSIVE RStrip(_, _)
RStrip(s, W) == IF Len(s) > 0 /\ s[Len(s)] \in W THEN RStrip(SubSeq(s, 1, Len(s) - 1), W) ELSE s
Strip(s, W) == RStrip(LStrip(s, W), W)

\* reading in text mode may translate line ends: CR LF -> LF, lone CR -> LF
RECURSIVE NormNL(_)
NormNL(s) == IF Len(s) = 0 THEN <<>>
             ELSE IF s[1] = 13 THEN (IF Len(s) > 1 /\ s[2] = 10 THEN <<10>> \o NormNL(SubSeq(s, 3, Len(s)))
                                     ELSE <<10>> \o NormNL(Tail(s)))
             ELSE <<s[1]>> \o NormNL(Tail(s))
DropBom(s) == IF Len(s) > 0 /\ s[1] = 65279 THEN Tail(s) ELSE s

\* "leading and trailing whitespace stripped from its content": every reasonable reading is accepted
\* (ASCII or Unicode whitespace, with or without newline translation, byte-order mark kept or dropped)
AllowedValues(t) == {Strip(x, W) : x \in {t, NormNL(t), DropBom(t), NormNL(DropBom(t))}, W \in {WsAscii, WsUnicode}}

-----------------------------------------------------------------------------
(* an error "names the file": it contains the key (or the key with a newline written as \n) *)
Contains(hay, needle) ==
    \E i \in 0..(Len(hay) - Len(needle)) : SubSeq(hay, i + 1, i + Len(needle)) = needle
RECURSIVE Escaped(_)
Escaped(s) == IF Len(s) = 0 THEN <<>>
              ELSE (IF s[1] = 10 THEN <<92, 110>> ELSE <<s[1]>>) \o Escaped(Tail(s))
Names(msg, e) == Contains(msg, Key(e)) \/ Contains(msg, Escaped(Key(e)))

-----------------------------------------------------------------------------
(* The clauses over an observation                                                               *)
(*   rd   = [outcome |-> "mapping" | "errors" | "exception", mapping |-> seq of [key, value],     *)
(*           errors |-> seq of messages]              of read_from_directory                      *)
(*   main = [outcome |-> "returned" | "exception", rc, stderr]   of main.execute                  *)
Rng(s) == {s[j] : j \in 1..Len(s)}

NoException(rd, main) == rd.outcome # "exception" /\ main.outcome # "exception"

\* a file with an invalid key or content makes the load fail; with neither (and nothing unsettled) it succeeds
FailsWhenItMust(T, rd) == (rd.outcome # "exception" /\ MustError(T) # {}) => rd.outcome = "errors"
LoadsWhenItCan(T, rd) == (rd.outcome # "exception" /\ MustError(T) = {} /\ MayError(T) = {}) => rd.outcome = "mapping"

KeysExact(T, rd) ==
    rd.outcome = "mapping" =>
        /\ {m.key : m \in Rng(rd.mapping)} = {Key(e) : e \in Snippets(T)}
        /\ Len(rd.mapping) = Cardinality(Snippets(T))
ValuesStripped(T, rd) ==
    rd.outcome = "mapping" =>
        \A m \in Rng(rd.mapping) : \A e \in Snippets(T) : Key(e) = m.key => m.value \in AllowedValues(e.text)

ErrorsNameFiles(T, rd) ==
    rd.outcome = "errors" => \A e \in MustError(T) : \E msg \in Rng(rd.errors) : Names(msg, e)

MainFailsWithReport(T, main) ==
    (main.outcome = "returned" /\ MustError(T) # {}) =>
        /\ main.rc = 1 /\ Len(main.stderr) > 0
        /\ \A e \in MustError(T) : Names(main.stderr, e)
MainSucceeds(T, main) ==
    (main.outcome = "returned" /\ MustError(T) = {} /\ MayError(T) = {}) => main.rc = 0 /\ Len(main.stderr) = 0

-----------------------------------------------------------------------------
(* Generator: classes of names and contents, made concrete *)
FileNameClasses == {"valid", "underscore", "dots", "digit", "space", "dash", "hidden", "nonascii", "nl_end"}
DirNameClasses == {"valid", "dots", "hidden", "dash", "digit"}
ContentClasses == {"plain", "ws_around", "empty", "only_ws", "invalid_utf8", "bom", "crlf", "unicode_ws"}

FileName(cls) ==
    CASE cls = "valid" -> <<122, 113, 95, 118, 97, 108, 105, 100, 46, 116, 120, 116>>
      [] cls = "underscore" -> <<95, 122, 113, 46, 116, 120, 116>>
      [] cls = "dots" -> <<122, 113, 46, 118, 49, 46, 50, 46, 116, 120, 116>>
      [] cls = "digit" -> <<57, 122, 113, 46, 116, 120, 116>>
      [] cls = "space" -> <<122, 113, 32, 115, 112, 46, 116, 120, 116>>
      [] cls = "dash" -> <<122, 113, 45, 100, 46, 116, 120, 116>>
      [] cls = "hidden" -> <<46, 122, 113, 104, 46, 116, 120, 116>>
      [] cls = "nonascii" -> <<122, 113, 233, 46, 116, 120, 116>>
      [] cls = "nl_end" -> <<122, 113, 95, 110, 108, 10>>

DirName(cls) ==
    CASE cls = "valid" -> <<100, 122, 113>>
      [] cls = "dots" -> <<100, 122, 113, 46, 100>>
      [] cls = "hidden" -> <<46, 100, 122, 113, 104>>
      [] cls = "dash" -> <<100, 122, 113, 45, 100>>
      [] cls = "digit" -> <<57, 100, 122, 113>>

\* the decoded text (<<>> where the bytes are not UTF-8) and the bytes of a content class
ContentText(cls) ==
    CASE cls = "plain" -> <<98, 111, 100, 121, 40, 41, 59>>
      [] cls = "ws_around" -> <<32, 10, 9, 98, 111, 100, 121, 40, 41, 59, 10, 32, 10>>
      [] cls = "empty" -> <<>>
      [] cls = "only_ws" -> <<32, 10, 9, 32, 10>>
      [] cls = "invalid_utf8" -> <<>>
      [] cls = "bom" -> <<65279, 98, 111, 100, 121, 40, 41, 59>>
      [] cls = "crlf" -> <<97, 40, 41, 59, 13, 10, 98, 40, 41, 59, 13, 10>>
      [] cls = "unicode_ws" -> <<160, 98, 111, 100, 121, 40, 41, 59, 8232>>
      [] cls = "base" -> <<123, 125>>

ContentBytes(cls) ==
    CASE cls = "plain" -> <<98, 111, 100, 121, 40, 41, 59>>
      [] cls = "ws_around" -> <<32, 10, 9, 98, 111, 100, 121, 40, 41, 59, 10, 32, 10>>
      [] cls = "empty" -> <<>>
      [] cls = "only_ws" -> <<32, 10, 9, 32, 10>>
      [] cls = "invalid_utf8" -> <<98, 255, 254, 98>>
      [] cls = "bom" -> <<239, 187, 191, 98, 111, 100, 121, 40, 41, 59>>
      [] cls = "crlf" -> <<97, 40, 41, 59, 13, 10, 98, 40, 41, 59, 13, 10>>
      [] cls = "unicode_ws" -> <<194, 160, 98, 111, 100, 121, 40, 41, 59, 226, 128, 168>>
      [] cls = "base" -> <<123, 125>>

FileEntry(dirClasses, ncls, ccls) ==
    [dirs |-> [i \in 1..Len(dirClasses) |-> DirName(dirClasses[i])], name |-> FileName(ncls), kind |-> "file",
     bytes |-> ContentBytes(ccls), utf8 |-> ccls # "invalid_utf8", text |-> ContentText(ccls),
     ncls |-> ncls, ccls |-> ccls, dcls |-> dirClasses]
DirEntry(dirClasses, dcl) ==
    [dirs |-> [i \in 1..Len(dirClasses) |-> DirName(dirClasses[i])], name |-> DirName(dcl), kind |-> "dir",
     bytes |-> <<>>, utf8 |-> TRUE, text |-> <<>>, ncls |-> dcl, ccls |-> "none", dcls |-> dirClasses]

\* the file every tree contains (the jsonschema target needs it): schema_base.json with content {}
BaseEntry == [dirs |-> <<>>, name |-> <<115, 99, 104, 101, 109, 97, 95, 98, 97, 115, 101, 46, 106, 115, 111, 110>>, kind |-> "file", bytes |-> ContentBytes("base"), utf8 |-> TRUE,
              text |-> ContentText("base"), ncls |-> "base", ccls |-> "base", dcls |-> <<>>]

DirPaths(NestClasses) == {<<>>} \cup {<<a>> : a \in NestClasses} \cup {<<a, b>> : a \in NestClasses, b \in NestClasses}
Entries(NestClasses, NameCls, ContCls) ==
    {FileEntry(d, n, c) : d \in DirPaths(NestClasses), n \in NameCls, c \in ContCls}
    \cup {DirEntry(d, x) : d \in {p \in DirPaths(NestClasses) : Len(p) <= 1}, x \in DirNameClasses}

\* Where the snippets directory itself lives and how its path is spelled is NOT part of a key: keys and
\* hiddenness are relative to the directory. The same tree must load the same way under every root kind:
\*   plain            <work>/sn
\*   hidden_ancestor  <work>/.cache/sn          (a hidden directory ABOVE the snippets directory)
\*   hidden_self      <work>/.sn                (the snippets directory itself is hidden)
\*   dotdot           <work>/sub/../sn          (the path is spelled with a ".." component)
RootKinds == {"plain", "hidden_ancestor", "hidden_self", "dotdot"}

FullPath(e) == Parts(e)
\* no two entries at the same path, no entry at a path that is a directory of another one
Consistent(T) ==
    \A e1 \in T : \A e2 \in T :
        e1 # e2 => /\ FullPath(e1) # FullPath(e2)
                   /\ ~(Len(FullPath(e1)) < Len(FullPath(e2)) /\ SubSeq(FullPath(e2), 1, Len(FullPath(e1))) = FullPath(e1))
=============================================================================
