--------------------------- MODULE ConstraintsDocs ---------------------------
(* C11 / C12: documents of a scenario (Constraints.tla) -- declaratively.                               *)
(*                                                                                                       *)
(* A *case* describes one JSON document  {"inner": {"x": ..., ["y": ...], ["modelType": "Ck"]}}  that    *)
(* the generated SDK serialises from an instance  Something(inner = Ck(x = ...)) , possibly with one     *)
(* mutation:                                                                                             *)
(*   [k     |-> class level of the instance (1..Depth),                                                  *)
(*    mut   |-> "none" | "len" | "ilen" | "pat" | "ipat"            (value-level: built through the SDK)  *)
(*              | "mt_wrong" | "mt_missing" | "req_missing" | "root_req_missing" | "mistyped",           *)
(*    xnone |-> x is None (only for optional x),                                                         *)
(*    n     |-> length of x (string / bytes) or number of items (list kinds),                            *)
(*    il    |-> length of every item (list kinds, else 0),                                               *)
(*    ch    |-> the character every string consists of: "a" | "b" | "c" | "eacute" | "grin" | "u<hex>",  *)
(*    ynone |-> y is None (only meaningful when the scenario has a foreign guard)]                       *)
(*                                                                                                       *)
(* C11: a case with mut = "none" whose instance satisfies ALL invariants (SpecValid) is admitted by the  *)
(*      schema.   C12: a case that breaks exactly one inferred length / pattern / list-size constraint   *)
(*      (IsViolation), and every structural mutation, is rejected -- unless the property excludes it     *)
(*      (Excluded: byte-array lengths that the base64 text length cannot express).                       *)
EXTENDS Constraints

MaxLen == 7       \* constants are <= 4
NVal == 2         \* the value of self.n in every instance

\* characters by id; "u<hex>" are astral code points at the edges of the high-surrogate blocks of the "ar<n>" patterns
SpecialChars == {"eacute", "grin", "u10000", "u1000f", "u10005", "u103ff", "u10400", "u10405", "u107ff", "u10800", "u10bff",
                 "u101d0", "u10c00", "u11bff", "u11fff"}
Chars == {"a", "b", "c"} \cup SpecialChars
CharCP(ch) == CASE ch = "a" -> CP_a [] ch = "b" -> CP_b [] ch = "c" -> CP_c [] ch = "eacute" -> CP_eacute [] ch = "grin" -> CP_grin
                [] ch = "u10000" -> 65536 [] ch = "u1000f" -> 65551 [] ch = "u10005" -> 65541 [] ch = "u103ff" -> 66559
                [] ch = "u10400" -> 66560 [] ch = "u10405" -> 66565 [] ch = "u107ff" -> 67583 [] ch = "u10800" -> 67584
                [] ch = "u10bff" -> 68607 [] ch = "u101d0" -> 66000 [] ch = "u10c00" -> 68608 [] ch = "u11bff" -> 72703
                [] ch = "u11fff" -> 73727
Str(ch, n) == [j \in 1..n |-> CharCP(ch)]

IsListKind(S) == S.kind \in {"list", "listcprim"}
IsStringKind(S) == S.kind \in {"str", "cprim"}
HasForeignGuard(S) == \E a \in AllAtoms(S) : a.g \in ForeignGuards \cup ChainedGuards
HasModelType(S) == Depth(S) > 1 \/ S.wmt

\* the slot whose strings carry patterns: x itself, or the items of a list of constrained primitives
StringSlot(S) == IF S.kind = "listcprim" THEN "i" ELSE "v"

-----------------------------------------------------------------------------
(* Does the instance described by a (value-level) case satisfy all invariants of Ck?                     *)

LenPartOK(S, k, c) == InstanceOKLen(S, k, "v", c.n, c.ynone, NVal)
StrPartOK(S, k, c) == IsStringKind(S) => InstanceOKStr(S, k, "v", Str(c.ch, c.n), c.ynone)
ItemLenOK(S, k, c) == (S.kind = "listcprim" /\ c.n > 0) => InstanceOKLen(S, k, "i", c.il, c.ynone, NVal)
ItemStrOK(S, k, c) == (S.kind = "listcprim" /\ c.n > 0) => InstanceOKStr(S, k, "i", Str(c.ch, c.il), c.ynone)

ValueOK(S, k, c) ==
    \/ c.xnone /\ S.opt          \* every atom on an optional x is guarded by x (WellGuarded)
    \/ ~c.xnone /\ LenPartOK(S, k, c) /\ StrPartOK(S, k, c) /\ ItemLenOK(S, k, c) /\ ItemStrOK(S, k, c)

\* an unguarded atom on an optional x would raise in Python when x is None: such scenarios are not generated
WellGuarded(S) == S.opt => \A a \in FlattenTo(S.cls, Depth(S)) : a.g \in SameGuards \cup ChainedGuards

SpecValid(S, c) == c.mut = "none" /\ c.k \in 1..Depth(S) /\ ValueOK(S, c.k, c)

-----------------------------------------------------------------------------
(* Single-constraint violations (C12)                                                                    *)

ValidLensOf(S, k, s, ynone) == {n \in 0..MaxLen : InstanceOKLen(S, k, s, n, ynone, NVal)}

\* the case breaks one inferred (recognised) constraint, everything else being valid
IsViolation(S, c) ==
    /\ c.k \in 1..Depth(S) /\ ~c.xnone
    /\ CASE c.mut = "len"  -> /\ c.n \in ViolatingLens(S, c.k, "v", MaxLen)
                              /\ StrPartOK(S, c.k, c) /\ ItemLenOK(S, c.k, c) /\ ItemStrOK(S, c.k, c)
         [] c.mut = "ilen" -> /\ S.kind = "listcprim" /\ c.n > 0 /\ c.il \in ViolatingLens(S, c.k, "i", MaxLen)
                              /\ LenPartOK(S, c.k, c) /\ ItemStrOK(S, c.k, c)
         [] c.mut = "pat"  -> /\ IsStringKind(S) /\ c.n > 0 /\ LenPartOK(S, c.k, c)
                              /\ \E p \in ExpectedPats(S, c.k, "v") : ~Matches(p, Str(c.ch, c.n))
         [] c.mut = "ipat" -> /\ S.kind = "listcprim" /\ c.n > 0 /\ c.il > 0 /\ LenPartOK(S, c.k, c) /\ ItemLenOK(S, c.k, c)
                              /\ \E p \in ExpectedPats(S, c.k, "i") : ~Matches(p, Str(c.ch, c.il))
         [] OTHER -> FALSE

IsStructural(c) == c.mut \in {"mt_wrong", "mt_missing", "req_missing", "root_req_missing", "mistyped"}
StructuralApplies(S, c) ==
    CASE c.mut \in {"mt_wrong", "mt_missing"} -> HasModelType(S)
      [] c.mut = "req_missing" -> ~S.opt
      [] OTHER -> TRUE

\* C12's stated exclusions
Excluded(S, c) == c.mut = "len" /\ BytesInexpressible(S, c.k, "v", c.n, MaxLen)

MustReject(S, c) == (IsViolation(S, c) /\ ~Excluded(S, c)) \/ (IsStructural(c) /\ StructuralApplies(S, c))

\* where the broken constraint comes from (for reports and for C14's exclusion of descendant tightenings)
ViolationSources(S, c) ==
    CASE c.mut = "len"  -> BrokenSources(S, c.k, "v", c.n)
      [] c.mut = "ilen" -> BrokenSources(S, c.k, "i", c.il)
      [] OTHER -> {}

-----------------------------------------------------------------------------
(* The cases the spec yields for a scenario (G)                                                          *)

SetMin(A) == CHOOSE n \in A : \A m \in A : n <= m
SetMax(A) == CHOOSE n \in A : \A m \in A : m <= n
Boundary(A) == IF A = {} THEN {} ELSE {SetMin(A), SetMax(A)}

Case(k, mut, xnone, n, il, ch, ynone) == [k |-> k, mut |-> mut, xnone |-> xnone, n |-> n, il |-> il, ch |-> ch, ynone |-> ynone]

YChoices(S) == IF HasForeignGuard(S) THEN {TRUE, FALSE} ELSE {TRUE}

\* characters that every pattern applying to the string slot allows ("b" is allowed by every library pattern)
GoodChars(S, k) ==
    LET ps == ExpectedPats(S, k, StringSlot(S))
        hasLen == \E a \in SlotAtoms(S, k, StringSlot(S)) : a.k = "len"
    IN  {"b"} \cup (IF hasLen THEN {} ELSE {ch \in SpecialChars \cup {"a", "c"} : ps # {} /\ \A p \in ps : PatAllows(p, CharCP(ch))})
BadChars(S, k) ==
    LET ps == ExpectedPats(S, k, StringSlot(S))
        hasLen == \E a \in SlotAtoms(S, k, StringSlot(S)) : a.k = "len"
        cands == {"a", "c"} \cup (IF ~hasLen /\ ps \cap {"ar1", "ar2", "ar3", "ar8"} # {} THEN SpecialChars ELSE {})
    IN  {ch \in cands : \E p \in ps : ~PatAllows(p, CharCP(ch))}

ItemLens(S, k, yn) == IF S.kind = "listcprim" THEN Boundary(ValidLensOf(S, k, "i", yn)) ELSE IF S.kind = "list" THEN {1} ELSE {0}

ValidCases(S) ==
    UNION {
      {Case(k, "none", FALSE, n, (IF IsListKind(S) /\ n > 0 THEN il ELSE 0), ch, yn) :
            n \in Boundary(ValidLensOf(S, k, "v", yn)), il \in ItemLens(S, k, yn), ch \in GoodChars(S, k)}
      \cup (IF S.opt THEN {Case(k, "none", TRUE, 0, 0, "b", yn)} ELSE {})
      : k \in 1..Depth(S), yn \in YChoices(S)}

\* one fully valid base case per class level (the smallest), used as the document that gets mutated
BaseCasesOf(S, valid) ==
    {c \in valid : ~c.xnone /\ c.ynone /\ c.ch = "b"
          /\ c.n = SetMax(ValidLensOf(S, c.k, "v", TRUE))
          /\ (S.kind = "listcprim" /\ c.n > 0 => c.il = SetMax(ValidLensOf(S, c.k, "i", TRUE)))}

\* the item length to use when a violating list size needs items although the base list was empty
ItemLenFor(S, b) ==
    IF b.il > 0 \/ ~IsListKind(S) THEN b.il
    ELSE IF S.kind = "list" THEN 1
    ELSE LET V == ValidLensOf(S, b.k, "i", TRUE) IN IF V = {} THEN 0 ELSE SetMax(V)

BaseCases(S) == BaseCasesOf(S, ValidCases(S))

ViolationCasesOf(S, base) ==
    UNION {
      {[b EXCEPT !.mut = "len", !.n = n, !.il = IF n > 0 THEN ItemLenFor(S, b) ELSE 0] : n \in ViolatingLens(S, b.k, "v", MaxLen)}
      \cup (IF S.kind = "listcprim" /\ b.n > 0 THEN {[b EXCEPT !.mut = "ilen", !.il = m] : m \in ViolatingLens(S, b.k, "i", MaxLen)} ELSE {})
      \cup (IF IsStringKind(S) /\ b.n > 0 THEN {[b EXCEPT !.mut = "pat", !.ch = ch] : ch \in BadChars(S, b.k)} ELSE {})
      \cup (IF S.kind = "listcprim" /\ b.n > 0 /\ b.il > 0 THEN {[b EXCEPT !.mut = "ipat", !.ch = ch] : ch \in BadChars(S, b.k)} ELSE {})
      \cup {[b EXCEPT !.mut = m] : m \in {"mt_wrong", "mt_missing", "req_missing", "root_req_missing", "mistyped"}}
      : b \in base}
ViolationCases(S) == ViolationCasesOf(S, BaseCases(S))

=============================================================================
