------------------------------ MODULE ExprTrace ------------------------------
(* V phase of C07. One observation per invariant tree: was it accepted (front end + type        *)
(* inference + --target python), and what CPython returned for it on every instance.            *)
(* TLC re-evaluates the tree with Expr!Eval on the instances InstSeq(e) and checks              *)
(*   - S:  Inv_SpecMatchesPython, Inv_Defined (the specification itself; machinery, not verdict) *)
(*   - the clauses of the property, one invariant each, for accepted trees.                     *)
(* The state carries a verdict record `v` so that a violation report shows the structural key   *)
(* (raising construct, operand kinds, instance index) computed by the specification.           *)
EXTENDS ExprSchema, Json, IOUtils

Obs == JsonDeserialize(IOEnv.VERIF_OBS)
VARIABLES i, v

Results(n) == LET e == Obs[n].e
                  insts == Force(InstSeq(e))
              IN  Force([k \in 1..Len(insts) |-> EvalOn(e, insts[k])])

Min(S) == CHOOSE k \in S : \A j \in S : k <= j

Verdict(n) ==
    LET rs == Results(n)
        py == Obs[n].py
        FirstBad(Pred(_)) == LET ks == {k \in 1..Len(rs) : ~Pred(rs[k])} IN IF ks = {} THEN 0 ELSE Min(ks)
        Agree(k) == k <= Len(py) /\ PyCode(rs[k]) = py[k]
        sbad == IF Len(py) # Len(rs) THEN Len(rs) + 1
                ELSE LET ks == {k \in 1..Len(rs) : ~Agree(k)} IN IF ks = {} THEN 0 ELSE Min(ks)
        tk == FirstBad(NoTypeError)
        ak == FirstBad(NoAttributeError)
        nk == FirstBad(NoNoneDereference)
        ok == FirstBad(NoOtherError)
        bk == FirstBad(YieldsBoolean)
        lk == FirstBad(Defined)
        C(k) == IF k = 0 THEN "" ELSE rs[k].c
        D(k) == IF k = 0 THEN "" ELSE rs[k].d
    IN  [done |-> TRUE, s_bad |-> sbad, s_spec |-> IF sbad = 0 \/ sbad > Len(rs) THEN "" ELSE PyCode(rs[sbad]),
         limit_k |-> lk,
         type_k |-> tk, type_c |-> C(tk), type_d |-> D(tk),
         attr_k |-> ak, attr_c |-> C(ak), attr_d |-> D(ak),
         none_k |-> nk, none_c |-> C(nk), none_d |-> D(nk),
         other_k |-> ok, other_c |-> C(ok), other_d |-> D(ok),
         bool_k |-> bk, bool_t |-> IF bk = 0 THEN "" ELSE rs[bk].t, root |-> Obs[n].e.k,
         ninst |-> Len(rs), nfine |-> Cardinality({k \in 1..Len(rs) : RunsFine(rs[k])}),
         nindex |-> Cardinality({k \in 1..Len(rs) : IsErr(rs[k]) /\ rs[k].e = "IndexErr"})]

\* Two steps per observation: the initial state only picks it, the step computes the verdict (TLC evaluates
\* initial states twice and single-threaded; steps once and by all workers).
Todo == [done |-> FALSE]
Init == i \in 1..Len(Obs) /\ v = Todo
Next == ~v.done /\ i' = i /\ v' = Verdict(i)

Accepted == v.done /\ Obs[i].acc

\* S — the specification agrees with CPython on every (tree, instance); never a verdict about the repo
Inv_SpecMatchesPython == v.done => v.s_bad = 0
Inv_Defined == v.done => v.limit_k = 0

\* the clauses of C07
Inv_NoTypeError == Accepted => v.type_k = 0
Inv_NoAttributeError == Accepted => v.attr_k = 0
Inv_NoNoneDereference == Accepted => v.none_k = 0
Inv_NoOtherError == Accepted => v.other_k = 0
Inv_YieldsBoolean == Accepted => v.bool_k = 0

\* non-vacuity: accepted trees, accepted trees that really run on more than one instance, evaluations
NAcc == Cardinality({n \in 1..Len(Obs) : Obs[n].acc})
ASSUME PrintT(<<"@@PRINT@@ obs", Len(Obs), NAcc>>)
=============================================================================
