INIT Init
NEXT Next
CONSTANTS
  Wide = FALSE
