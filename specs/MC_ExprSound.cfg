INIT Init
NEXT Next
INVARIANT Sound
CONSTANTS
  Wide = FALSE
