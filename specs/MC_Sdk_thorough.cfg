SPECIFICATION Spec
CONSTANTS
  Depth = 1
  MaxMut = 2
  Mode = "base"
  ModelIds = {"prims", "enums", "hier", "mixin", "rec", "param_8_32", "param_22_15"}
INVARIANT InstanceTyped
INVARIANT RoundTrip
INVARIANT Monotone
INVARIANT ResultTyped
INVARIANT KindPromise
