INIT Init
NEXT Next
INVARIANT Inv_SchemaValid
INVARIANT Inv_ValidAdmitted
INVARIANT Inv_OracleAgrees
INVARIANT Inv_CorpusExpectedAdmitted
INVARIANT Inv_GenerationDoesNotRaise
