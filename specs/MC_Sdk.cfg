SPECIFICATION Spec
CONSTANTS
  Depth = 1
  MaxMut = 1
  Mode = "base"
  ModelIds = {"mixin", "param_8_32"}
INVARIANT InstanceTyped
INVARIANT RoundTrip
INVARIANT Monotone
INVARIANT ResultTyped
INVARIANT KindPromise
