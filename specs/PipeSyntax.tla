----------------------------- MODULE PipeSyntax -----------------------------
(* C01 (G) -- a grammar of the Python subset that the meta-model front end accepts, and of its   *)
(* near misses.                                                                                   *)
(*                                                                                               *)
(* A *module case* is a valid base meta-model (one template of every kind of top-level item:     *)
(* class, enumeration, constrained primitive, constant, constant set, pattern / transpilable /   *)
(* implementation-specific verification function) plus one or two extra top-level *items*.  An   *)
(* item belongs to a family; a family is a record space (one field per syntactic slot, the values *)
(* of a slot being the alternatives the Python grammar admits there) with a default record that  *)
(* denotes the valid template.  The enumerated items are the records that deviate from the       *)
(* default in at most MaxDev slots ("pairwise" inside one item); module cases combine at most    *)
(* two deviating items.  The concrete lexemes of every alternative are in harness/pipe_render.py; *)
(* the structure -- which slots exist, arities, which combinations occur -- is here.             *)
EXTENDS Naturals, Sequences, FiniteSets

CONSTANTS MaxDev,        \* number of slots of an item that may deviate from the template
          MaxTokens      \* length of the regex token sequences

\* A family is given by `dom` (slot -> set of alternatives) and its default record `d`.
\* The records deviating from d in exactly one slot / in one or two slots:
Dev1(dom, d) == UNION {{[d EXCEPT ![f] = v] : v \in dom[f] \ {d[f]}} : f \in DOMAIN dom}
Dev2(dom, d) == (UNION {Dev1(dom, r) : r \in Dev1(dom, d)}) \ {d}
Variants(dom, d) == IF MaxDev = 1 THEN Dev1(dom, d) ELSE Dev2(dom, d)
NDev(r, d) == Cardinality({f \in DOMAIN r : r[f] # d[f]})

-----------------------------------------------------------------------------
(* what may stand where a call to a marker function is expected *)
Callees == {"right", "wrongprim", "otherctor", "unknown", "callcall", "attr", "lambda", "name",
            "literal", "subscript", "await", "starred"}

(* NAME: T = constant_T(value, description) *)
ConstPrimSpace ==
    [k |-> {"constprim"},
     ty |-> {"int", "str", "bool", "float", "bytearray"},
     callee |-> Callees,
     npos |-> 0..4,                                        \* positional arguments
     kws |-> {"none", "value", "description", "value_description", "bogus", "value_bogus", "starstar"},
     val |-> {"ok", "none", "wrongtype", "expr", "name", "neg", "fstring", "list", "big"},
     tgt |-> {"name", "unicode", "attr", "subscript", "dunder"}]
ConstPrimDefault ==
    [k |-> "constprim", ty |-> "int", callee |-> "right", npos |-> 0, kws |-> "value_description",
     val |-> "ok", tgt |-> "name"]

(* NAME: Set[T] = constant_set(values, description, superset_of) *)
ConstSetSpace ==
    [k |-> {"constset"},
     elt |-> {"str", "int", "enum", "list", "two", "bare", "unknown", "optional"},  \* Set[<elt>]
     callee |-> Callees,
     npos |-> 0..5,
     kws |-> {"none", "values", "values_description", "values_description_superset", "superset", "bogus",
            "values_bogus", "starstar"},
     vals |-> {"ok", "empty", "tuple", "set", "comp", "expr", "mixed", "enumlits", "dup", "name", "nested"},
     sup |-> {"absent", "empty", "ok", "unknown", "self", "notlist", "attr", "str", "dup", "dup_apart"}]
ConstSetDefault ==
    [k |-> "constset", elt |-> "str", callee |-> "right", npos |-> 0, kws |-> "values_description",
     vals |-> "ok", sup |-> "absent"]

(* @verification def f(text: str) -> bool: return match(PATTERN, text) is not None *)
PatternFuncSpace ==
    [k |-> {"patternfunc"},
     form |-> {"direct", "var", "fstring", "fstring_var", "concat", "search", "fullmatch", "compile",
             "bare_match", "eq_none", "not_re", "callcall", "attrcall", "kwargs", "flags", "stmt_str_mid",
             "stmt_name_mid", "stmt_fstring_mid", "docstring_first", "two_vars"},
     ret |-> {"bool", "none", "str", "missing", "optional"},
     args |-> {"text", "noargs", "two", "kwonly", "default", "vararg", "untyped", "self"},
     deco |-> {"verification", "missing", "called", "twice", "impl", "unknown", "attr", "callcall"},
     pat |-> {"simple", "unanchored", "empty", "raw_newline", "bytes", "int", "nested_fstring"}]
PatternFuncDefault ==
    [k |-> "patternfunc", form |-> "direct", ret |-> "bool", args |-> "text", deco |-> "verification",
     pat |-> "simple"]

(* @verification def f(x: T) -> bool: BODY   (transpilable), bodies are statement lists *)
Statements == {"return_expr", "if_return", "for_loop", "while_loop", "assign", "aug_assign", "ann_assign",
               "tuple_assign", "nested_def", "nested_class", "lambda_assign", "return_none", "bare_return",
               "only_docstring", "pass", "yield", "try", "with", "raise", "assert", "delete", "global",
               "import", "expr_stmt", "walrus", "match_stmt"}
(* expressions admitted (or nearly) in invariants and function bodies *)
Expressions == {"len_cmp", "cmp_chain", "and_or", "not", "implication", "is_none", "is_not_none", "in_set",
                "not_in", "all_gen", "any_gen", "all_gen_if", "all_listcomp", "all_two_for", "all_range",
                "all_nested", "call_verification", "call_unknown", "callcall", "attr_call", "method_call",
                "subscript", "slice", "attr_chain", "arith", "unary_minus", "ternary", "lambda", "fstring",
                "str_concat", "list_lit", "dict_lit", "set_lit", "tuple_lit", "starred", "const_true",
                "const_none", "const_int", "const_str", "const_bytes", "const_ellipsis", "const_complex",
                "name_unknown", "name_const", "enum_lit", "cmp_str_int", "len_of_int", "len_ge_0",
                "len_contradiction", "await", "yield_expr", "walrus", "star_kwargs", "index_neg", "len_two_args",
                "len_no_args", "len_kwarg", "two_len_arity_same_line", "two_unknown_calls_same_line"}

FuncSpace ==
    [k |-> {"func"},
     stmt |-> Statements,
     expr |-> Expressions,
     ret |-> {"bool", "none", "int", "missing", "str_annot"},
     args |-> {"one", "noargs", "two", "kwonly", "default", "vararg", "untyped", "ourtype", "dup_arg", "list_two",
               "list_optional_two"},
     deco |-> {"verification", "missing", "called", "impl", "impl_only", "unknown", "require", "ensure_odd",
             "snapshot"}]
FuncDefault ==
    [k |-> "func", stmt |-> "return_expr", expr |-> "len_cmp", ret |-> "bool", args |-> "one",
     deco |-> "verification"]

(* @invariant(lambda self: EXPR, "description") class C(DBC): ... *)
InvariantSpace ==
    [k |-> {"invariant"},
     lam |-> {"self", "noargs", "two", "other_name", "kwonly", "default", "star", "not_lambda_name",
            "not_lambda_call", "not_lambda_str", "def_ref"},
     expr |-> Expressions,
     desc |-> {"ok", "missing", "int", "fstring", "concat", "empty", "kw", "bytes", "name", "duplicate",
             "multiline", "kw_wrong"},
     form |-> {"call", "bare", "attr", "callcall", "extra_pos", "extra_kw", "star_args", "on_cprim",
             "on_enum", "twice_same"}]
InvariantDefault ==
    [k |-> "invariant", lam |-> "self", expr |-> "len_cmp", desc |-> "ok", form |-> "call"]

(* class decorators other than invariants, bases, body *)
ClassSpace ==
    [k |-> {"class"},
     name |-> {"ok", "unicode", "lower", "reserved", "dunder", "duplicate", "keywordish"},
     bases |-> {"dbc", "none", "unknown", "self", "cycle", "kw_metaclass", "call", "attr", "enum_dbc",
              "two_parents", "prim_and_class", "subscript", "star", "prim_dbc", "dup_parent", "prim_only"},
     deco |-> {"none", "abstract", "abstract_call", "abstract_arg", "impl", "impl_call", "serialization",
             "serialization_noarg", "serialization_pos", "serialization_int", "serialization_bogus",
             "unknown", "unknown_call", "attr", "callcall", "lambda", "twice", "abstract_impl",
             "reference_in_the_book", "subscript"},
     body |-> {"prop", "pass", "ellipsis", "docstring_only", "prop_value", "prop_no_annotation", "prop_tuple_target",
             "prop_attr_target", "prop_unicode", "prop_reserved", "prop_dup", "prop_docstring_twice",
             "nested_class", "stmt_if", "stmt_expr", "class_var_assign", "method", "method_impl",
             "method_static", "method_no_self", "method_contracts", "method_contract_odd", "method_snapshot",
             "method_dunder", "method_async", "method_lambda", "property_deco", "bad_docstring", "method_dup",
             "method_verification"},
     ann |-> {"str", "int_list", "optional", "ourtype", "forward_str", "unknown", "list_bare", "optional_bare",
            "list_two", "optional_two", "optional_optional", "list_optional", "set", "dict", "none",
            "union_bar", "callable", "attr", "literal_int", "tuple", "ellipsis_sub", "lambda", "nested_deep",
            "self_ref", "enum", "cprim", "str_subscript", "str_empty", "list_optional_two",
            "optional_list_two", "list_list_two"},
     ctor |-> {"auto", "missing", "no_self", "extra_arg", "missing_arg", "wrong_type", "default_not_none",
             "optional_no_default", "vararg", "kwarg", "kwonly", "body_pass", "body_stmt", "assign_other",
             "assign_twice", "assign_expr", "super_call", "base_init_pos", "returns_int", "require_ok",
             "require_odd", "docstring", "async", "lambda_default", "posonly", "dup_arg", "impl_specific", "prim_init_call",
              "prim_init_only"}]
ClassDefault ==
    [k |-> "class", name |-> "ok", bases |-> "dbc", deco |-> "none", body |-> "prop", ann |-> "str",
     ctor |-> "auto"]

(* class E(Enum): A = "a" *)
EnumSpace ==
    [k |-> {"enum"},
     bases |-> {"enum", "enum_dbc", "enum_twice", "str_enum", "intenum", "enum_call"},
     lits |-> {"ok", "none", "int_value", "dup_name", "dup_value", "expr_value", "annotated", "tuple_target",
             "lower_name", "unicode_name", "fstring_value", "empty_value", "auto_call"},
     extra |-> {"none", "method", "docstring", "lit_docstring", "pass", "nested", "decorated", "invariant",
              "bad_docstring", "stmt"}]
EnumDefault == [k |-> "enum", bases |-> "enum", lits |-> "ok", extra |-> "none"]

(* a constrained primitive: @invariant(lambda self: EXPR, "...") class P(<prim>, DBC), in the standard base model *)
(* or in a bare one (no class invariant and no verification function anywhere in the model)                  *)
CprimSpace ==
    [k |-> {"cprim"},
     prim |-> {"str", "int", "float", "bool", "bytearray"},
     expr |-> Expressions,
     base |-> {"std", "bare"},
     \* a second invariant on the same primitive / a child primitive, contradicting the first or not
     extra |-> {"none", "second_contradicting", "second_compatible", "child_contradicting", "used_as_property"}]
CprimDefault == [k |-> "cprim", prim |-> "str", expr |-> "len_cmp", base |-> "std", extra |-> "none"]

(* serialization settings across a hierarchy: what a class inherits from two parents, and - elsewhere in the *)
(* model - a class without any setting that has a concrete descendant                                          *)
SerialSpace ==
    [k |-> {"serial"},
     parents |-> {"none", "agreeing", "contradicting", "one_set", "child_overrides"},
     untagged |-> {"none", "with_descendant", "with_descendant_as_property", "abstract_as_property"}]
SerialDefault == [k |-> "serial", parents |-> "none", untagged |-> "none"]

(* a docstring with an interpreted-text role: :role:`target` at some place of the model *)
DocRefSpace ==
    [k |-> {"docref"},
     role |-> {"class", "attr", "paramref", "constraintref", "const", "py_attr", "unknown", "ref", "none"},
     target |-> {"name", "dotted2", "dotted3", "dash", "tilde_dot", "bang", "empty", "space", "digit", "call",
                 "missing_name", "constraint_id"},
     place |-> {"class", "property", "enum_literal", "module", "constant", "function", "method", "ctor"}]
DocRefDefault == [k |-> "docref", role |-> "class", target |-> "name", place |-> "class"]

(* layout of the file around the model: what precedes the first line, which failing statement ends the file *)
LayoutSpace ==
    [k |-> {"layout"},
     lead |-> {"none", "space_line", "blank_lines", "comment", "tab_line", "formfeed_line", "spaces_comment",
               "many_space_lines"},
     tail |-> {"none", "unknown_stmt", "bad_class", "bad_import", "bad_invariant", "bad_pattern", "no_newline_stmt"}]
LayoutDefault == [k |-> "layout", lead |-> "none", tail |-> "none"]

(* other top-level statements (each alternative is one deviation from "nothing") *)
TopStatements ==
    {"import_plain", "import_as", "from_as", "from_unknown", "from_wrong_module", "from_star",
     "from_relative", "from_future", "version_int", "version_twice", "version_fstring",
     "version_ann", "xmlns_slash", "xmlns_space", "xmlns_quote", "xmlns_int", "unknown_assign",
     "unknown_assign_call", "constant_no_annotation", "multi_target", "tuple_target",
     "aug_assign", "ann_no_value", "ann_paren", "ann_attr", "del", "global", "if", "for", "while",
     "try", "with", "raise", "return", "expr_call", "expr_name", "expr_lambda", "expr_int",
     "second_docstring", "bytes_docstring", "fstring_docstring", "bad_rst_docstring", "pass",
     "assert", "async_def", "plain_def", "init_def", "def_with_self", "class_in_if", "await_top",
     "yield_top", "nonlocal", "type_alias", "star_expr", "walrus", "match_stmt", "semicolons",
     "line_continuation", "tab_indent", "form_feed", "nul_byte", "bom", "crlf", "cr_only",
     "unicode_ident", "very_long_line", "deep_nesting", "unterminated_string", "bad_indent",
     "coding_cookie", "trailing_backslash", "lone_surrogate_escape"}
TopItems == {[k |-> "top", stmt |-> x] : x \in TopStatements}

-----------------------------------------------------------------------------
(* items *)

Families ==
    <<[dom |-> ConstPrimSpace, def |-> ConstPrimDefault], [dom |-> ConstSetSpace, def |-> ConstSetDefault],
      [dom |-> PatternFuncSpace, def |-> PatternFuncDefault], [dom |-> FuncSpace, def |-> FuncDefault],
      [dom |-> InvariantSpace, def |-> InvariantDefault], [dom |-> ClassSpace, def |-> ClassDefault],
      [dom |-> EnumSpace, def |-> EnumDefault], [dom |-> CprimSpace, def |-> CprimDefault],
      [dom |-> DocRefSpace, def |-> DocRefDefault], [dom |-> LayoutSpace, def |-> LayoutDefault],
      [dom |-> SerialSpace, def |-> SerialDefault]>>

Templates == {Families[i].def : i \in 1..Len(Families)}

\* items deviating in one slot, and in one or two slots
Items1 == (UNION {Dev1(Families[i].dom, Families[i].def) : i \in 1..Len(Families)}) \cup TopItems
Items2 == (UNION {Dev2(Families[i].dom, Families[i].def) : i \in 1..Len(Families)}) \cup TopItems
Items == IF MaxDev = 1 THEN Items1 ELSE Items2

(* regular-expression token sequences used as the pattern of a pattern verification function    *)
(* (DESIGN section 9: "^*", leading "{", "{3,1}", "[]", "[^\U0001F600]" are suspects)           *)
RegexTokens == <<"^", "$", ".", "*", "+", "?", "{", "}", ",", "1", "3", "[", "[^", "]", "-", "(", ")",
                 "|", "\\", "a", "\\x41", "A", "ASTRAL", "\\d", "\\s", "{3,1}", "{2}", "(?:", "\\U0001F600",
                 "\\u00e9", "\\b", "\\1", "LF", "CR", "FF", "VT", "TAB", "{99999999999}">>
NTok == Len(RegexTokens)
TokenSeqs(n) == UNION {[1..m -> 1..NTok] : m \in 0..n}

=============================================================================
