---- MODULE PipeConfigGen ----
(* G phase of C03: writes the configurations and the same-rule pair cases of PipeConfig as JSON. *)
EXTENDS PipeConfig, Json, IOUtils, TLC, SequencesExt
ASSUME JsonSerialize(IOEnv.VERIF_OUT, [configs |-> SetToSeq(Configs), reruns |-> SetToSeq(Reruns), cache_histories |-> SetToSeq(CacheHistories), pairs |-> SetToSeq(PairCases)])
ASSUME PrintT(<<"@@PRINT@@ configs", Cardinality(Configs), Cardinality(PairCases), Cardinality(Histories)>>)
VARIABLE dummy
Init == dummy = 0
Next == UNCHANGED dummy
====
