SPECIFICATION Spec
CONSTANTS
  Steps = 3
  MaxFiles = 2
  IsGenerator = TRUE
  Faults = {}
INVARIANT TypeOK
INVARIANT Inv_Closed
INVARIANT Inv_NoUncaughtException
INVARIANT Inv_ExitZeroWroteOutput
INVARIANT Inv_NonZeroReported
INVARIANT Contract
INVARIANT Inv_OpenUntilDone
PROPERTY Terminates
