INIT Init
NEXT Next
INVARIANT Inv_ViolationRejected
INVARIANT Inv_ModelTypeEnforced
INVARIANT Inv_RequiredEnforced
INVARIANT Inv_TypeEnforced
INVARIANT Inv_ViolationIsInvalid
INVARIANT Inv_CorpusUnexpectedRejected
