SPECIFICATION Spec
CONSTANTS
  Trees <- AllTrees
  Alphabet <- ABC
  MaxLen = 3
  PopClearsMark = FALSE
INVARIANT TypeOK
INVARIANT ThreadsInProgram
INVARIANT ProgramWellFormed
INVARIANT VerdictIsFullMatch
INVARIANT VerdictIsBigStep
PROPERTY Termination
