------------------------------ MODULE LocAlgo ------------------------------
(* C04, design level (M): the incremental construction of the offset -> (line, column) table in   *)
(* common.LinenoColumner.__init__, one action per character. Four designs:                         *)
(*   "pinned"        lineno = 1; column = 0                                                       *)
(*                   for ch in text:                                                              *)
(*                       if ch == "\n": column = 1; lineno += 1      <- as in the pinned tree     *)
(*                       else:          column += 1                                               *)
(*                       positions.append((lineno, column))                                       *)
(*   "reset0"        the same with  column = 0  after a newline (the obvious one-line repair)     *)
(*   "append_first"  for ch in text:                                                              *)
(*                       column += 1; positions.append((lineno, column))                          *)
(*                       if ch == "\n": lineno += 1; column = 0                                   *)
(*   "splitlines"    line starts taken from str.splitlines(keepends=True): like "append_first",   *)
(*                   but a form feed (and VT, FS, GS, RS, NEL, U+2028, U+2029) also ends a line   *)
(* The text is a sequence over {"x", "n", "f"}: "n" = newline, "f" = one of those other characters *)
(* that str.splitlines treats as a line boundary while Python, ast and editors do not.            *)
(* Refines: the table agrees with the declarative map of Loc.tla at every non-newline character   *)
(* (where a token can start). RefinesEverywhere: also at the newline characters themselves —      *)
(* the range of the module node starts at offset 0, which is a newline when the file begins with  *)
(* a blank line.                                                                                  *)
EXTENDS Loc

CONSTANTS MaxLen, Design, Alphabet

VARIABLES txt,        \* the text: a sequence over Alphabet
          i,          \* number of characters consumed
          lineno, column,
          positions   \* the table built so far
vars == <<txt, i, lineno, column, positions>>

Texts == UNION {[1..n -> Alphabet] : n \in 0..MaxLen}
NlSet(t) == {o \in 0..(Len(t) - 1) : t[o + 1] = "n"}

Init == /\ txt \in Texts
        /\ i = 0 /\ lineno = 1 /\ column = 0 /\ positions = <<>>

ResetTo == IF Design = "pinned" THEN 1 ELSE 0

ScanNewline ==
    /\ i < Len(txt) /\ txt[i + 1] = "n"
    /\ lineno' = lineno + 1
    /\ IF Design \in {"append_first", "splitlines"}
       THEN positions' = Append(positions, <<lineno, column + 1>>) /\ column' = 0
       ELSE positions' = Append(positions, <<lineno + 1, ResetTo>>) /\ column' = ResetTo
    /\ i' = i + 1 /\ UNCHANGED txt

\* the splitlines design also breaks the line at "f"
ScanFormFeedAsBreak ==
    /\ Design = "splitlines" /\ i < Len(txt) /\ txt[i + 1] = "f"
    /\ positions' = Append(positions, <<lineno, column + 1>>) /\ column' = 0 /\ lineno' = lineno + 1
    /\ i' = i + 1 /\ UNCHANGED txt

ScanOther ==
    /\ i < Len(txt) /\ txt[i + 1] # "n" /\ ~(Design = "splitlines" /\ txt[i + 1] = "f")
    /\ column' = column + 1 /\ lineno' = lineno
    /\ positions' = Append(positions, <<lineno, column + 1>>)
    /\ i' = i + 1 /\ UNCHANGED txt

Next == ScanNewline \/ ScanFormFeedAsBreak \/ ScanOther
Spec == Init /\ [][Next]_vars

-----------------------------------------------------------------------------
\* the table refines the declarative map wherever a token can start
Refines ==
    \A o \in 0..(Len(positions) - 1) :
        txt[o + 1] # "n" => positions[o + 1] = Pos(NlSet(txt), o)

\* ... and at the newline characters too
RefinesEverywhere ==
    \A o \in 0..(Len(positions) - 1) : positions[o + 1] = Pos(NlSet(txt), o)

\* no entry of the table is 0-based
OneBased == \A o \in 1..Len(positions) : positions[o][1] >= 1 /\ positions[o][2] >= 1

\* the loop invariant that makes it so
LoopInvariant ==
    /\ Len(positions) = i
    /\ (Design # "splitlines" => lineno = 1 + Cardinality({o \in NlSet(txt) : o < i}))

\* properties of the declarative map itself
DeclarativeSanity ==
    /\ ColumnOneAtLineStarts(NlSet(txt), Len(txt))
    /\ MonotoneInLine(NlSet(txt), Len(txt))
=============================================================================
