INIT Init
NEXT Next
CONSTANTS
  MaxParts = 4
  MaxWidth = 7
