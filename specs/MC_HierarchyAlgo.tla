---- MODULE MC_HierarchyAlgo ----
(* M for C05: the front end's algorithm on every hierarchy of the case space with <= N classes. *)
EXTENDS HierarchyAlgo, HierarchyCases
CONSTANTS N, NSort, SortAllNames
CasesDef ==
    UpTo(PartA, N) \cup UpTo(PartB, N) \cup UNION {PartC(n, n <= 3) : n \in 1..N}
    \cup UpTo(PartD, N) \cup UpTo(PartE, N) \cup UpTo(PartF, N) \cup UpTo(PartH, N)
SortCasesDef == UNION {PartG(n, SortAllNames \/ n < NSort) : n \in 1..NSort}
Init == InitWith(CasesDef)
Spec == Init /\ [][Next]_vars
SortInit == InitWith(SortCasesDef)
SortSpec == SortInit /\ [][Next]_vars
====
