---- MODULE MC_HierarchyAlgo ----
(* M for C05: the front end's algorithm on every hierarchy of the case space with <= N classes. *)
EXTENDS HierarchyAlgo, HierarchyCases
CONSTANTS N, Full, NSort, SortAllNames
CasesDef == UpTo(N, Full)
SortCasesDef == UNION {PartG(n, SortAllNames \/ n < NSort) : n \in 1..NSort}
Init == InitWith(CasesDef)
Spec == Init /\ [][Next]_vars
SortInit == InitWith(SortCasesDef)
SortSpec == SortInit /\ [][Next]_vars
====
