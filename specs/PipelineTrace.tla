--------------------------- MODULE PipelineTrace ---------------------------
(* V phase of C01 / C03 / C28: every run of the real code, recorded as a sequence of stage events  *)
(* (harness/pipe_trace.py), must be a behaviour of Pipeline (Strict = FALSE), and its observed     *)
(* exit status / stderr / stdout must satisfy the clauses.                                         *)
(*                                                                                                 *)
(* Many traces are validated per TLC invocation: `tid` selects the trace (one initial state per    *)
(* trace), `l` is the index of the next event.  Every event is consumed by exactly one action of   *)
(* Pipeline (`IsEvent(name) /\ <bind logged fields> /\ Action(args)`).  There is no action for an  *)
(* event whose outcome is "exc" (an exception left the stage): such a trace is rejected at that    *)
(* event by Inv_TraceAccepted.  Run with -continue so that every rejected trace is reported.       *)
EXTENDS Pipeline, Json, IOUtils

Traces == JsonDeserialize(IOEnv.VERIF_OBS)

VARIABLES tid, l
tvars == <<vars, tid, l>>

T == Traces[tid]
SetOf(seq) == {seq[i] : i \in 1..Len(seq)}
PhaseNames == SetOf(Phases)

\* (the current event is passed as a parameter so that TLC evaluates `T.events[l]` once per step)
Is(ev, n) == ev.e = n /\ ev.x = "ok"

\* Pipeline!Init with tool and input bound to the trace
TraceInit ==
    /\ tid \in 1..Len(Traces)
    /\ l = 1
    /\ tool = Traces[tid].tool
    /\ input = Traces[tid].input
    /\ tool \in Tools /\ input \in Inputs
    /\ stage = StagesOf(tool)[1]
    /\ phase = 0 /\ failed = "no" /\ pending = FALSE
    /\ errs = {} /\ reported = {} /\ stderrLines = <<>> /\ lex = LexInit
    /\ stdoutTail = "none" /\ rc = NoRc /\ wrote = {}
    /\ comp = [c \in SmokeComponents |-> "notrun"]

\* events that carry the errors a component returned
ComponentEvents == {"ReadSnippets", "CheckImports", "ToSymbolTable", "Phase", "Translate", "TargetVerify",
                    "TargetGenerate", "Infer", "CsVerify", "CsTypes", "CsVerification"}

Bind(Ev) ==
    \/ Is(Ev, "CheckArgs") /\ CheckArgs
    \* an enclosing component hands on errors that an inner one has already found (and failed on)
    \/ /\ Ev.x = "ok" /\ Ev.e \in ComponentEvents /\ failed # "no"
       /\ Ev.ids # <<>> /\ SetOf(Ev.ids) \subseteq IdsOf(errs)
       /\ UNCHANGED vars
    \/ Is(Ev, "ReadSnippets") /\ ReadSnippets(SetOf(Ev.ids))
    \/ Is(Ev, "LoadModel") /\ LoadModel
    \/ Is(Ev, "ParsePy") /\ ParsePy(Ev.ok)
    \/ Is(Ev, "CheckImports") /\ CheckImports(SetOf(Ev.ids))
    \/ Is(Ev, "ToSymbolTable") /\ ToSymbolTable(SetOf(Ev.ids))
    \/ Is(Ev, "Phase") /\ Ev.p \in PhaseNames /\ TranslatePhase(Ev.p, SetOf(Ev.ids))
    \/ Is(Ev, "Translate") /\ TranslateReturn(SetOf(Ev.ids))
                            /\ (Ev.ok <=> (failed' = "no"))      \* returned a symbol table iff nothing was found
    \/ Is(Ev, "CacheWrite") /\ CacheWrite /\ input.cache = "miss"
    \/ Is(Ev, "LoadModelReturn") /\ LoadModelReturn(Ev.ok)
    \/ Is(Ev, "TargetVerify") /\ TargetVerify(SetOf(Ev.ids))
    \/ Is(Ev, "TargetGenerate") /\ TargetGenerate(TRUE, SetOf(Ev.ids))
    \/ Is(Ev, "TargetReturn") /\ TargetReturn(Ev.r)
    \/ Is(Ev, "Infer") /\ Infer(SetOf(Ev.ids))
    \/ Is(Ev, "CsVerify") /\ CsVerify(SetOf(Ev.ids))
    \/ Is(Ev, "CsTypes") /\ CsTypes(SetOf(Ev.ids))
    \/ Is(Ev, "CsVerification") /\ CsVerification(SetOf(Ev.ids))
    \/ Is(Ev, "CsReport") /\ (CsReport \/ (~ENABLED CsReport /\ UNCHANGED vars))
    \/ Is(Ev, "Report") /\ Ev.n >= 1 /\ Report([i \in 1..Ev.n |-> 0])
    \/ Is(Ev, "ErrorMessage") /\ UNCHANGED vars                  \* rendering of an error: no stage
    \/ Ev.x = "caught" /\ UNCHANGED vars                          \* an exception handled inside the run
    \/ Is(Ev, "Exit") /\ l = Len(T.events) /\ Exit

TraceNext ==
    /\ l <= Len(T.events)
    /\ LET ev == T.events[l] IN Bind(ev)
    /\ l' = l + 1
    /\ UNCHANGED tid

TraceSpec == TraceInit /\ [][TraceNext]_tvars

-----------------------------------------------------------------------------
Obs == T.obs
ObsClasses == Classes(Obs.lines)
Finished == stage = "Done" /\ l > Len(T.events)

\* C01/C03: the run is a behaviour of the pipeline; in particular no exception leaves a stage
Inv_TraceAccepted == l > Len(T.events) \/ ENABLED TraceNext

\* C01 speaks about the front end only: once run.load_model has returned a symbol table, what the
\* generator does with it is C02's business
Inv_FrontEndTraceAccepted == Inv_TraceAccepted \/ (tool = "main" /\ Obs.load = "accepted")

\* C01: load_model returns exactly one of (symbol table, non-empty error text) ...
Inv_AcceptedXorReport == Finished /\ Obs.load = "rejected" => ~Obs.loadErrEmpty
\* ... and a rejected model makes the CLI exit with status 1 and a non-empty stderr
Inv_RejectedExits1 == Finished /\ Obs.load = "rejected" => Obs.rc = 1 /\ Len(Obs.lines) > 0
\* the exit status is the one the stages imply (errors found => 1, none => 0)
Inv_ExitCodeFollowsStages == Finished => rc = Obs.rc
Inv_SilenceFollowsStages == Finished => ((Len(stderrLines) = 0) <=> (Len(Obs.lines) = 0))

\* C03
Inv_ExitIffSilent == Finished => ExitIffSilentOf(Obs.rc, ObsClasses)
Inv_StdoutTail == Finished /\ tool = "main" => StdoutTailOf(Obs.rc, Obs.tailOk)
Inv_ReportShape == Finished => ReportShapeOf(Obs.rc, ObsClasses)
\* where the spec knows that a report (not a one-line message) was due, the strict shape is required
Inv_ReportIsReport == Finished /\ failed = "report" /\ input.parses => StrictReportShapeOf(Obs.rc, ObsClasses)
Inv_FoundSubsetReported == Finished => FoundSubsetReportedOf(IdsOf(errs), SetOf(Obs.reported))
Inv_NoOutputWithoutModel == Finished /\ Obs.outWritten => ErrsAt(FrontEndStages \cup {"ReadSnippets"}) = {} /\ input.argDefect = "none"

\* C03, same-rule pairs: the messages reported when the rule is broken on Alpha only and on Beta only
\* (pairExpected) all occur in the report of the model in which it is broken on both (pairFound)
Inv_PairBoth == Finished /\ Obs.hasPair => SetOf(Obs.pairExpected) \subseteq SetOf(Obs.pairFound)

\* C28 (inside one smoke run)
Inv_SmokeAgrees == Finished /\ tool = "smoke" => SmokeAgreesOf(Obs.rc, [c \in SmokeComponents |-> IF comp[c] = "notrun" /\ Obs.rc = 0 THEN "ok" ELSE comp[c]], ObsClasses)

\* C28 (against the components called on their own, and against the recorded expectations)
Inv_SmokeZeroOnlyIfAllSucceed ==
    Finished /\ tool = "smoke" /\ Obs.rc = 0 => \A c \in SmokeComponents : Obs.indep[c] = "ok"
Inv_SmokeFailsWhenAnyFails ==
    Finished /\ tool = "smoke" /\ (\E c \in SmokeComponents : Obs.indep[c] = "failed")
        => Obs.rc = 1 /\ Len(Obs.lines) > 0 /\ ReportShapeOf(Obs.rc, ObsClasses)
Inv_RecordedMatches == Finished /\ Obs.hasRecorded => Obs.recGot = Obs.recWant

\* non-vacuity counters
NFailing == Cardinality({n \in 1..Len(Traces) : Traces[n].obs.rc # 0})
NReports == Cardinality({n \in 1..Len(Traces) : Len(Traces[n].obs.lines) >= 2})
ASSUME PrintT(<<"@@PRINT@@ traces", Len(Traces), NFailing, NReports>>)
=============================================================================
