INIT Init
NEXT Next
INVARIANT Inv_NoException
INVARIANT Inv_Concat
INVARIANT Inv_Fits
INVARIANT Inv_ArticleGlued
INVARIANT Inv_RepeatableCall
