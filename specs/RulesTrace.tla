---- MODULE RulesTrace ----
(* V phase for C06: for every observation (abstract meta-model m read from the text, verdict of the real  *)
(* front end), a meta-model that breaks a documented rule must have been rejected with an error.          *)
(* One direction only, as the property states.  One initial state per observation, one successor per    *)
(* rule; two named invariants per rule -- the model was accepted / the front end raised an exception    *)
(* instead of reporting -- so that the name of the violated invariant is the fingerprint                 *)
(* <rule>__<outcome>.  A rule listed in Obs[i].unsure (the reader of the text could not read a construct  *)
(* the rule depends on) is not judged on that observation.                                               *)
EXTENDS Rules, Json, IOUtils
Obs == JsonDeserialize(IOEnv.VERIF_OBS)
VARIABLES i, k
Init == i \in 1..Len(Obs) /\ k = "start"
Next == k = "start" /\ k' \in RuleNames /\ i' = i
Broken(n, rule) == rule \notin Elems(Obs[n].unsure) /\ ~Holds(rule, Obs[n].m)
NotRejected(rule, outcome) == k = rule => ~(Broken(i, rule) /\ Obs[i].outcome = outcome)
Inv_R_acyclic__accepted == NotRejected("R_acyclic", "accepted")
Inv_R_acyclic__exception == NotRejected("R_acyclic", "exception")
Inv_R_bases_exist__accepted == NotRejected("R_bases_exist", "accepted")
Inv_R_bases_exist__exception == NotRejected("R_bases_exist", "exception")
Inv_R_unique_names__accepted == NotRejected("R_unique_names", "accepted")
Inv_R_unique_names__exception == NotRejected("R_unique_names", "exception")
Inv_R_reserved__accepted == NotRejected("R_reserved", "accepted")
Inv_R_reserved__exception == NotRejected("R_reserved", "exception")
Inv_R_no_redeclare__accepted == NotRejected("R_no_redeclare", "accepted")
Inv_R_no_redeclare__exception == NotRejected("R_no_redeclare", "exception")
Inv_R_ctor_matches_props__accepted == NotRejected("R_ctor_matches_props", "accepted")
Inv_R_ctor_matches_props__exception == NotRejected("R_ctor_matches_props", "exception")
Inv_R_optional_default_none__accepted == NotRejected("R_optional_default_none", "accepted")
Inv_R_optional_default_none__exception == NotRejected("R_optional_default_none", "exception")
Inv_R_type_shapes__accepted == NotRejected("R_type_shapes", "accepted")
Inv_R_type_shapes__exception == NotRejected("R_type_shapes", "exception")
Inv_R_unique_inv_desc__accepted == NotRejected("R_unique_inv_desc", "accepted")
Inv_R_unique_inv_desc__exception == NotRejected("R_unique_inv_desc", "exception")
Inv_R_doc_refs__accepted == NotRejected("R_doc_refs", "accepted")
Inv_R_doc_refs__exception == NotRejected("R_doc_refs", "exception")
Inv_R_pattern_anchored__accepted == NotRejected("R_pattern_anchored", "accepted")
Inv_R_pattern_anchored__exception == NotRejected("R_pattern_anchored", "exception")

\* non-vacuity counters: observations, those breaking at least one judged rule, of these rejected;
\* well-formed observations, of these accepted
BrokenRules(n) == {r \in RuleNames : Broken(n, r)}
Breaking == {n \in 1..Len(Obs) : BrokenRules(n) # {}}
ASSUME PrintT(<<"@@PRINT@@ counts", Len(Obs), Cardinality(Breaking),
                Cardinality({n \in Breaking : Obs[n].outcome = "rejected"}),
                Cardinality({n \in 1..Len(Obs) : n \notin Breaking}),
                Cardinality({n \in 1..Len(Obs) : n \notin Breaking /\ Obs[n].outcome = "accepted"})>>)
\* which rules were broken by at least one observation
ASSUME PrintT(<<"@@PRINT@@ rules", {r \in RuleNames : \E n \in 1..Len(Obs) : Broken(n, r)}>>)
====
