SPECIFICATION Spec
CONSTANTS
  MaxLen = 8
  Design = "append_first"
  Alphabet = {"x", "n", "f"}
INVARIANT Refines
INVARIANT RefinesEverywhere
INVARIANT OneBased
INVARIANT LoopInvariant
INVARIANT DeclarativeSanity
