SPECIFICATION Spec
CONSTANTS
  MaxLen = 10
  Design = "append_first"
INVARIANT Refines
INVARIANT RefinesEverywhere
INVARIANT OneBased
INVARIANT LoopInvariant
INVARIANT DeclarativeSanity
