----------------------------- MODULE CrossSdkTrace -----------------------------
(***************************************************************************************************)
(* V phase of C09.  One initial state per observation record written by harness/run_c09.py; one    *)
(* named invariant per clause of the property and per target:                                      *)
(*                                                                                                 *)
(*   Inv_Builds_<T>    the generated SDK of an accepted meta-model compiles (else it has no verdict)*)
(*   Inv_Verify_<T>    same failing invariants (path, description) as the Python SDK               *)
(*   Inv_Json_cpp      equal JSON on serialisation                                                 *)
(*   Inv_Docs_cpp      same accept / reject per document, and equal value when accepted            *)
(*   Inv_Consts_<T>    equal constants                                                             *)
(*   Inv_Enums_<T>     equal enumeration literals (texts in order, parsing of probe texts)          *)
(*                                                                                                 *)
(* and the reference clauses  Inv_Ref_*  : the Python SDK's observation equals the reference        *)
(* semantics of CrossSdk.tla (RefErrors, ToJsonable, FromJsonable, ConstRef, EnumTexts/EnumParse). *)
(* A violated Inv_Ref_* on an unchanged generator means the oracle is in doubt (the harness exits  *)
(* 2); it also tells, for a pairwise disagreement, which side left the reference.                   *)
(***************************************************************************************************)
EXTENDS CrossSdkModels, Json, IOUtils

Obs == JsonDeserialize(IOEnv.VERIF_OBS)
VARIABLE i
Init == i \in 1..Len(Obs)
Next == UNCHANGED i

R == Obs[i]
\* The meta-models are the ones of CrossSdkModels, read back from the file CrossSdkGen wrote: TLC caches only
\* constant definitions that involve no RECURSIVE operator, and ModelByName would be rebuilt at every use
\* (MC_CrossSdk checks that the two are the same values).
G == JsonDeserialize(IOEnv.VERIF_CASES)
ModelOf(r) == G.models[CHOOSE a \in 1..Len(G.models) : G.models[a].model.name = r.model].model
RootOf(r) == FamilyRoot(r.fam)

(* ---- pairwise agreement ------------------------------------------------------------------------ *)
SameVerify(a, b) ==
  /\ a.built = b.built
  /\ a.verified = b.verified
  /\ a.verified => ErrSet(a.errors) = ErrSet(b.errors)
SameJson(a, b) == a.serialized = b.serialized /\ (a.serialized => JsonEq(a.json, b.json))
SameDoc(a, b) == a.accepted = b.accepted /\ (a.accepted => JsonEq(a.json, b.json))
SameConsts(a, b) ==
  /\ Len(a.values) = Len(b.values)
  /\ \A q \in 1..Len(a.values) : a.values[q].name = b.values[q].name /\ a.values[q].ok = b.values[q].ok
                                 /\ ConstEq(a.values[q].value, b.values[q].value)
SameEnums(a, b) ==
  /\ Len(a.values) = Len(b.values)
  /\ \A q \in 1..Len(a.values) : a.values[q].name = b.values[q].name /\ a.values[q].texts = b.values[q].texts
                                 /\ a.values[q].parsed = b.values[q].parsed

BuildOk(r) == r.status \in {"ok", "not_built", "gen_rejected", "gen_exception"}
Inv_Builds_cpp == (R.kind = "build" /\ R.target = "cpp") => BuildOk(R)
Inv_Builds_java == (R.kind = "build" /\ R.target = "java") => BuildOk(R)
Inv_Verify_cpp == (R.kind = "inst" /\ R.cpp.present) => SameVerify(R.cpp, R.py)
Inv_Verify_java == (R.kind = "inst" /\ R.java.present) => SameVerify(R.java, R.py)
Inv_Json_cpp == (R.kind = "inst" /\ R.cpp.present) => SameJson(R.cpp, R.py)
Inv_Docs_cpp == (R.kind = "doc" /\ R.cpp.present) => SameDoc(R.cpp, R.py)
Inv_Consts_cpp == (R.kind = "consts" /\ R.cpp.present) => SameConsts(R.cpp, R.py)
Inv_Consts_java == (R.kind = "consts" /\ R.java.present) => SameConsts(R.java, R.py)
Inv_Enums_cpp == (R.kind = "enums" /\ R.cpp.present) => SameEnums(R.cpp, R.py)
Inv_Enums_java == (R.kind = "enums" /\ R.java.present) => SameEnums(R.java, R.py)

(* ---- the Python SDK against the reference semantics ------------------------------------------------ *)
RefVerifyOk(r) == r.py.built /\ r.py.verified /\ ErrSet(r.py.errors) = RefErrors(ModelOf(r), r.x)
RefJsonOk(r) == r.py.serialized /\ JsonEq(r.py.json, ToJsonable(ModelOf(r), r.x))
RefDocVerdict(r) == FromJsonable(ModelOf(r), RootOf(r), r.doc)
RefDocOk(r) ==
  LET v == RefDocVerdict(r) IN
  CASE v.r = "rej" -> ~r.py.accepted
    [] v.r = "ok" -> r.py.accepted /\ JsonEq(r.py.json, ToJsonable(ModelOf(r), v.x))
    [] OTHER -> TRUE
RefConstsOk(r) ==
  LET m == ModelOf(r) IN
  /\ Len(r.py.values) = Len(m.consts)
  /\ \A q \in 1..Len(m.consts) : r.py.values[q].name = m.consts[q].name /\ r.py.values[q].ok
                                 /\ ConstEq(r.py.values[q].value, ConstRef(m, m.consts[q]))
RefEnumsOk(r) ==
  LET m == ModelOf(r) IN
  /\ Len(r.py.values) = Len(m.enums)
  /\ \A q \in 1..Len(m.enums) :
        /\ r.py.values[q].name = m.enums[q].name
        /\ r.py.values[q].texts = EnumTexts(m, m.enums[q].name)
        /\ r.probes[q].name = m.enums[q].name
        /\ r.py.values[q].parsed = [p \in 1..Len(r.probes[q].texts) |-> EnumParse(m, m.enums[q].name, r.probes[q].texts[p])]

Inv_Ref_Builds == (R.kind = "build" /\ R.target = "py") => R.status = "ok"
Inv_Ref_Verify == R.kind = "inst" => RefVerifyOk(R)
Inv_Ref_Json == R.kind = "inst" => RefJsonOk(R)
Inv_Ref_Docs == R.kind = "doc" => RefDocOk(R)
Inv_Ref_Consts == R.kind = "consts" => RefConstsOk(R)
Inv_Ref_Enums == R.kind = "enums" => RefEnumsOk(R)

(* ---- non-vacuity counters (evaluated once) ------------------------------------------------------------- *)
Idx(kind) == {n \in 1..Len(Obs) : Obs[n].kind = kind}
\* an instance is non-trivial when some invariant fails on it; Inv_Ref_Verify ties the Python SDK's list to RefErrors
NFailing == Cardinality({n \in Idx("inst") : Len(Obs[n].py.errors) > 0})
NDocRej == Cardinality({n \in Idx("doc") : RefDocVerdict(Obs[n]).r = "rej"})
NDocOk == Cardinality({n \in Idx("doc") : RefDocVerdict(Obs[n]).r = "ok"})
NDocEither == Cardinality({n \in Idx("doc") : RefDocVerdict(Obs[n]).r = "either"})
ASSUME PrintT(<<"@@PRINT@@ counts", Cardinality(Idx("inst")), NFailing, Cardinality(Idx("doc")), NDocRej, NDocOk, NDocEither>>)
=============================================================================
