INIT Init
NEXT Next
