---- MODULE YieldTrace ----
(* V phase of C26: Cases are (TLC-generated or captured flow, what the REAL linearize_to_subroutines *)
(* returned for it, projected to data). TLC runs the product machine of YieldMachine.tla on them.   *)
EXTENDS YieldMachine, Json, IOUtils
Obs == JsonDeserialize(IOEnv.VERIF_OBS)
\* every record linearized without an exception? (records with outcome # "ok" carry subs = <<>>)
Linearized == Obs[c].outcome = "ok"
\* non-vacuity counters
NCond == Cardinality({n \in 1..Len(Obs) : CountKind(Obs[n].flow, {"ift", "iff", "while", "for"}) > 0})
NYield == Cardinality({n \in 1..Len(Obs) : CountKind(Obs[n].flow, {"yield"}) > 0})
NMulti == Cardinality({n \in 1..Len(Obs) : Len(Obs[n].subs) > 1})
ASSUME PrintT(<<"@@PRINT@@ counters", Len(Obs), NCond, NYield, NMulti>>)
====
