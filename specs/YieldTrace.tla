---- MODULE YieldTrace ----
(* V phase of C26: Obs are (TLC-generated or captured flow, what the REAL linearize_to_subroutines *)
(* returned for it, projected to data). TLC runs the product machine of YieldMachine.tla on them:  *)
(* one initial state per record, all condition-outcome sequences explored.                         *)
EXTENDS Yield, Json, IOUtils
VARIABLES c, ph, sk, loc, idle, spent
Obs == JsonDeserialize(IOEnv.VERIF_OBS)
M == INSTANCE YieldMachine WITH Cases <- Obs, Budget <- 0
Spec == M!Spec
\* the real function returned (records with outcome # "ok" carry subs = <<>>)
Linearized == ph = "first" => Obs[c].outcome = "ok"
SameEvents == Obs[c].outcome = "ok" => M!SameEvents
NoSilentCycle == M!NoSilentCycle
LabelsAreConsecutive == M!LabelsAreConsecutive
AllTargetsExist == M!AllTargetsExist
StackBounded == M!StackBounded
\* non-vacuity counters
NCond == Cardinality({n \in 1..Len(Obs) : CountKind(Obs[n].flow, {"ift", "iff", "while", "for"}) > 0})
NYield == Cardinality({n \in 1..Len(Obs) : CountKind(Obs[n].flow, {"yield"}) > 0})
NMulti == Cardinality({n \in 1..Len(Obs) : Len(Obs[n].subs) > 1})
NNontrivial == Cardinality({n \in 1..Len(Obs) : CountKind(Obs[n].flow, {"ift", "iff", "while", "for"}) > 0 /\ Len(Flatten(Obs[n].subs)) > 1})
ASSUME PrintT(<<"@@PRINT@@ counters", Len(Obs), NCond, NYield, NMulti, NNontrivial>>)
====
