---- MODULE RulesGen ----
(* G phase for C06: the templates and every meta-model reachable from them by <= Depth mutations. *)
EXTENDS RulesMut, Json, IOUtils, SequencesExt
CONSTANTS Depth
CasesAt(d) == {[m |-> c.m, applied |-> c.applied, depth |-> d] : c \in Level(d)}
Cases == UNION {CasesAt(d) : d \in 0..Depth}
ASSUME JsonSerialize(IOEnv.VERIF_OUT, SetToSeq(Cases))
ASSUME PrintT(<<"@@PRINT@@ cases", Cardinality(Cases)>>)
VARIABLE dummy
Init == dummy = 0
Next == UNCHANGED dummy
====
