------------------------- MODULE ConstraintsDocTrace -------------------------
(* V phase of C11 and C12.                                                                               *)
(*   Sch[n]   = [scn, gen \in {"ok","failed","exception"}, draft_ok, refs_ok, sdk, ...]   one per scenario *)
(*   Cases[n] = [scn, case, sdk_valid, accepted, ...]                                     one per document *)
(* One initial state per record; `what` says which array `i` indexes.                                    *)
EXTENDS ConstraintsDocs, Json, IOUtils, TLC

Obs == JsonDeserialize(IOEnv.VERIF_OBS)
Sch == Obs.schemas
Cases == Obs.cases

VARIABLES what, i
Init == \/ what = "schema" /\ i \in 1..Len(Sch)
        \/ what = "case" /\ i \in 1..Len(Cases)
Next == UNCHANGED <<what, i>>

-----------------------------------------------------------------------------
(* C11, first sentence: the schema conforms to its declared draft and every $ref resolves                *)
Inv_SchemaValid == what = "schema" /\ Sch[i].gen = "ok" => Sch[i].draft_ok /\ Sch[i].refs_ok

\* an exception escaping the generator leaves an accepted meta-model without any schema (an error REPORT is a
\* legitimate refusal and is C02's subject; a crash cannot satisfy "the generated schema is valid")
Inv_GenerationDoesNotRaise == what = "schema" => Sch[i].gen # "exception"

(* C11, second sentence: every document the SDK produces from an instance satisfying all invariants validates *)
C == Cases[i]
IsValidDoc == what = "case" /\ C.case.mut = "none" /\ C.sdk_valid
Inv_ValidAdmitted == IsValidDoc /\ SpecValid(C.scn, C.case) => C.accepted

\* the spec's own notion of "satisfies all invariants" must agree with the generated verification (oracle self-check;
\* a disagreement is a machinery failure, or C08's business, never a C11 verdict)
Inv_OracleAgrees == what = "case" /\ C.case.mut = "none" => (C.sdk_valid <=> SpecValid(C.scn, C.case))

(* code -> spec: the repository's own example documents, validated against the schema generated now     *)
Inv_CorpusExpectedAdmitted   == what = "case" /\ C.declared = "valid" => C.accepted
Inv_CorpusUnexpectedRejected == what = "case" /\ C.declared = "invalid" => ~C.accepted

(* C12: single-constraint violations and structural mutations are rejected, the stated exclusions apart *)
Inv_ViolationRejected == what = "case" /\ C.case.mut \in {"len", "ilen", "pat", "ipat"} /\ MustReject(C.scn, C.case) => ~C.accepted
Inv_ModelTypeEnforced == what = "case" /\ C.case.mut \in {"mt_wrong", "mt_missing"} /\ MustReject(C.scn, C.case) => ~C.accepted
Inv_RequiredEnforced  == what = "case" /\ C.case.mut \in {"req_missing", "root_req_missing"} /\ MustReject(C.scn, C.case) => ~C.accepted
Inv_TypeEnforced      == what = "case" /\ C.case.mut = "mistyped" /\ MustReject(C.scn, C.case) => ~C.accepted
\* the generated verification must see a value-level violation too (it is a violation of an invariant)
Inv_ViolationIsInvalid == what = "case" /\ IsViolation(C.scn, C.case) => ~C.sdk_valid

-----------------------------------------------------------------------------
(* Structural fingerprints and counters                                                                  *)
HasUnrecForm(S, f) == \E a \in AllAtoms(S) : f \in UnrecognisedForms(a)
NegativeBound(S) == \E a \in AllAtoms(S) : a.k = "len" /\ a.form = "const" /\ a.op # "!=" /\ ~IndividuallySat(a, MaxLen)
ZeroBound(S) == \E a \in AllAtoms(S) : a.k = "len" /\ Recognised(a) /\ LenBody(a, 0, 0) /\ ~LenBody(a, -1, 0)
SchemaCause(S) == IF NegativeBound(S) THEN "negative_bound"
                  ELSE IF HasUnrecForm(S, "foreign_guard") THEN "foreign_guard"
                  ELSE IF SomeUnsat(S, MaxLen) THEN "unsat"
                  ELSE IF ZeroBound(S) THEN "zero_min"
                  ELSE "plain"
CaseCause(S, c) == IF IsStructural(c)
                   THEN (IF c.mut \in {"mt_wrong", "mt_missing"} /\ Depth(S) = 1 THEN "leaf_with_model_type" ELSE "plain")
                   ELSE IF HasUnrecForm(S, "foreign_guard") THEN "foreign_guard"
                   ELSE IF S.kind = "bytes" /\ \E a \in AllAtoms(S) : a.k = "len" /\ Recognised(a) THEN "bytes_length"
                   ELSE "plain"
SchKeys == [n \in 1..Len(Sch) |-> [cause |-> SchemaCause(Sch[n].scn), kind |-> Sch[n].scn.kind, origin |-> Sch[n].origin,
                                   multi_parent |-> (Sch[n].scn.shape # "chain")]]
CaseKeys == [n \in 1..Len(Cases) |->
               LET S == Cases[n].scn  c == Cases[n].case
               IN  [cause |-> CaseCause(S, c), kind |-> S.kind, mut |-> c.mut, origin |-> Cases[n].origin,
                    spec_valid |-> SpecValid(S, c), violation |-> IsViolation(S, c), excluded |-> Excluded(S, c),
                    must_reject |-> MustReject(S, c),
                    sources |-> IF c.mut \in {"len", "ilen"} THEN {<<x[1], x[2]>> : x \in ViolationSources(S, c)} ELSE {},
                    tightening |-> (c.mut = "len" /\ c.k > 1 /\ Tightens(S, c.k, "v", MaxLen))]]
ASSUME JsonSerialize(IOEnv.VERIF_KEYS, [schemas |-> SchKeys, cases |-> CaseKeys])
=============================================================================
