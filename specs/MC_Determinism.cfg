SPECIFICATION Spec
CONSTANTS
  Plan <- QuickPlan
  LeakSets <- AllLeakSets
INVARIANT PlanFeasible
INVARIANT Exposed
INVARIANT CleanPasses
PROPERTY Completes
