INIT Init
NEXT Next
CONSTANTS
  Wide = TRUE
  BatchSize = 24
  NInst = 90
  StrLen = 4
