SPECIFICATION Spec
CONSTANTS
  MaxDepth = 1
INVARIANT TemplatesWellFormed
INVARIANT BreakViolatesItsRule
