------------------------------ MODULE VerifTrace ------------------------------
(* V phase of C08 (instances). Models == the meta-models as run (what the real code accepted);   *)
(* Obs == one record per (model, instance): what `verification.verify` of the generated SDK      *)
(* reported — outcome "ok" with the (path, cause) pairs, or "raised" — and, for the S phase,     *)
(* what direct CPython evaluation of the meta-model's own lambdas gives for the same instance.   *)
EXTENDS Verif, Json, IOUtils

Models == JsonDeserialize(IOEnv.VERIF_MODELS)
Obs == JsonDeserialize(IOEnv.VERIF_OBS)
VARIABLES i, v

Pairs(errs) == {<<errs[k].path, errs[k].cause>> : k \in 1..Len(errs)}

Verdict(n) ==
    LET o == Obs[n]
        M == Models[o.m]
        evs == Evaluations(M, o.inst)
        idx == 1..Len(evs)
        mustRaise == \E k \in idx : IsErr(evs[k].r)
        undefined == \E k \in idx : IsErr(evs[k].r) /\ evs[k].r.e = "SpecLimit"
        expected == {<<evs[k].path, evs[k].d>> : k \in {j \in idx : IsFalse(evs[j].r)}}
        observed == Pairs(o.errors)
        pyObserved == Pairs(o.py_errors)
        missing == expected \ observed
        spurious == observed \ expected
        exact == o.outcome = "ok" /\ ~mustRaise => (missing = {} /\ spurious = {} /\ Len(o.errors) = Cardinality(observed))
        \* when an invariant raises and verification does not, what it reports must still be right
        partial == o.outcome = "ok" /\ mustRaise => spurious = {}
        \* an observed cause that is no description of the model at all: some description did not come back verbatim
        garbled == {p \in spurious : \A k \in idx : evs[k].d # p[2]}
        \* ... the invariant it belongs to: the one with the same identity (the leading words of the description,
        \* projected by the runner into `id`) at the same path, else any expected error missing at that path
        garbledIdx == {j \in 1..Len(o.errors) : <<o.errors[j].path, o.errors[j].cause>> \in garbled}
        gj == IF garbledIdx = {} THEN 0 ELSE CHOOSE j \in garbledIdx : TRUE
        byId == IF gj = 0 THEN {} ELSE {k \in idx : evs[k].path = o.errors[gj].path /\ evs[k].id = o.errors[gj].id}
        garbledOf == IF byId # {} THEN {<<evs[k].path, evs[k].d>> : k \in byId} ELSE {p \in missing : \E q \in garbled : q[1] = p[1]}
        culprit == IF garbledOf # {} THEN CHOOSE p \in garbledOf : TRUE
                   ELSE IF missing # {} THEN CHOOSE p \in missing : TRUE ELSE IF spurious # {} THEN CHOOSE p \in spurious : TRUE ELSE <<"", "">>
        hits == {k \in idx : evs[k].path = culprit[1] /\ evs[k].d = culprit[2]}
        kind == IF garbled # {} THEN "description"
                ELSE IF missing # {} THEN "missing"
                ELSE IF spurious # {} THEN
                    (IF hits # {} THEN "spurious"
                     ELSE IF \E k \in idx : evs[k].d = culprit[2] THEN "path" ELSE "unknown")
                ELSE IF Len(o.errors) # Cardinality(observed) THEN "duplicate" ELSE ""
        hit == IF hits = {} THEN 0 ELSE CHOOSE k \in hits : TRUE
        raiser == IF mustRaise THEN CHOOSE k \in idx : IsErr(evs[k].r) ELSE 0
    IN  [done |-> TRUE, s_ok |-> (o.py_outcome = "raised") = mustRaise /\ (~mustRaise => pyObserved = expected),
         defined |-> ~undefined,
         raise_ok |-> o.outcome = "raised" => mustRaise,
         exact_ok |-> exact /\ partial,
         kind |-> kind, path |-> culprit[1], cause |-> culprit[2],
         feature |-> IF hit = 0 THEN "" ELSE Feature(evs[hit].e),
         dshape |-> IF hit = 0 THEN "" ELSE evs[hit].ds,
         owner |-> IF hit = 0 THEN "" ELSE evs[hit].owner,
         inherited |-> IF hit = 0 THEN FALSE ELSE evs[hit].inherited,
         must_raise |-> mustRaise,
         raiser |-> IF raiser = 0 THEN "" ELSE evs[raiser].r.c,
         nevals |-> Len(evs), nfalse |-> Cardinality(expected)]

\* Two steps per observation: the initial state only picks it, the step computes the verdict (TLC evaluates
\* initial states twice and single-threaded; steps once and by all workers).
Todo == [done |-> FALSE]
Init == i \in 1..Len(Obs) /\ v = Todo
Next == ~v.done /\ i' = i /\ v' = Verdict(i)

\* S — the specification's expectation equals direct CPython evaluation of the meta-model's lambdas
Inv_SpecMatchesPython == v.done => v.s_ok
Inv_Defined == v.done => v.defined

\* the clauses of C08 about instances
Inv_RaisesOnlyIfInvariantRaises == v.done => v.raise_ok
Inv_ErrorsExactlyFalseInvariants == v.done => v.exact_ok
=============================================================================
