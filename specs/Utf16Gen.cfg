INIT Init
NEXT Next
CONSTANTS
  Wide = FALSE
  AlphaCap = 8
  LenCap = 3
  Budget = 300
