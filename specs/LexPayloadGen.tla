---------------------------- MODULE LexPayloadGen ----------------------------
(* G phase of C20: the texts put into descriptions, invariant messages and constants.      *)
(* A payload is a sequence of at most MaxFragments fragments. Every fragment has the form  *)
(* it takes inside a description (reStructuredText source, escaped so that docutils may    *)
(* accept it) and the plain form it takes in an invariant message or a string constant.    *)
(* A case puts the payload at the end, at the start or in the middle of a harmless text,   *)
(* or at the end of a long one (targets choose other layouts for long texts).              *)
EXTENDS Integers, Sequences, FiniteSets, Json, IOUtils, TLC, SequencesExt
CONSTANTS MaxFragments, MaxPatternFragments
Fragments ==
  <<[rst |-> <<34>>, plain |-> <<34>>],   \*  1: double quote
    [rst |-> <<34, 34, 34>>, plain |-> <<34, 34, 34>>],   \*  2: three double quotes
    [rst |-> <<39>>, plain |-> <<39>>],   \*  3: single quote
    [rst |-> <<92, 92>>, plain |-> <<92>>],   \*  4: backslash (escaped for reStructuredText)
    [rst |-> <<92, 42, 47>>, plain |-> <<42, 47>>],   \*  5: block comment end
    [rst |-> <<47, 92, 42>>, plain |-> <<47, 42>>],   \*  6: block comment start
    [rst |-> <<47, 47>>, plain |-> <<47, 47>>],   \*  7: line comment start
    [rst |-> <<60, 33, 45, 45>>, plain |-> <<60, 33, 45, 45>>],   \*  8: XML comment start
    [rst |-> <<45, 45, 62>>, plain |-> <<45, 45, 62>>],   \*  9: XML comment end
    [rst |-> <<60, 47, 115, 117, 109, 109, 97, 114, 121, 62>>, plain |-> <<60, 47, 115, 117, 109, 109, 97, 114, 121, 62>>],   \* 10: end tag of the C# summary element
    [rst |-> <<38>>, plain |-> <<38>>],   \* 11: ampersand
    [rst |-> <<60>>, plain |-> <<60>>],   \* 12: less than
    [rst |-> <<62>>, plain |-> <<62>>],   \* 13: greater than
    [rst |-> <<92, 96>>, plain |-> <<96>>],   \* 14: backtick
    [rst |-> <<36, 123>>, plain |-> <<36, 123>>],   \* 15: template substitution start
    [rst |-> <<10, 10>>, plain |-> <<10>>],   \* 16: paragraph break / line feed
    [rst |-> <<92, 42>>, plain |-> <<42>>],   \* 17: star
    [rst |-> <<32>>, plain |-> <<32>>],   \* 18: space
    [rst |-> <<119>>, plain |-> <<119>>],   \* 19: a word
    [rst |-> <<96, 96, 42, 47, 96, 96>>, plain |-> <<42, 47>>],   \* 20: block comment end inside an inline literal
    [rst |-> <<92, 92, 117, 48, 48, 48, 97>>, plain |-> <<92, 117, 48, 48, 48, 97>>],   \* 21: Java Unicode escape of a line feed, as text
    [rst |-> <<92, 92, 117, 48, 48, 50, 97, 47>>, plain |-> <<92, 117, 48, 48, 50, 97, 47>>],   \* 22: Java Unicode escape of a star, then slash
    [rst |-> <<10>>, plain |-> <<10>>],   \* 23: single line feed inside a paragraph
    [rst |-> <<8232>>, plain |-> <<8232>>],   \* 24: LINE SEPARATOR U+2028
    [rst |-> <<123>>, plain |-> <<123>>],   \* 25: opening brace
    [rst |-> <<93, 93, 62>>, plain |-> <<93, 93, 62>>],   \* 26: CDATA section end
    [rst |-> <<60, 33, 91, 67, 68, 65, 84, 65, 91>>, plain |-> <<60, 33, 91, 67, 68, 65, 84, 65, 91>>],   \* 27: CDATA section start
    [rst |-> <<60, 63>>, plain |-> <<60, 63>>],   \* 28: processing instruction start
    [rst |-> <<38, 108, 116, 59>>, plain |-> <<38, 108, 116, 59>>],   \* 29: entity reference as text
    [rst |-> <<38, 35, 54, 48, 59>>, plain |-> <<38, 35, 54, 48, 59>>],   \* 30: character reference as text
    [rst |-> <<42, 119, 42>>, plain |-> <<119>>],   \* 31: emphasised word (an inline node of its own)
    [rst |-> <<47>>, plain |-> <<47>>],   \* 32: slash
    [rst |-> <<96, 96, 119, 96, 96>>, plain |-> <<119>>] >>   \* 33: inline literal (an inline node of its own)
NF == Len(Fragments)
\* "longtail": after a harmless text so long that a target switches to its multi-line form (Python docstrings at 64)
Layouts == {"tail", "head", "mid", "longtail"}
W == <<87>>                      \* the harmless text: W
LongW == [i \in 1..78 |-> IF i % 6 = 0 THEN 32 ELSE 87]   \* WWWWW WWWWW ... (78 characters)
RECURSIVE Cat(_, _)
Cat(ids, field) == IF ids = <<>> THEN <<>>
                   ELSE (IF field = "rst" THEN Fragments[Head(ids)].rst ELSE Fragments[Head(ids)].plain) \o Cat(Tail(ids), field)
Place(layout, p) == CASE layout = "tail" -> W \o <<32>> \o p
                      [] layout = "head" -> p \o <<32>> \o W
                      [] layout = "mid" -> W \o <<32>> \o p \o <<32>> \o W
                      [] layout = "longtail" -> LongW \o <<32>> \o p
IdSeqs == UNION {[1..k -> 1..NF] : k \in 1..MaxFragments}
Cases == {[ids |-> ids, layout |-> l, rst |-> Place(l, Cat(ids, "rst")), plain |-> Place(IF l = "longtail" THEN "tail" ELSE l, Cat(ids, "plain"))] : ids \in IdSeqs, l \in Layouts}
\* (the long text is for descriptions only: invariant messages stay short, long ones are wrapped into several literals)

(* Patterns: the same idea for the regular expression of a verification function, which the targets *)
(* put into string literals, into XSD / JSON schema and (C++) into comments next to the compiled     *)
(* program. A fragment is regular-expression source denoting n literal characters; a pattern is      *)
(* padded with z to PatternWidth characters so that all patterns have the shape of the twin's.       *)
PatternFragments ==
  <<[re |-> <<34>>, n |-> 1],   \*  1: double quote
    [re |-> <<39>>, n |-> 1],   \*  2: single quote
    [re |-> <<92, 92>>, n |-> 1],   \*  3: backslash
    [re |-> <<92, 42, 47>>, n |-> 2],   \*  4: block comment end
    [re |-> <<47, 92, 42>>, n |-> 2],   \*  5: block comment start
    [re |-> <<47, 47>>, n |-> 2],   \*  6: line comment start
    [re |-> <<60, 33, 45, 45>>, n |-> 4],   \*  7: XML comment start
    [re |-> <<45, 45, 62>>, n |-> 3],   \*  8: XML comment end
    [re |-> <<38>>, n |-> 1],   \*  9: ampersand
    [re |-> <<60>>, n |-> 1],   \* 10: less than
    [re |-> <<62>>, n |-> 1],   \* 11: greater than
    [re |-> <<96>>, n |-> 1],   \* 12: backtick
    [re |-> <<92, 36, 92, 123>>, n |-> 2],   \* 13: template substitution start
    [re |-> <<92, 110>>, n |-> 1],   \* 14: line feed (as the escape \n)
    [re |-> <<92, 93, 92, 93, 62>>, n |-> 3],   \* 15: CDATA end
    [re |-> <<92, 117, 50, 48, 50, 56>>, n |-> 1],   \* 16: LINE SEPARATOR (as the escape \u2028)
    [re |-> <<92, 120, 48, 48>>, n |-> 1],   \* 17: NUL (as the escape \x00)
    [re |-> <<32>>, n |-> 1] >>   \* 18: space
NPF == Len(PatternFragments)
PatternWidth == 6
RECURSIVE PCat(_)
PCat(ids) == IF ids = <<>> THEN <<>> ELSE PatternFragments[Head(ids)].re \o PCat(Tail(ids))
RECURSIVE PLen(_)
PLen(ids) == IF ids = <<>> THEN 0 ELSE PatternFragments[Head(ids)].n + PLen(Tail(ids))
Zs(n) == [i \in 1..n |-> 122]
PIdSeqs == UNION {[1..k -> 1..NPF] : k \in 1..MaxPatternFragments}
PatternCases == {[ids |-> ids, re |-> Zs(PatternWidth - PLen(ids)) \o PCat(ids)] : ids \in {x \in PIdSeqs : PLen(x) <= PatternWidth}}
               \cup {[ids |-> ids, re |-> PCat(ids) \o Zs(PatternWidth - PLen(ids))] : ids \in {x \in PIdSeqs : PLen(x) < PatternWidth}}
TwinPattern == Zs(PatternWidth)

ASSUME JsonSerialize(IOEnv.VERIF_OUT, [payloads |-> SetToSeq(Cases), patterns |-> SetToSeq(PatternCases), twin_pattern |-> TwinPattern,
                                        fragments |-> Fragments, pattern_fragments |-> PatternFragments])
ASSUME PrintT(<<"@@PRINT@@ cases", Cardinality(Cases), Cardinality(PatternCases)>>)
VARIABLE dummy
Init == dummy = 0
Next == UNCHANGED dummy
=============================================================================
