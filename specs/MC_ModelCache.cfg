SPECIFICATION Spec
CONSTANTS
  Runs = {r1, r2}
  Texts = {t1, t2}
  Chunks = 2
  UniqueTmp = TRUE
  DirectWrite = FALSE
  MaxStarts = 3
INVARIANT TypeOK
INVARIANT NoPartialRead
INVARIANT NoForeignRead
INVARIANT Transparent
INVARIANT FinalAlwaysComplete
INVARIANT OnlyTmpGarbage
INVARIANT OptIn
INVARIANT ReuseOnlySameText
PROPERTY PublishedStable
