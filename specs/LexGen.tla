------------------------------- MODULE LexGen -------------------------------
(* G phase of C19: the strings every literal emitter is called with.                     *)
(* All strings of length <= MaxLen over the class alphabet of DESIGN 6 C19, plus all     *)
(* strings of length SmallLen over a sub-alphabet of the units that take part in escapes *)
(* (hex-digit neighbours, quotes, backslash, template units), plus random strings of     *)
(* length 3 and 4 over the class alphabet (TLC's RandomSubset, seeded by -seed).         *)
EXTENDS Lexers, Json, IOUtils, TLC, Randomization, SequencesExt
CONSTANTS MaxLen, SmallLen, SmallSize, NSample3, NSample4

Alphabet == ClassAlphabet

StringsOver(A, n) == UNION {[1..k -> A] : k \in 0..n}
\* NUL U+0001 " \ ` $ { 0 a U+0080 (+ ' x U+00FF U+2028)
Small == IF SmallSize = 10 THEN {0, 1, 34, 92, 96, 36, 123, 48, 97, 128} ELSE SmallAlphabet
Sample(n, len) == IF n = 0 THEN {} ELSE RandomSubset(n, [1..len -> Alphabet])
Cases == StringsOver(Alphabet, MaxLen) \cup [1..SmallLen -> Small] \cup Sample(NSample3, 3) \cup Sample(NSample4, 4)

(* Long strings (C++ compilers limit the length of one literal, emitters may cut a long body into adjacent  *)
(* literals): k plain characters, then n copies of a character that needs a multi-character escape, so that  *)
(* escapes of every width lie across every possible cut position near 8190 escaped characters.               *)
LongCases == {[i \in 1..k |-> 97] \o [i \in 1..un[2] |-> un[1]] : k \in 0..1, un \in {<<1, 2100>>, <<256, 1400>>, <<128512, 850>>}}
ASSUME JsonSerialize(IOEnv.VERIF_OUT, SetToSeq(Cases) \o SetToSeq(LongCases))
ASSUME PrintT(<<"@@PRINT@@ cases", Cardinality(Cases)>>)
VARIABLE dummy
Init == dummy = 0
Next == UNCHANGED dummy
=============================================================================
