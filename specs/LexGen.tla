------------------------------- MODULE LexGen -------------------------------
(* G phase of C19: the strings every literal emitter is called with.                     *)
(* All strings of length <= MaxLen over the class alphabet of DESIGN 6 C19, plus all     *)
(* strings of length MaxLen + 1 over the sub-alphabet SmallAlphabet (the units that take *)
(* part in escapes: hex-digit neighbours, quotes, backslash, template units), plus       *)
(* NSample random strings of length SampleLen (TLC's RandomSubset, seeded by -seed).     *)
EXTENDS Lexers, Json, IOUtils, TLC, Randomization, SequencesExt
CONSTANTS MaxLen, SmallLen, NSample, SampleLen

Alphabet == ClassAlphabet

StringsOver(A, n) == UNION {[1..k -> A] : k \in 0..n}
Cases == StringsOver(Alphabet, MaxLen)
         \cup [1..SmallLen -> SmallAlphabet]
         \cup (IF NSample = 0 THEN {} ELSE RandomSubset(NSample, [1..SampleLen -> Alphabet]))

ASSUME JsonSerialize(IOEnv.VERIF_OUT, SetToSeq(Cases))
ASSUME PrintT(<<"@@PRINT@@ cases", Cardinality(Cases)>>)
VARIABLE dummy
Init == dummy = 0
Next == UNCHANGED dummy
=============================================================================
