SPECIFICATION Spec
CONSTANTS
  MCUnits <- UnitsDeep
  MaxLevel = 40
  MaxPfx = 1
VIEW View
CONSTRAINT Bound
INVARIANT TypeOK
INVARIANT EscapeInsideLiteral
INVARIANT CodeIsClean
INVARIANT HolesOnlyWhereTheyExist
INVARIANT JavaStageOneOnlyJava
INVARIANT FinishTotal
PROPERTY ErrSticky
PROPERTY SkeletonIgnoresEnvelopeContent
PROPERTY SkeletonSeesCode
