INIT Init
NEXT Next
CONSTANTS
  Depth = 1
