---------------------------- MODULE MC_ExprSound ----------------------------
(* M phase of C07/C08 (design level, no repo code): the reference type system of Expr.tla is    *)
(* sound for the evaluator — every tree of the grammar that is WellTyped evaluates, on every    *)
(* type-conforming instance, to a boolean or raises IndexError (the property's sentence).       *)
(* So a checker that accepts exactly the WellTyped trees would satisfy C07 on this grammar, and *)
(* WellTyped is a legitimate way to pick "clean" invariants for C08. A violation here is an     *)
(* error of the specification (machinery failure), never a verdict about the repository.       *)
EXTENDS ExprSchema
CONSTANT Wide
VARIABLE e

WellTypedTrees == {t \in Trees(Wide) : SubjectWellTyped(t)}
Init == e \in WellTypedTrees
Next == UNCHANGED e

Sound == LET insts == Force(InstSeq(e)) IN \A k \in 1..Len(insts) : RunsFine(EvalOn(e, insts[k]))
\* the stratum is not empty and not everything
ASSUME PrintT(<<"@@PRINT@@ welltyped", Cardinality(WellTypedTrees), Cardinality(Trees(Wide))>>)
ASSUME WellTypedTrees # {} /\ WellTypedTrees # Trees(Wide)
=============================================================================
