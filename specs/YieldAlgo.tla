----------------------------- MODULE YieldAlgo -----------------------------
(* C26, design level (M): the linearization algorithm of yielding/linear.py transcribed pass by    *)
(* pass.  Every intermediate program is a flat list of labelled statements; the last pass splits   *)
(* it into subroutines.                                                                            *)
(*    P1 = _linearize_control_flow       (recursive descent, a fresh label per statement,          *)
(*                                        a labelled no-op as the join point of every if / loop)  *)
(*    P2 = _remove_redundant_labels_in_place (labels that are no target are dropped)               *)
(*    P3 = _remove_noops_in_place        (no-op blocks melt into the following statement, targets  *)
(*                                        are re-wired; one trailing no-op may remain)            *)
(*    P4 = _fix_labels_in_place          (label on the first statement and after every yield,     *)
(*                                        then labels renumbered 0, 1, 2, ... in program order)   *)
(*    P5 = _split_in_subroutines         (a new subroutine at every labelled statement)            *)
(* MC_YieldAlgo runs the product machine of YieldMachine.tla on (flow, Pi(flow)) for every flow of *)
(* the small scope and every i: each pass preserves the behaviour of the structured flow, and P5   *)
(* satisfies the static clauses. This module is never used as the oracle for the real code.        *)
EXTENDS Yield

S(k, label, code, onT, onF, target) == Stmt(k, label, code, onT, onF, target)
CmdS(code, label) == S("cmd", label, code, None, None, None)
IfS(code, label, onT, onF) == S("if", label, code, onT, onF, None)
JumpS(target, label) == S("jump", label, 0, None, None, target)
YieldS(label) == S("yield", label, 0, None, None, None)
NoopS(label) == S("noop", label, 0, None, None, None)

R(st, next) == [st |-> st, next |-> next]

-----------------------------------------------------------------------------
(* P1: _linearize_sequence / _linearize_node *)
RECURSIVE LinSeq(_, _)

LinIf(nd, label) ==
    IF nd.hasElse
    THEN LET b == LinSeq(nd.body, label + 1)
             jumpLabel == b.next
             branch == jumpLabel + 1                  \* on_false of IfTrue / on_true of IfFalse
             e == LinSeq(nd.els, branch)
             done == e.next
             ifs == IF nd.k = "ift" THEN IfS(nd.code, label, None, branch) ELSE IfS(nd.code, label, branch, None)
         IN  R(<<ifs>> \o b.st \o <<JumpS(done, jumpLabel)>> \o e.st \o <<NoopS(done)>>, done + 1)
    ELSE LET b == LinSeq(nd.body, label + 1)
             done == b.next
             pad == IF Len(b.st) = 0 THEN <<NoopS(done)>> ELSE <<>>   \* as written; dead for well-formed flows
             ifs == IF nd.k = "ift" THEN IfS(nd.code, label, None, done) ELSE IfS(nd.code, label, done, None)
         IN  R(<<ifs>> \o pad \o b.st \o <<NoopS(done)>>, done + 1)

LinFor(nd, label) ==
    LET pre == IF nd.init # 0 THEN <<CmdS(nd.init, label)>> ELSE <<>>
        ifLabel == IF nd.init # 0 THEN label + 1 ELSE label
        b == LinSeq(nd.body, ifLabel + 1)
        iterLabel == b.next
        jumpLabel == iterLabel + 1
        done == jumpLabel + 1
    IN  R(pre \o <<IfS(nd.code, ifLabel, None, done)>> \o b.st
          \o <<CmdS(nd.iter, iterLabel), JumpS(ifLabel, jumpLabel), NoopS(done)>>, done + 1)

LinWhile(nd, label) ==
    LET b == LinSeq(nd.body, label + 1)
        jumpLabel == b.next
        done == jumpLabel + 1
    IN  R(<<IfS(nd.code, label, None, done)>> \o b.st \o <<JumpS(label, jumpLabel), NoopS(done)>>, done + 1)

LinNode(nd, label) ==
    (CASE nd.k = "cmd" -> R(<<CmdS(nd.code, label)>>, label + 1)
       [] nd.k = "yield" -> R(<<YieldS(label)>>, label + 1)
       [] nd.k \in {"ift", "iff"} -> LinIf(nd, label)
       [] nd.k = "for" -> LinFor(nd, label)
       [] nd.k = "while" -> LinWhile(nd, label))

LinSeq(ns, label) ==
    IF Len(ns) = 0 THEN R(<<>>, label)
    ELSE LET h == LinNode(ns[1], label)
             t == LinSeq(Tail(ns), h.next)
         IN  R(h.st \o t.st, t.next)

P1(flow) == LinSeq(flow, 0).st

-----------------------------------------------------------------------------
(* P2: _remove_redundant_labels_in_place *)
FlatTargets(sts) == UNION {TargetsOfStmt(sts[i]) : i \in 1..Len(sts)}

P2of(sts) == LET ts == FlatTargets(sts)
             IN  [i \in 1..Len(sts) |-> IF sts[i].label \in ts THEN sts[i] ELSE [sts[i] EXCEPT !.label = None]]

-----------------------------------------------------------------------------
(* P3: _remove_noops_in_place *)
Keep(sts) == SelectSeq(sts, LAMBDA st : st.k # "noop" \/ st.label # None)

Rewire(sts, map) ==
    LET f(x) == IF x # None /\ x \in DOMAIN map THEN map[x] ELSE x
    IN  [i \in 1..Len(sts) |->
            IF sts[i].k = "if" THEN [sts[i] EXCEPT !.onT = f(@), !.onF = f(@)]
            ELSE IF sts[i].k = "jump" THEN [sts[i] EXCEPT !.target = f(@)]
            ELSE sts[i]]

EmptyMap == [x \in {} |-> 0]
MapAll(labels, to, map) == [x \in (DOMAIN map) \cup {labels[j] : j \in 1..Len(labels)} |->
                               IF \E j \in 1..Len(labels) : labels[j] = x THEN to ELSE map[x]]

\* the loop over the statements: block = labels of the pending no-op block, out = statements kept so far
RECURSIVE NoopLoop(_, _, _, _, _)
NoopLoop(sts, i, block, map, out) ==
    IF i > Len(sts)
    THEN \* a trailing block is reduced to its first no-op
         IF Len(block) = 0 THEN [out |-> out, map |-> map]
         ELSE [out |-> Append(out, NoopS(block[1])),
               map |-> IF Len(block) > 1 THEN MapAll(Tail(block), block[1], map) ELSE map]
    ELSE LET st == sts[i] IN
         IF st.k = "noop" THEN NoopLoop(sts, i + 1, Append(block, st.label), map, out)
         ELSE IF Len(block) = 0 THEN NoopLoop(sts, i + 1, block, map, Append(out, st))
         ELSE LET newLabel == IF st.label = None THEN block[1] ELSE st.label
              IN  NoopLoop(sts, i + 1, <<>>, MapAll(block, newLabel, map), Append(out, [st EXCEPT !.label = newLabel]))

P3of(sts) == LET r == NoopLoop(Keep(sts), 1, <<>>, EmptyMap, <<>>) IN Rewire(r.out, r.map)

-----------------------------------------------------------------------------
(* P4: _fix_labels_in_place *)
MaxOf(S0) == CHOOSE m \in S0 : \A x \in S0 : x <= m

\* a label on the first statement and after every yield
RECURSIVE AfterYield(_, _, _, _)
AfterYield(sts, i, label, out) ==
    IF i > Len(sts) THEN out
    ELSE IF out[i - 1].k = "yield" /\ sts[i].label = None
         THEN AfterYield(sts, i + 1, label + 1, Append(out, [sts[i] EXCEPT !.label = label]))
         ELSE AfterYield(sts, i + 1, label, Append(out, sts[i]))

Labelled(sts) == SelectSeq(sts, LAMBDA st : st.label # None)

P4of(sts) ==
    IF Len(sts) = 0 THEN sts
    ELSE
    LET fresh == MaxOf({IF sts[i].label # None THEN sts[i].label ELSE 0 : i \in 1..Len(sts)}) + 1
        first == IF sts[1].label = None THEN [sts[1] EXCEPT !.label = fresh] ELSE sts[1]
        fresh2 == IF sts[1].label = None THEN fresh + 1 ELSE fresh
        withYield == AfterYield(sts, 2, fresh2, <<first>>)
        ls == Labelled(withYield)
        map == [x \in {ls[j].label : j \in 1..Len(ls)} |-> (CHOOSE j \in 1..Len(ls) : ls[j].label = x /\ \A j2 \in 1..Len(ls) : ls[j2].label = x => j2 <= j) - 1]
        relabelled == [i \in 1..Len(withYield) |->
                          IF withYield[i].label # None THEN [withYield[i] EXCEPT !.label = map[@]] ELSE withYield[i]]
    IN  Rewire(relabelled, map)

-----------------------------------------------------------------------------
(* P5: _split_in_subroutines *)
RECURSIVE SplitLoop(_, _, _, _)
SplitLoop(sts, i, block, out) ==
    IF i > Len(sts) THEN (IF Len(block) > 0 THEN Append(out, block) ELSE out)
    ELSE IF sts[i].label # None
         THEN SplitLoop(sts, i + 1, <<sts[i]>>, IF Len(block) > 0 THEN Append(out, block) ELSE out)
         ELSE SplitLoop(sts, i + 1, Append(block, sts[i]), out)

P5of(sts) == SplitLoop(sts, 1, <<>>, <<>>)

-----------------------------------------------------------------------------
P2(flow) == P2of(P1(flow))
P3(flow) == P3of(P2(flow))
P4(flow) == P4of(P3(flow))
LinearizeToSubroutines(flow) == IF Len(flow) = 0 THEN <<>> ELSE P5of(P4(flow))

AsProgram(sts) == IF Len(sts) = 0 THEN <<>> ELSE <<sts>>
Phase(flow, p) == (CASE p = 1 -> AsProgram(P1(flow))
                     [] p = 2 -> AsProgram(P2(flow))
                     [] p = 3 -> AsProgram(P3(flow))
                     [] p = 4 -> AsProgram(P4(flow))
                     [] p = 5 -> LinearizeToSubroutines(flow))
=============================================================================
