----------------------------- MODULE YieldAlgo -----------------------------
(* C26, design level (M): the linearization algorithm of yielding/linear.py transcribed pass by    *)
(* pass.  Every intermediate program is a flat list of labelled statements; the last pass splits   *)
(* it into subroutines.                                                                            *)
(*    P1 = _linearize_control_flow       (recursive descent, a fresh label per statement,          *)
(*                                        a labelled no-op as the join point of every if / loop)  *)
(*    P2 = _remove_redundant_labels_in_place (labels that are no target are dropped)               *)
(*    P3 = _remove_noops_in_place        (no-op blocks melt into the following statement, targets  *)
(*                                        are re-wired; one trailing no-op may remain)            *)
(*    P4 = _fix_labels_in_place          (label on the first statement and after every yield,     *)
(*                                        then labels renumbered 0, 1, 2, ... in program order)   *)
(*    P5 = _split_in_subroutines         (a new subroutine at every labelled statement)            *)
(* YieldAlgoGen + YieldTrace run the product machine of YieldMachine.tla on (flow, Pi(flow)) for every flow of *)
(* the small scope and every i: each pass preserves the behaviour of the structured flow, and P5   *)
(* satisfies the static clauses. This module is never used as the oracle for the real code.        *)
EXTENDS Yield

S(k, label, code, onT, onF, target) == Stmt(k, label, code, onT, onF, target)
CmdS(code, label) == S("cmd", label, code, None, None, None)
IfS(code, label, onT, onF) == S("if", label, code, onT, onF, None)
JumpS(target, label) == S("jump", label, 0, None, None, target)
YieldS(label) == S("yield", label, 0, None, None, None)
NoopS(label) == S("noop", label, 0, None, None, None)

R(st, next) == [st |-> st, next |-> next]

-----------------------------------------------------------------------------
(* P1: _linearize_sequence / _linearize_node *)
RECURSIVE LinSeq(_, _)

LinIf(nd, label) ==
    IF nd.hasElse
    THEN Eager(LinSeq(nd.body, label + 1), LAMBDA b :
         LET jumpLabel == b.next
             branch == jumpLabel + 1                  \* on_false of IfTrue / on_true of IfFalse
         IN  Eager(LinSeq(nd.els, branch), LAMBDA e :
             LET done == e.next
                 ifs == IF nd.k = "ift" THEN IfS(nd.code, label, None, branch) ELSE IfS(nd.code, label, branch, None)
             IN  R(<<ifs>> \o b.st \o <<JumpS(done, jumpLabel)>> \o e.st \o <<NoopS(done)>>, done + 1)))
    ELSE Eager(LinSeq(nd.body, label + 1), LAMBDA b :
         LET done == b.next
             pad == IF Len(b.st) = 0 THEN <<NoopS(done)>> ELSE <<>>   \* as written; dead for well-formed flows
             ifs == IF nd.k = "ift" THEN IfS(nd.code, label, None, done) ELSE IfS(nd.code, label, done, None)
         IN  R(<<ifs>> \o pad \o b.st \o <<NoopS(done)>>, done + 1))

LinFor(nd, label) ==
    LET pre == IF nd.init # 0 THEN <<CmdS(nd.init, label)>> ELSE <<>>
        ifLabel == IF nd.init # 0 THEN label + 1 ELSE label
    IN  Eager(LinSeq(nd.body, ifLabel + 1), LAMBDA b :
        LET iterLabel == b.next
            jumpLabel == iterLabel + 1
            done == jumpLabel + 1
        IN  R(pre \o <<IfS(nd.code, ifLabel, None, done)>> \o b.st
              \o <<CmdS(nd.iter, iterLabel), JumpS(ifLabel, jumpLabel), NoopS(done)>>, done + 1))

LinWhile(nd, label) ==
    Eager(LinSeq(nd.body, label + 1), LAMBDA b :
    LET jumpLabel == b.next
        done == jumpLabel + 1
    IN  R(<<IfS(nd.code, label, None, done)>> \o b.st \o <<JumpS(label, jumpLabel), NoopS(done)>>, done + 1))

LinNode(nd, label) ==
    (CASE nd.k = "cmd" -> R(<<CmdS(nd.code, label)>>, label + 1)
       [] nd.k = "yield" -> R(<<YieldS(label)>>, label + 1)
       [] nd.k \in {"ift", "iff"} -> LinIf(nd, label)
       [] nd.k = "for" -> LinFor(nd, label)
       [] nd.k = "while" -> LinWhile(nd, label))

LinSeq(ns, label) ==
    IF Len(ns) = 0 THEN R(<<>>, label)
    ELSE Eager(label, LAMBDA lab :
         Eager(LinNode(ns[1], lab), LAMBDA h :
         Eager(LinSeq(Tail(ns), h.next), LAMBDA t :
             R(h.st \o t.st, t.next))))

P1(flow) == LinSeq(flow, 0).st

-----------------------------------------------------------------------------
(* P2: _remove_redundant_labels_in_place *)
FlatTargets(sts) == UNION {TargetsOfStmt(sts[i]) : i \in 1..Len(sts)}

P2of(sts) == Eager(FlatTargets(sts), LAMBDA ts :
                 [i \in 1..Len(sts) |-> IF sts[i].label \in ts THEN sts[i] ELSE [sts[i] EXCEPT !.label = None]])

-----------------------------------------------------------------------------
(* P3: _remove_noops_in_place *)
Keep(sts) == SelectSeq(sts, LAMBDA st : st.k # "noop" \/ st.label # None)

Rewire(sts, map) ==
    LET f(x) == IF x # None /\ x \in DOMAIN map THEN map[x] ELSE x
    IN  [i \in 1..Len(sts) |->
            IF sts[i].k = "if" THEN [sts[i] EXCEPT !.onT = f(@), !.onF = f(@)]
            ELSE IF sts[i].k = "jump" THEN [sts[i] EXCEPT !.target = f(@)]
            ELSE sts[i]]

EmptyMap == [x \in {} |-> 0]
MapAll(labels, to, map) == [x \in (DOMAIN map) \cup {labels[j] : j \in 1..Len(labels)} |->
                               IF \E j \in 1..Len(labels) : labels[j] = x THEN to ELSE map[x]]

\* the loop over the statements: block = labels of the pending no-op block, out = statements kept so far
RECURSIVE NoopLoop(_, _, _)
NoopLoop(sts, i, acc) ==      \* acc = [block, map, out]
    IF i > Len(sts)
    THEN \* a trailing block is reduced to its first no-op
         IF Len(acc.block) = 0 THEN [out |-> acc.out, map |-> acc.map]
         ELSE [out |-> Append(acc.out, NoopS(acc.block[1])),
               map |-> IF Len(acc.block) > 1 THEN MapAll(Tail(acc.block), acc.block[1], acc.map) ELSE acc.map]
    ELSE LET st == sts[i]
             acc2 == IF st.k = "noop" THEN [acc EXCEPT !.block = Append(@, st.label)]
                     ELSE IF Len(acc.block) = 0 THEN [acc EXCEPT !.out = Append(@, st)]
                     ELSE LET newLabel == IF st.label = None THEN acc.block[1] ELSE st.label
                          IN  [block |-> <<>>, map |-> MapAll(acc.block, newLabel, acc.map),
                               out |-> Append(acc.out, [st EXCEPT !.label = newLabel])]
         IN  Eager(acc2, LAMBDA a : NoopLoop(sts, i + 1, a))

P3of(sts) == Eager(Keep(sts), LAMBDA kept :
             Eager(NoopLoop(kept, 1, [block |-> <<>>, map |-> EmptyMap, out |-> <<>>]), LAMBDA r : Rewire(r.out, r.map)))

-----------------------------------------------------------------------------
(* P4: _fix_labels_in_place *)
MaxOf(S0) == CHOOSE m \in S0 : \A x \in S0 : x <= m

\* a label on the first statement and after every yield
RECURSIVE AfterYield(_, _, _)
AfterYield(sts, i, acc) ==      \* acc = [label, out]
    IF i > Len(sts) THEN acc.out
    ELSE Eager(IF acc.out[i - 1].k = "yield" /\ sts[i].label = None
               THEN [label |-> acc.label + 1, out |-> Append(acc.out, [sts[i] EXCEPT !.label = acc.label])]
               ELSE [label |-> acc.label, out |-> Append(acc.out, sts[i])],
               LAMBDA a : AfterYield(sts, i + 1, a))

Labelled(sts) == SelectSeq(sts, LAMBDA st : st.label # None)

P4of(sts) ==
    IF Len(sts) = 0 THEN sts
    ELSE
    LET fresh == MaxOf({IF sts[i].label # None THEN sts[i].label ELSE 0 : i \in 1..Len(sts)}) + 1
        first == IF sts[1].label = None THEN [sts[1] EXCEPT !.label = fresh] ELSE sts[1]
        fresh2 == IF sts[1].label = None THEN fresh + 1 ELSE fresh
    IN  Eager(AfterYield(sts, 2, [label |-> fresh2, out |-> <<first>>]), LAMBDA withYield :
        Eager(Labelled(withYield), LAMBDA ls :
        \* old label -> its rank among the labelled statements, in program order, from 0
        Eager([x \in {ls[j].label : j \in 1..Len(ls)} |-> (CHOOSE j \in 1..Len(ls) : ls[j].label = x) - 1], LAMBDA map :
        Rewire([i \in 1..Len(withYield) |->
                   IF withYield[i].label # None THEN [withYield[i] EXCEPT !.label = map[@]] ELSE withYield[i]],
               map))))

-----------------------------------------------------------------------------
(* P5: _split_in_subroutines *)
RECURSIVE SplitLoop(_, _, _)
SplitLoop(sts, i, acc) ==      \* acc = [block, out]
    IF i > Len(sts) THEN (IF Len(acc.block) > 0 THEN Append(acc.out, acc.block) ELSE acc.out)
    ELSE Eager(IF sts[i].label # None
               THEN [block |-> <<sts[i]>>, out |-> IF Len(acc.block) > 0 THEN Append(acc.out, acc.block) ELSE acc.out]
               ELSE [block |-> Append(acc.block, sts[i]), out |-> acc.out],
               LAMBDA a : SplitLoop(sts, i + 1, a))

P5of(sts) == SplitLoop(sts, 1, [block |-> <<>>, out |-> <<>>])

-----------------------------------------------------------------------------
P2(flow) == Eager(P1(flow), P2of)
P3(flow) == Eager(P2(flow), P3of)
P4(flow) == Eager(P3(flow), P4of)
LinearizeToSubroutines(flow) == IF Len(flow) = 0 THEN <<>> ELSE Eager(P4(flow), P5of)

AsProgram(sts) == IF Len(sts) = 0 THEN <<>> ELSE <<sts>>
Phase(flow, p) == (CASE p = 1 -> AsProgram(P1(flow))
                     [] p = 2 -> AsProgram(P2(flow))
                     [] p = 3 -> AsProgram(P3(flow))
                     [] p = 4 -> AsProgram(P4(flow))
                     [] p = 5 -> LinearizeToSubroutines(flow))
=============================================================================
