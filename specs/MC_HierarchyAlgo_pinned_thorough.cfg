SPECIFICATION Spec
CONSTANTS
  Dedupe = FALSE
  N = 4
  Full = TRUE
  NSort = 3
  SortAllNames = TRUE
INVARIANT DoneRightWithoutDiamond
INVARIANT DoneOnlyRepeatsWrong
INVARIANT DoneDiamondRepeats
INVARIANT DoneRepeatsExplained
INVARIANT RejectedIffReason
