INIT Init
NEXT Next
CONSTANTS
  NPairs = 6000
  NTriples = 4000
  NQuads = 2500
