---- MODULE SnippetsGen ----
(* G phase of C25: every single-entry tree, and pseudo-randomly chosen trees of 2..4 entries (TLC's *)
(* Randomization module, seeded by -seed). Every tree also contains BaseEntry.                      *)
EXTENDS Snippets, Json, IOUtils, SequencesExt, Randomization, TLC
CONSTANTS NPairs, NTriples, NQuads
Nest == {"valid", "dots", "hidden", "dash"}
E == Entries(Nest, FileNameClasses, ContentClasses)
Singles == {{e} : e \in E}
Pick(k, n) == {T \in RandomSetOfSubsets(k, n, E) : Cardinality(T) >= 2 /\ Cardinality(T) <= 5 /\ Consistent(T)}
Trees == Singles \cup {{}} \cup Pick(NPairs, 2) \cup Pick(NTriples, 3) \cup Pick(NQuads, 4)
\* every tree is placed under a pseudo-randomly chosen kind of root (the expected result does not depend on it)
Cases == {[entries |-> SetToSeq(T \cup {BaseEntry}), root |-> RandomElement(RootKinds)] : T \in Trees}
ASSUME JsonSerialize(IOEnv.VERIF_OUT, SetToSeq(Cases))
ASSUME PrintT(<<"@@PRINT@@ cases", Cardinality(Cases), Cardinality(E)>>)
VARIABLE dummy
Init == dummy = 0
Next == UNCHANGED dummy
====
