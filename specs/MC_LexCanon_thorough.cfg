INIT Init
NEXT Next
CONSTANT MaxLen = 3
INVARIANT RoundTrip
INVARIANT RawOrError
