INIT Init
NEXT Next
CONSTANTS
  MaxParts = 2
  PerClass = 2
