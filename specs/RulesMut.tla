------------------------------ MODULE RulesMut ------------------------------
(* C06: well-formed template meta-models and the mutation actions Break_<rule>(variant, targets)    *)
(* that each break one documented rule.  The operators are variable-free (Breaks(m) = the enabled   *)
(* mutations of m, Apply(b, m) = the mutated meta-model) so that they serve both the state machine  *)
(* below the line in MC_RulesMut.tla (M: "breaking rule k makes k \in Violated") and the generator   *)
(* RulesGen.tla (G: the meta-models reachable by <= Depth mutations).                               *)
EXTENDS Rules

Nm(n) == [k |-> "name", n |-> n, a |-> <<>>]
Opt(t) == [k |-> "opt", n |-> "", a |-> <<t>>]
Lst(t) == [k |-> "list", n |-> "", a |-> <<t>>]
P(n, t) == [name |-> n, type |-> t]
A(n, t, d) == [name |-> n, type |-> t, default |-> d]
RefClass(n) == [role |-> "class", type |-> n, attr |-> ""]
RefAttr(n, a) == [role |-> "attr", type |-> n, attr |-> a]

Type(name, kind, bases, abs, props, methods, invs, hasCtor, args, refs, literals) ==
    [name |-> name, kind |-> kind, bases |-> bases, abstract |-> abs, props |-> props, methods |-> methods,
     invs |-> invs, hasCtor |-> hasCtor, args |-> args, refs |-> refs, literals |-> literals]
Enum(name, literals, refs) == Type(name, "enum", <<>>, FALSE, <<>>, <<>>, <<>>, FALSE, <<>>, refs, literals)
Cprim(name, bases, invs, refs) == Type(name, "cprim", bases, FALSE, <<>>, <<>>, invs, FALSE, <<>>, refs, <<>>)
Class(name, bases, abs, props, methods, invs, args, refs) ==
    Type(name, "class", bases, abs, props, methods, invs, args # <<>>, args, refs, <<>>)
PatternFn(name, p) == [name |-> name, kind |-> "pattern", pattern |-> p]
ImplFn(name) == [name |-> name, kind |-> "impl", pattern |-> <<>>]

---------------------------------------------------------------------------------
(* Templates *)
\* "^[a-z]+$"
PatLower == <<94, 91, 97, 45, 122, 93, 43, 36>>
\* "^x*$"
PatX == <<94, 120, 42, 36>>

\* an enumeration, a constrained primitive, a two-level class hierarchy with optional and list
\* properties, documentation references of every kind, a constant and two verification functions
Rich ==
    [types |-> <<
        Enum("Color", <<"Red", "Green">>, <<RefClass("Item")>>),
        Cprim("Code", <<"str">>, <<"Code is short">>, <<RefClass("Color")>>),
        Class("Thing", <<>>, TRUE,
              <<P("ident", Nm("Code")), P("remark", Opt(Nm("str")))>>, <<"do_it">>, <<"Thing holds">>,
              <<A("ident", Nm("Code"), ""), A("remark", Opt(Nm("str")), "None")>>,
              <<RefClass("Color"), RefAttr("", "ident")>>),
        Class("Item", <<"Thing">>, FALSE,
              <<P("color", Nm("Color")), P("parts", Opt(Lst(Nm("Part"))))>>, <<>>, <<"Item holds">>,
              <<A("ident", Nm("Code"), ""), A("color", Nm("Color"), ""),
                A("remark", Opt(Nm("str")), "None"), A("parts", Opt(Lst(Nm("Part"))), "None")>>,
              <<RefAttr("Thing", "ident"), RefAttr("Color", "Red"), RefClass("Part"), RefAttr("", "remark")>>),
        Class("Part", <<>>, FALSE,
              <<P("size", Nm("int")), P("weight", Nm("int"))>>, <<>>, <<>>,
              <<A("size", Nm("int"), ""), A("weight", Nm("int"), "")>>, <<>>)>>,
     consts |-> <<[name |-> "Default_code"]>>,
     funcs |-> <<PatternFn("matches_code", PatLower), ImplFn("is_special")>>]

\* a chain of three classes and a chain of two constrained primitives
Chain ==
    [types |-> <<
        Cprim("Label", <<"str">>, <<"Label is not empty">>, <<>>),
        Cprim("Short_label", <<"Label">>, <<"Label is short">>, <<RefClass("Label")>>),
        Class("Alpha", <<>>, TRUE, <<P("first", Nm("int"))>>, <<"alpha_method">>, <<"Alpha holds">>,
              <<A("first", Nm("int"), "")>>, <<>>),
        Class("Beta", <<"Alpha">>, TRUE, <<P("second", Nm("Label")), P("extra_info", Opt(Nm("int")))>>, <<>>, <<"Beta holds">>,
              <<A("first", Nm("int"), ""), A("second", Nm("Label"), ""), A("extra_info", Opt(Nm("int")), "None")>>,
              <<RefAttr("", "first"), RefAttr("Alpha", "first")>>),
        Class("Leaf", <<>>, FALSE, <<P("leaf_value", Nm("str"))>>, <<>>, <<"Leaf holds">>,
              <<A("leaf_value", Nm("str"), "")>>, <<RefClass("Gamma")>>),
        Class("Gamma", <<"Beta">>, FALSE, <<P("third", Lst(Nm("Leaf"))), P("fourth", Opt(Nm("Short_label")))>>,
              <<"gamma_method">>, <<"Gamma holds", "Gamma also holds">>,
              <<A("first", Nm("int"), ""), A("second", Nm("Label"), ""), A("third", Lst(Nm("Leaf")), ""),
                A("extra_info", Opt(Nm("int")), "None"), A("fourth", Opt(Nm("Short_label")), "None")>>,
              <<RefAttr("", "second"), RefAttr("Beta", "extra_info"), RefClass("Short_label")>>)>>,
     consts |-> <<>>,
     funcs |-> <<PatternFn("matches_label", PatX)>>]

\* a diamond of classes: the root carries no property (so that the join's constructor is unambiguous)
Diamond ==
    [types |-> <<
        Class("Root", <<>>, TRUE, <<>>, <<>>, <<"Root holds">>, <<>>, <<>>),
        Class("Left", <<"Root">>, TRUE, <<P("left_value", Nm("int"))>>, <<"left_method">>, <<>>,
              <<A("left_value", Nm("int"), "")>>, <<RefClass("Root")>>),
        Class("Right", <<"Root">>, TRUE, <<P("right_value", Nm("str"))>>, <<"right_method">>, <<"Right holds">>,
              <<A("right_value", Nm("str"), "")>>, <<>>),
        Class("Join", <<"Left", "Right">>, FALSE, <<P("own_value", Opt(Nm("bool")))>>, <<>>, <<"Join holds">>,
              <<A("left_value", Nm("int"), ""), A("right_value", Nm("str"), ""), A("own_value", Opt(Nm("bool")), "None")>>,
              <<RefAttr("", "left_value"), RefAttr("Right", "right_value"), RefAttr("Join", "own_value")>>),
        \* ... and a diamond of constrained primitives
        Cprim("Text", <<"str">>, <<"Text is not empty">>, <<>>),
        Cprim("Short_text", <<"Text">>, <<"Text is short">>, <<>>),
        Cprim("Plain_text", <<"Text">>, <<"Text is plain">>, <<RefClass("Text")>>),
        Cprim("Short_plain_text", <<"Short_text", "Plain_text">>, <<>>, <<>>)>>,
     consts |-> <<[name |-> "Some_constant"], [name |-> "Other_constant"]>>,
     funcs |-> <<ImplFn("is_fine")>>]

Templates == {Rich, Chain, Diamond}

---------------------------------------------------------------------------------
(* Mutations.  A mutation is a record [rule, variant, k, j]: k, j are indices (into m.types, m.funcs,   *)
(* m.consts, or into a sequence of the type k) whose meaning depends on the variant; 0 = unused.      *)
B(rule, variant, k, j) == [rule |-> rule, variant |-> variant, k |-> k, j |-> j]

SetT(m, k, t) == [m EXCEPT !.types[k] = t]
AddType(m, t) == [m EXCEPT !.types = Append(@, t)]
ClassIdx(m) == {k \in TIdx(m) : IsClass(m.types[k])}
HierIdx(m) == {k \in TIdx(m) : IsHier(m.types[k])}
EnumIdx(m) == {k \in TIdx(m) : m.types[k].kind = "enum"}
PatternIdx(m) == {f \in DOMAIN m.funcs : m.funcs[f].kind = "pattern"}
EmptyClass(n) == Class(n, <<>>, FALSE, <<>>, <<>>, <<>>, <<>>, <<>>)

\* a new argument without default goes before the first argument with a default
RECURSIVE InsertRequired(_, _)
InsertRequired(args, a) ==
    IF args = <<>> \/ HasDefault(Head(args)) THEN <<a>> \o args ELSE <<Head(args)>> \o InsertRequired(Tail(args), a)
DropAt(s, i) == SubSeq(s, 1, i - 1) \o SubSeq(s, i + 1, Len(s))
Swap(s, i) == [x \in DOMAIN s |-> IF x = i THEN s[i + 1] ELSE IF x = i + 1 THEN s[i] ELSE s[x]]
RECURSIVE Flip(_)
Flip(ty) == IF ty.k = "name" THEN Nm(IF ty.n = "int" THEN "str" ELSE "int") ELSE [ty EXCEPT !.a = <<Flip(ty.a[1])>>]
\* change the type of every argument called n in the classes ks
Retype(m, ks, n, ty) ==
    [m EXCEPT !.types = [x \in DOMAIN @ |->
        IF x \in ks THEN [@[x] EXCEPT !.args = [i \in DOMAIN @ |-> IF @[i].name = n THEN [@[i] EXCEPT !.type = ty] ELSE @[i]]]
        ELSE @[x]]]
FirstDefault(args) == IF \E i \in DOMAIN args : HasDefault(args[i])
                      THEN CHOOSE i \in DOMAIN args : HasDefault(args[i]) /\ \A j \in 1..(i - 1) : ~HasDefault(args[j])
                      ELSE 0

Breaks(m) ==
  LET AM == AncMap(m)                                   \* bound once for all the guards below
      DescA(x) == {d \in TIdx(m) : x \in AM[d]}
      RelA(a, b) == a = b \/ a \in AM[b] \/ b \in AM[a]
  IN
    \* --- R_acyclic
       {B("R_acyclic", "self", k, 0) : k \in HierIdx(m)}
  \cup {b \in [rule : {"R_acyclic"}, variant : {"back"}, k : TIdx(m), j : TIdx(m)] : b.k \in HierIdx(m) /\ b.j \in DescA(b.k)}
    \* --- R_bases_exist
  \cup {B("R_bases_exist", "missing", k, 0) : k \in HierIdx(m)}
  \cup {B("R_bases_exist", "enum", k, e) : k \in ClassIdx(m), e \in EnumIdx(m)}
  \cup {B("R_bases_exist", "func", k, f) : k \in ClassIdx(m), f \in DOMAIN m.funcs}
    \* --- R_unique_names
  \cup {B("R_unique_names", "type_type", k, 0) : k \in TIdx(m)}
  \cup {B("R_unique_names", "type_const", k, 0) : k \in TIdx(m)}
  \cup {B("R_unique_names", "const_const", c, 0) : c \in DOMAIN m.consts}
  \cup {B("R_unique_names", "func_func", f, 0) : f \in DOMAIN m.funcs}
  \cup {B("R_unique_names", "const_func", f, 0) : f \in DOMAIN m.funcs}
  \cup {b \in [rule : {"R_unique_names"}, variant : {"prop"}, k : TIdx(m), j : 1..2] :
            b.k \in ClassIdx(m) /\ b.j \in DOMAIN m.types[b.k].props}
  \cup {B("R_unique_names", "method", k, 0) : k \in {x \in ClassIdx(m) : m.types[x].methods # <<>>}}
  \cup {B("R_unique_names", "literal", k, 0) : k \in {x \in EnumIdx(m) : m.types[x].literals # <<>>}}
  \cup {b \in [rule : {"R_unique_names"}, variant : {"siblings"}, k : TIdx(m), j : TIdx(m)] :
            \* j and k are unrelated classes with a common descendant; j owns a property, k gets one of that name
            /\ b.k \in ClassIdx(m) /\ b.j \in ClassIdx(m) /\ ~RelA(b.k, b.j)
            /\ m.types[b.j].props # <<>> /\ DescA(b.k) \cap DescA(b.j) # {}}
    \* --- R_reserved
  \cup {B("R_reserved", "type", n, 0) : n \in 1..3}
  \cup {B("R_reserved", "prop", k, n) : k \in {x \in ClassIdx(m) : DescA(x) = {}}, n \in 1..2}
  \cup {B("R_reserved", "method", k, n) : k \in ClassIdx(m), n \in 1..2}
  \cup {B("R_reserved", "const", n, 0) : n \in 1..3}
  \cup {B("R_reserved", "func", n, 0) : n \in 1..3}
    \* --- R_no_redeclare
  \cup {b \in [rule : {"R_no_redeclare"}, variant : {"prop", "method"}, k : TIdx(m), j : TIdx(m)] :
            /\ b.k \in ClassIdx(m) /\ b.j \in AM[b.k] /\ IsClass(m.types[b.j])
            /\ IF b.variant = "prop" THEN m.types[b.j].props # <<>> ELSE m.types[b.j].methods # <<>>}
    \* --- R_ctor_matches_props
  \cup {B("R_ctor_matches_props", "drop", k, 0) : k \in {x \in ClassIdx(m) : m.types[x].args # <<>>}}
  \cup {B("R_ctor_matches_props", "extra", k, 0) : k \in ClassIdx(m)}
  \cup {b \in [rule : {"R_ctor_matches_props"}, variant : {"swap"}, k : TIdx(m), j : 1..5] :
            /\ b.k \in ClassIdx(m) /\ b.j + 1 \in DOMAIN m.types[b.k].args
            /\ HasDefault(m.types[b.k].args[b.j]) = HasDefault(m.types[b.k].args[b.j + 1])
            /\ \E p, q \in AllPropsA(m, AM, b.k) : /\ p[3] = m.types[b.k].args[b.j].name
                                              /\ q[3] = m.types[b.k].args[b.j + 1].name /\ PropBeforeA(AM, p, q)}
  \cup {b \in [rule : {"R_ctor_matches_props"}, variant : {"type"}, k : TIdx(m), j : 1..5] :
            b.k \in ClassIdx(m) /\ b.j \in DOMAIN m.types[b.k].args}
  \cup {B("R_ctor_matches_props", "no_ctor", k, 0) : k \in {x \in ClassIdx(m) : m.types[x].props # <<>> /\ DescA(x) = {}}}
    \* --- R_optional_default_none
  \cup {B("R_optional_default_none", "no_default", k, 0) :
            k \in {x \in ClassIdx(m) : FirstDefault(m.types[x].args) # 0 /\ m.types[x].args[FirstDefault(m.types[x].args)].type.k = "opt"}}
  \cup {b \in [rule : {"R_optional_default_none"}, variant : {"other_default"}, k : TIdx(m), j : 1..5] :
            /\ b.k \in ClassIdx(m) /\ b.j \in DOMAIN m.types[b.k].args
            /\ m.types[b.k].args[b.j].type.k = "opt" /\ m.types[b.k].args[b.j].default = "None"}
    \* --- R_type_shapes
  \cup {b \in [rule : {"R_type_shapes"}, variant : {"nested_opt", "list_opt"}, k : TIdx(m), j : 1..2] :
            /\ b.k \in ClassIdx(m) /\ b.j \in DOMAIN m.types[b.k].props
            /\ (b.variant = "nested_opt" => m.types[b.k].props[b.j].type.k = "opt")}
    \* --- R_unique_inv_desc
  \cup {B("R_unique_inv_desc", "own", k, 0) : k \in {x \in HierIdx(m) : m.types[x].invs # <<>>}}
  \cup {b \in [rule : {"R_unique_inv_desc"}, variant : {"inherited"}, k : TIdx(m), j : TIdx(m)] :
            b.k \in HierIdx(m) /\ b.j \in AM[b.k] /\ m.types[b.j].invs # <<>>}
  \cup {b \in [rule : {"R_unique_inv_desc"}, variant : {"siblings"}, k : TIdx(m), j : TIdx(m)] :
            \* j and k are unrelated (classes or constrained primitives) with a common descendant; k gets an
            \* invariant with a description of j: only the common descendants see the conflict
            /\ b.k \in HierIdx(m) /\ b.j \in HierIdx(m) /\ ~RelA(b.k, b.j)
            /\ m.types[b.j].invs # <<>> /\ DescA(b.k) \cap DescA(b.j) # {}}
    \* --- R_doc_refs
  \cup {B("R_doc_refs", "class", k, 0) : k \in TIdx(m)}
  \cup {B("R_doc_refs", "attr_own", k, 0) : k \in {x \in TIdx(m) : m.types[x].kind # "cprim"}}
  \cup {B("R_doc_refs", "attr_of", k, j) : k \in TIdx(m), j \in TIdx(m)}
  \cup {B("R_doc_refs", "attr_type", k, 0) : k \in TIdx(m)}
  \cup {b \in [rule : {"R_doc_refs"}, variant : {"attr_shared"}, k : TIdx(m), j : TIdx(m)] :
            \* k takes over the whole documentation of j (byte-identical text on two types) where a relative
            \* reference :attr:`x` of j resolves in j but names nothing in k
            /\ b.k # b.j /\ m.types[b.k].kind # "cprim" /\ m.types[b.j].kind # "cprim"
            /\ \E i \in DOMAIN m.types[b.j].refs :
                  LET r == m.types[b.j].refs[i]
                  IN  r.role = "attr" /\ r.type = "" /\ AttrResolvesA(m, AM, b.j, r.attr) /\ ~AttrResolvesA(m, AM, b.k, r.attr)}
    \* --- R_pattern_anchored
  \cup {B("R_pattern_anchored", v, f, 0) : v \in {"no_start", "no_end", "empty"},
                                            f \in {x \in PatternIdx(m) : m.funcs[x].pattern # <<>>}}

ReservedTypeSample == <<"Match", "I_thing", "Must_have">>
\* a name used by the generated SDKs, a name reserved for members only
ReservedMemberSample == <<"model_type", "descend_once">>
\* a keyword of many languages, a name reserved for types only, a name reserved for members only
ReservedSymbolSample == <<"Class", "Visitor", "type_name">>

Apply(b, m) ==
    LET t == IF b.k \in TIdx(m) THEN m.types[b.k] ELSE EmptyClass("Unused") IN
    CASE b.rule = "R_acyclic" ->
            (IF b.variant = "self" THEN SetT(m, b.k, [t EXCEPT !.bases = Append(@, t.name)])
             ELSE SetT(m, b.k, [t EXCEPT !.bases = Append(@, m.types[b.j].name)]))
      [] b.rule = "R_bases_exist" ->
            (IF b.variant = "missing" THEN SetT(m, b.k, [t EXCEPT !.bases = Append(@, "Missing_type")])
             ELSE IF b.variant = "enum" THEN SetT(m, b.k, [t EXCEPT !.bases = Append(@, m.types[b.j].name)])
             ELSE SetT(m, b.k, [t EXCEPT !.bases = Append(@, m.funcs[b.j].name)]))
      [] b.rule = "R_unique_names" ->
            (CASE b.variant = "type_type" -> AddType(m, t)
               [] b.variant = "type_const" -> [m EXCEPT !.consts = Append(@, [name |-> t.name])]
               [] b.variant = "const_const" -> [m EXCEPT !.consts = Append(@, m.consts[b.k])]
               [] b.variant = "func_func" -> [m EXCEPT !.funcs = Append(@, ImplFn(m.funcs[b.k].name))]
               [] b.variant = "const_func" -> [m EXCEPT !.consts = Append(@, [name |-> m.funcs[b.k].name])]
               [] b.variant = "prop" -> SetT(m, b.k, [t EXCEPT !.props = Append(@, t.props[b.j])])
               [] b.variant = "method" -> SetT(m, b.k, [t EXCEPT !.methods = Append(@, t.methods[1])])
               [] b.variant = "literal" -> SetT(m, b.k, [t EXCEPT !.literals = Append(@, t.literals[1])])
               [] b.variant = "siblings" ->
                    SetT(m, b.k, [t EXCEPT !.props = Append(@, m.types[b.j].props[1]),
                                           !.args = InsertRequired(@, A(m.types[b.j].props[1].name, m.types[b.j].props[1].type, "")),
                                           !.hasCtor = TRUE]))
      [] b.rule = "R_reserved" ->
            (CASE b.variant = "type" -> AddType(m, EmptyClass(ReservedTypeSample[b.k]))
               [] b.variant = "prop" ->
                    SetT(m, b.k, [t EXCEPT !.props = Append(@, P(ReservedMemberSample[b.j], Nm("int"))),
                                           !.args = InsertRequired(@, A(ReservedMemberSample[b.j], Nm("int"), "")),
                                           !.hasCtor = TRUE])
               [] b.variant = "method" -> SetT(m, b.k, [t EXCEPT !.methods = Append(@, ReservedMemberSample[b.j])])
               [] b.variant = "const" -> [m EXCEPT !.consts = Append(@, [name |-> ReservedSymbolSample[b.k]])]
               [] b.variant = "func" -> [m EXCEPT !.funcs = Append(@, ImplFn(ReservedSymbolSample[b.k]))])
      [] b.rule = "R_no_redeclare" ->
            (IF b.variant = "prop" THEN SetT(m, b.k, [t EXCEPT !.props = Append(@, m.types[b.j].props[1])])
             ELSE SetT(m, b.k, [t EXCEPT !.methods = Append(@, m.types[b.j].methods[1])]))
      [] b.rule = "R_ctor_matches_props" ->
            (CASE b.variant = "drop" -> SetT(m, b.k, [t EXCEPT !.args = DropAt(@, Len(@))])
               [] b.variant = "extra" -> SetT(m, b.k, [t EXCEPT !.args = InsertRequired(@, A("zz_extra", Nm("int"), "")), !.hasCtor = TRUE])
               [] b.variant = "swap" -> SetT(m, b.k, [t EXCEPT !.args = Swap(@, b.j)])
               [] b.variant = "type" -> SetT(m, b.k, [t EXCEPT !.args[b.j].type = Flip(@)])
               [] b.variant = "no_ctor" -> SetT(m, b.k, [t EXCEPT !.args = <<>>, !.hasCtor = FALSE]))
      [] b.rule = "R_optional_default_none" ->
            (IF b.variant = "no_default" THEN SetT(m, b.k, [t EXCEPT !.args[FirstDefault(t.args)].default = ""])
             ELSE SetT(m, b.k, [t EXCEPT !.args[b.j].default = "other"]))
      [] b.rule = "R_type_shapes" ->
            (LET old == t.props[b.j].type
                 new == IF b.variant = "nested_opt" THEN Opt(old)
                        ELSE IF old.k = "opt"
                             THEN Opt(Lst(Opt(IF old.a[1].k = "list" THEN old.a[1].a[1] ELSE old.a[1])))
                             ELSE Lst(Opt(IF old.k = "list" THEN old.a[1] ELSE old))
                 m2 == SetT(m, b.k, [t EXCEPT !.props[b.j].type = new])
             IN  Retype(m2, Desc(m, b.k) \cup {b.k}, t.props[b.j].name, new))
      [] b.rule = "R_unique_inv_desc" ->
            (IF b.variant = "own" THEN SetT(m, b.k, [t EXCEPT !.invs = Append(@, t.invs[1])])
             ELSE SetT(m, b.k, [t EXCEPT !.invs = Append(@, m.types[b.j].invs[1])]))
      [] b.rule = "R_doc_refs" ->
            (CASE b.variant = "class" -> SetT(m, b.k, [t EXCEPT !.refs = Append(@, RefClass("Missing_type"))])
               [] b.variant = "attr_own" -> SetT(m, b.k, [t EXCEPT !.refs = Append(@, RefAttr("", "missing_attribute"))])
               [] b.variant = "attr_of" -> SetT(m, b.k, [t EXCEPT !.refs = Append(@, RefAttr(m.types[b.j].name, "missing_attribute"))])
               [] b.variant = "attr_type" -> SetT(m, b.k, [t EXCEPT !.refs = Append(@, RefAttr("Missing_type", "some_attribute"))])
               [] b.variant = "attr_shared" -> SetT(m, b.k, [t EXCEPT !.refs = m.types[b.j].refs]))
      [] b.rule = "R_pattern_anchored" ->
            (LET p == m.funcs[b.k].pattern
                 q == CASE b.variant = "no_start" -> Tail(p)
                        [] b.variant = "no_end" -> SubSeq(p, 1, Len(p) - 1)
                        [] b.variant = "empty" -> <<>>
             IN  [m EXCEPT !.funcs[b.k].pattern = q])

\* for a second mutation on top of a first one: one representative target per (rule, variant), the least <<k, j>>
FirstTargets(m) ==
    LET BS == Breaks(m)
    IN  {b \in BS : \A c \in BS : (c.rule = b.rule /\ c.variant = b.variant) => (b.k < c.k \/ (b.k = c.k /\ b.j <= c.j))}
\* what may follow a mutation of rule `last` ("" = nothing applied yet): a mutation of a *different* rule
\* (two mutations of one rule can undo each other: flipping a type twice, adding and dropping an argument)
BreaksAfter(last, m) == IF last = "" THEN Breaks(m) ELSE {b \in FirstTargets(m) : b.rule # last}

\* the meta-models reachable by exactly d mutations, with the mutations that led there: every enabled mutation
\* of a template, then one representative target per variant of the other rules
LastRule(applied) == IF applied = <<>> THEN "" ELSE applied[Len(applied)].rule
RECURSIVE Level(_)
Level(d) ==
    IF d = 0 THEN {[m |-> tm, applied |-> <<>>] : tm \in Templates}
    ELSE UNION {{[m |-> Apply(b, c.m), applied |-> Append(c.applied, b)] : b \in BreaksAfter(LastRule(c.applied), c.m)}
                : c \in Level(d - 1)}
=============================================================================
