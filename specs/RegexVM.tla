---- MODULE RegexVM ----
(***************************************************************************************************)
(* The regex VM as a state machine: the matcher loop of the generated C++ (revm.cpp, Match), one      *)
(* action per instruction kind, threads kept in two lists (current string position / next one).       *)
(*                                                                                                 *)
(* A behaviour matches one string s with one program prog (both fixed by Init; prog is               *)
(* Translate(tree), the transcribed Thompson construction, for a tree of Trees).                     *)
(*   sp       string pointer: number of characters consumed                                          *)
(*   clist    threads (program counters) still to be executed at sp                                  *)
(*   marked   the "has_" flags of the current list: program counters that may not be spawned again     *)
(*   nlist    threads to be executed at sp + 1                                                       *)
(*   verdict  "running" | "accepted" | "rejected"                                                    *)
(* The documentation leaves the order of the threads open: Step picks any thread of clist.            *)
(*                                                                                                 *)
(* PopClearsMark selects the discipline of the thread list:                                          *)
(*   FALSE  a program counter is executed at most once per string position (the documented design:    *)
(*          "add a new thread ... if it is not already in the list", swtch.com/~rsc/regexp/regexp2)   *)
(*   TRUE   the pinned revm.cpp: ThreadList::Pop() resets the flag, so a thread can be spawned again   *)
(*          at the same position -- with a loop of non-consuming instructions (nested empty loops:    *)
(*          a starred group inside a starred group) the matcher does not terminate.                  *)
(*          MC_RegexVM_pinned_lasso.cfg exhibits the lasso.                                          *)
(***************************************************************************************************)
EXTENDS RegexVMCore
CONSTANTS Trees, Alphabet, MaxLen, PopClearsMark
VARIABLES tree, prog, s, sp, clist, marked, nlist, verdict
vars == <<tree, prog, s, sp, clist, marked, nlist, verdict>>

Init == /\ tree \in Trees
        /\ prog = Translate(tree)
        /\ s \in StringsUpTo(Alphabet, MaxLen)
        /\ sp = 0
        /\ clist = {0}
        /\ marked = {0}
        /\ nlist = {}
        /\ verdict = "running"

Running == verdict = "running"
\* ThreadList::Spawn on the current list
SpawnAll(pc, targets) ==
  LET fresh == targets \ marked
  IN /\ clist' = (clist \ {pc}) \cup fresh
     /\ marked' = (IF PopClearsMark THEN marked \ {pc} ELSE marked) \cup fresh
Pop(pc) == /\ clist' = clist \ {pc}
           /\ marked' = IF PopClearsMark THEN marked \ {pc} ELSE marked

\* Char, Set, NotSet, Any: consume the character at sp or die
StepConsuming(pc, kind) ==
  /\ Running /\ pc \in clist /\ InstrAt(prog, pc).op = kind
  /\ Pop(pc)
  /\ nlist' = IF sp < Len(s) /\ Accepts1(InstrAt(prog, pc), s[sp + 1]) THEN nlist \cup {pc + 1} ELSE nlist
  /\ UNCHANGED <<tree, prog, s, sp, verdict>>
StepChar(pc) == StepConsuming(pc, "char")
StepSet(pc) == StepConsuming(pc, "set")
StepNotSet(pc) == StepConsuming(pc, "notset")
StepAny(pc) == StepConsuming(pc, "any")
StepMatch(pc) ==
  /\ Running /\ pc \in clist /\ InstrAt(prog, pc).op = "match"
  /\ verdict' = "accepted"
  /\ UNCHANGED <<tree, prog, s, sp, clist, marked, nlist>>
StepJump(pc) ==
  /\ Running /\ pc \in clist /\ InstrAt(prog, pc).op = "jump"
  /\ SpawnAll(pc, {InstrAt(prog, pc).t})
  /\ UNCHANGED <<tree, prog, s, sp, nlist, verdict>>
StepSplit(pc) ==
  /\ Running /\ pc \in clist /\ InstrAt(prog, pc).op = "split"
  /\ SpawnAll(pc, {InstrAt(prog, pc).t1, InstrAt(prog, pc).t2})
  /\ UNCHANGED <<tree, prog, s, sp, nlist, verdict>>
StepEnd(pc) ==
  /\ Running /\ pc \in clist /\ InstrAt(prog, pc).op = "end"
  /\ IF sp = Len(s) THEN SpawnAll(pc, {pc + 1}) ELSE Pop(pc)
  /\ UNCHANGED <<tree, prog, s, sp, nlist, verdict>>
\* the current list is exhausted: move to the next character, or give up at the end of input
Advance ==
  /\ Running /\ clist = {} /\ sp < Len(s)
  /\ sp' = sp + 1 /\ clist' = nlist /\ marked' = nlist /\ nlist' = {}
  /\ UNCHANGED <<tree, prog, s, verdict>>
Reject ==
  /\ Running /\ clist = {} /\ sp = Len(s)
  /\ verdict' = "rejected"
  /\ UNCHANGED <<tree, prog, s, sp, clist, marked, nlist>>

Step(pc) == StepChar(pc) \/ StepSet(pc) \/ StepNotSet(pc) \/ StepAny(pc) \/ StepMatch(pc) \/ StepJump(pc) \/ StepSplit(pc) \/ StepEnd(pc)
Next == (\E pc \in clist : Step(pc)) \/ Advance \/ Reject
Spec == Init /\ [][Next]_vars /\ WF_vars(Next)

\* ---------------------------------------------------------------------------------------------------
TypeOK == /\ sp \in 0..Len(s)
          /\ clist \subseteq marked \cup clist
          /\ verdict \in {"running", "accepted", "rejected"}
\* every thread ever created points at an instruction: jump/split targets exist, nothing runs off the end
ThreadsInProgram == \A pc \in clist \cup nlist : ValidPc(prog, pc)
ProgramWellFormed == WellFormedProgram(prog) /\ RangesWellFormed(prog)
\* the verdict of the machine is the verdict of the pattern (strings without line breaks)
VerdictIsFullMatch == verdict # "running" => ((verdict = "accepted") <=> FullMatch(tree, s))
\* ... and the verdict of the big-step semantics used for conformance checking
VerdictIsBigStep == verdict # "running" => ((verdict = "accepted") <=> VMAccepts(prog, s))
\* the matcher terminates
Termination == <>(verdict # "running")
====
