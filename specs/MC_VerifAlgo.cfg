SPECIFICATION Spec
INVARIANT AlgoExact
INVARIANT AlgoRaises
PROPERTY Termination
CONSTANTS
  Wide = FALSE
  BatchSize = 16
  NInst = 24
  StrLen = 3
  MaxModels = 1
  MaxSpecial = 1
  MaxInsts = 6
