INIT Init
NEXT Next
CONSTANTS
  BlockSize = 40
INVARIANT Inv_NeverRaises
INVARIANT Inv_ErrorPositioned
INVARIANT Inv_RenderValid
INVARIANT Inv_ParseKeepsLanguage
INVARIANT Inv_RenderKeepsLanguage
INVARIANT Inv_ReparseSameTree
INVARIANT S_OracleAgreesWithRe
