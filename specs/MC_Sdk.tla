------------------------------- MODULE MC_Sdk -------------------------------
(* M for C10: the design of the wire formats, model-checked.                                        *)
(* State: a meta-model of the family, one of its instances x, a document (JSON or XML) that starts  *)
(* as the serialization of x and is then hit by up to MaxMut mutation actions.  Invariants:         *)
(*   RoundTrip      -- the reference de-serializer inverts the serializer (both flavours): the wire *)
(*                     format is a bijection on its image;                                          *)
(*   Monotone       -- whatever the strict reference accepts, the lenient one accepts with the same *)
(*                     value (so the three-valued verdict is well defined);                         *)
(*   ResultTyped    -- an accepted document always yields a well-typed instance of the slot's class; *)
(*   KindPromise    -- a single mutation does what its name promises (Drop_required is rejected,    *)
(*                     Extra_property only tolerated, Drop_optional accepted with another value ...) *)
(*   Base64Inverse  -- (ASSUME) the base64 codec round-trips and the strict decoder is canonical.   *)
EXTENDS SdkModels
CONSTANTS Depth, MaxMut, Mode, ModelIds
VARIABLES mi, x, fmt, doc, hist
vars == <<mi, x, fmt, doc, hist>>

Models == SelectSeq(FixedModels \o <<ParamModel(8, 32), ParamModel(22, 15)>>, LAMBDA m : m.id \in ModelIds)
M == Models[mi]
Root == M.root

Init ==
    /\ mi \in 1..Len(Models)
    /\ x \in Roots(Models[mi], Depth, Mode)
    /\ fmt \in {"json", "xml"}
    /\ doc = IF fmt = "json" THEN ToJ(Models[mi], x) ELSE ToX(Models[mi], x)
    /\ hist = <<>>

Mutants == IF fmt = "json" THEN JRootMutants(M, doc, Root)
           ELSE IF NamesConcrete(M, doc.tag, Root) THEN XRootMutants(M, doc, ConcreteNamed(M, doc.tag, Root)) ELSE <<>>

Mutate ==
    /\ Len(hist) < MaxMut
    /\ \E mu \in RangeOf(Mutants) :
        /\ doc' = mu.doc
        /\ hist' = Append(hist, mu.kind)
    /\ UNCHANGED <<mi, x, fmt>>

Next == Mutate
Spec == Init /\ [][Next]_vars

Strict == IF fmt = "json" THEN FromJ(M, doc, TCls(Root), FALSE) ELSE FromX(M, doc, Root, FALSE)
Lenient == IF fmt = "json" THEN FromJ(M, doc, TCls(Root), TRUE) ELSE FromX(M, doc, Root, TRUE)

InstanceTyped == WellTyped(M, x, TCls(Root))
RoundTrip == hist = <<>> => Strict = x /\ Lenient = x
Monotone == Strict # Reject => Lenient = Strict
ResultTyped == /\ Strict # Reject => WellTyped(M, Strict, TCls(Root))
               /\ Lenient # Reject => Lenient.k = "inst"
KindPromise ==
    Len(hist) = 1 =>
        /\ hist[1] \in AlwaysRejectedKinds => Strict = Reject /\ Lenient = Reject
        /\ hist[1] \in ToleratedKinds => Strict = Reject /\ Lenient # Reject
        /\ hist[1] \in AcceptedKinds => Strict # Reject
        /\ hist[1] \in {"Reorder", "Whitespace_text"} => Strict = x
        /\ hist[1] \in {"Drop_optional", "Swap_items"} => Strict # Reject
\* a mutation never produces the pristine document of a DIFFERENT instance unless the reference says so: trivial by
\* construction; what is worth checking is that the set of mutation kinds really covers all three verdicts
VerdictKind == IF Strict # Reject THEN "MustAcceptWith" ELSE IF Lenient = Reject THEN "MustReject" ELSE "Either"

SmallBytes == {<<>>} \cup {<<a>> : a \in {0, 1, 63, 64, 255}} \cup {<<a, b>> : a, b \in {0, 63, 64, 255}} \cup {<<a, b, c>> : a, b, c \in {0, 127, 255}}
              \cup {<<a, b, c, d>> : a, b, c, d \in {0, 255}}
ASSUME Base64Inverse == \A bs \in SmallBytes : B64DecStrict(B64Enc(bs)) = [ok |-> TRUE, bs |-> bs]
ASSUME Base64Known == /\ B64Enc(<<0, 255>>) = <<65, 80, 56, 61>>                        \* "AP8="
                      /\ B64Enc(<<251, 239, 190>>) = <<43, 43, 43, 43>>                 \* "++++"
                      /\ B64Enc(<<255, 255, 255>>) = <<47, 47, 47, 47>>                 \* "////"
                      /\ B64Enc(<<77>>) = <<84, 81, 61, 61>>                            \* "TQ=="
ASSUME Base64Strict == \A i \in 1..Len(BADB64) : ~B64DecStrict(BADB64[i]).ok
=============================================================================
