------------------------------- MODULE MC_Sdk -------------------------------
(* M for C10: the design of the wire formats, model-checked.                                        *)
(* State: a meta-model of the family (mi), one of its instances x, a document (JSON or XML) that    *)
(* starts as the serialization of x and is then hit by up to MaxMut mutation actions; strict and    *)
(* lenient hold what the two flavours of the reference de-serializer make of the document.          *)
(* Invariants:                                                                                      *)
(*   RoundTrip      -- the reference de-serializer inverts the serializer (both flavours): the wire *)
(*                     format is a bijection on its image;                                          *)
(*   Monotone       -- whatever the strict reference accepts, the lenient one accepts with the same *)
(*                     value (so the three-valued verdict is well defined);                         *)
(*   ResultTyped    -- an accepted document always yields a well-typed instance of the slot's class; *)
(*   KindPromise    -- a single mutation does what its name promises (Drop_required is rejected,    *)
(*                     Extra_property only tolerated, Drop_optional accepted with another value ...) *)
(*   Base64Inverse, Base64Known, Base64Strict -- (ASSUME) the base64 codec round-trips, agrees with *)
(*                     known vectors, and the strict decoder rejects every text of BADB64.          *)
EXTENDS SdkMut
CONSTANTS Depth, MaxMut, Mode, ModelIds
VARIABLES mi, x, fmt, doc, hist, strict, lenient
vars == <<mi, x, fmt, doc, hist, strict, lenient>>

Models == SelectSeq(FixedModels \o <<ParamModel(8, 32), ParamModel(22, 15)>>, LAMBDA m : m.id \in ModelIds)

RefOf(m, f, d, len) == IF f = "json" THEN FromJ(m, d, TCls(m.root), len) ELSE FromX(m, d, m.root, len)

Init ==
    /\ mi \in 1..Len(Models)
    /\ x \in Roots(Models[mi], Depth, Mode)
    /\ fmt \in {"json", "xml"}
    /\ doc = IF fmt = "json" THEN ToJ(Models[mi], x) ELSE ToX(Models[mi], x)
    /\ hist = <<>>
    /\ strict = RefOf(Models[mi], fmt, doc, FALSE)
    /\ lenient = RefOf(Models[mi], fmt, doc, TRUE)

MutantsOf(m) == IF fmt = "json" THEN JRootMutants(m, doc, m.root)
                ELSE IF NamesConcrete(m, doc.tag, m.root) THEN XRootMutants(m, doc, ConcreteNamed(m, doc.tag, m.root)) ELSE <<>>

MutateWith(m, ms) ==
    \E k \in 1..Len(ms) :
        /\ doc' = ms[k].doc
        /\ hist' = Append(hist, [kind |-> ms[k].kind, at |-> ms[k].at])
        /\ strict' = RefOf(m, fmt, ms[k].doc, FALSE)
        /\ lenient' = RefOf(m, fmt, ms[k].doc, TRUE)
Mutate ==
    /\ Len(hist) < MaxMut
    /\ MutateWith(Models[mi], MutantsOf(Models[mi]))
    /\ UNCHANGED <<mi, x, fmt>>

Next == Mutate
Spec == Init /\ [][Next]_vars

InstanceTyped == WellTyped(Models[mi], x, TCls(Models[mi].root))
RoundTrip == hist = <<>> => strict = x /\ lenient = x
Monotone == strict # Reject => lenient = strict
ResultTyped == /\ strict # Reject => WellTyped(Models[mi], strict, TCls(Models[mi].root))
               /\ lenient # Reject => lenient.k = "inst"
KindPromise1(kind, at) ==
    /\ kind \in AlwaysRejectedKinds /\ at # "other_class" => strict = Reject /\ lenient = Reject
    \* a wrong namespace is never accepted, except on an item of primitive type (a lenient reader does not look at it)
    /\ kind = "Wrong_namespace" => strict = Reject /\ (at # "list_item" => lenient = Reject)
    /\ kind = "Unknown_item" => strict = Reject
    /\ kind \in ToleratedKinds => strict = Reject /\ lenient # Reject
    /\ kind \in AcceptedKinds => strict # Reject
    /\ kind \in {"Reorder", "Whitespace_text"} => strict = x
    /\ kind \in {"Drop_optional"} => strict # x
    \* a modelType / discriminator that names another class is decided by the reference alone; where dispatch depends on
    \* it, an unknown, missing or ill-typed one is always rejected
    /\ kind \in {"Wrong_modelType", "Missing_modelType"} /\ at \in {"dispatch", "dispatch_null", "dispatch_unknown", "dispatch_not_a_string", "dispatch_lower_case"}
            => strict = Reject /\ lenient = Reject
    /\ kind \in {"Wrong_modelType", "Missing_modelType"} /\ at \in {"no_dispatch", "no_dispatch_null", "no_dispatch_unknown", "no_dispatch_not_a_string", "no_dispatch_lower_case", "no_dispatch_other_class"}
            => strict = Reject /\ lenient = x
    /\ kind = "Bad_base64" => strict = Reject
KindPromise == Len(hist) = 1 => KindPromise1(hist[1].kind, hist[1].at)
VerdictKind == IF strict # Reject THEN "MustAcceptWith" ELSE IF lenient = Reject THEN "MustReject" ELSE "Either"

SmallBytes == {<<>>} \cup {<<a>> : a \in {0, 1, 63, 64, 255}} \cup {<<a, b>> : a, b \in {0, 63, 64, 255}} \cup {<<a, b, c>> : a, b, c \in {0, 127, 255}}
              \cup {<<a, b, c, e>> : a, b, c, e \in {0, 255}}
ASSUME Base64Inverse == \A bs \in SmallBytes : B64DecStrict(B64Enc(bs)) = [ok |-> TRUE, bs |-> bs]
ASSUME Base64Known == /\ B64Enc(<<0, 255>>) = <<65, 80, 56, 61>>                        \* "AP8="
                      /\ B64Enc(<<251, 239, 190>>) = <<43, 43, 43, 43>>                 \* "++++"
                      /\ B64Enc(<<255, 255, 255>>) = <<47, 47, 47, 47>>                 \* "////"
                      /\ B64Enc(<<77>>) = <<84, 81, 61, 61>>                            \* "TQ=="
ASSUME Base64Strict == \A i \in 1..Len(BADB64) : ~B64DecStrict(BADB64[i]).ok
=============================================================================
