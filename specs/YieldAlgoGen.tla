---- MODULE YieldAlgoGen ----
(* M phase of C26, first half: evaluate the transcribed algorithm (YieldAlgo.tla) on EVERY flow of  *)
(* size <= MaxSize and write, for every flow and every pass p = 1..5, the case (flow, program after *)
(* pass p) as JSON. The second half is the product machine (YieldTrace.tla) run on these cases:     *)
(* every pass preserves the behaviour of the structured flow under every outcome sequence.          *)
(* The static design properties of the final result are checked right here as assumptions.          *)
(* (Two runs instead of one because TLC re-evaluates a large constant once per worker.)             *)
EXTENDS YieldAlgo, SequencesExt, Json, IOUtils
CONSTANTS MaxSize,   \* the result (pass 5) for every flow of size <= MaxSize
          PassSize   \* the intermediate passes 1..4 for every flow of size <= PassSize

F == SetToSeq(Flows(MaxSize))
FP == SetToSeq(Flows(PassSize))
Case(f, p) == Eager(Phase(f, p), LAMBDA prog :
                  [flow |-> f, subs |-> prog, flat |-> p < 5, outcome |-> "ok", pass |-> p,
                   n |-> Len(Flatten(prog)), size |-> SizeOfSeq(f)])
\* passes 1..4 are flat programs, pass 5 the subroutines
AlgoCases == [n \in 1..Len(F) |-> Case(F[n], 5)]
             \o [n \in 1..(4 * Len(FP)) |-> Case(FP[((n - 1) \div 4) + 1], ((n - 1) % 4) + 1)]

FinalWellFormed(subs) ==
    /\ LabelsConsecutive(subs) /\ TargetsExist(subs) /\ OnlyFirstLabelled(subs) /\ YieldEndsSubroutine(subs)
    /\ (Len(subs) > 0 => SubLabel(subs, 1) = 0)
\* from pass 3 on at most one no-op is left, and only as the very last statement
NoopOnlyTrailing(subs) == LET f == Flatten(subs) IN \A i \in 1..Len(f) : f[i].k = "noop" => i = Len(f)

Out == TLCEval(AlgoCases)
ASSUME JsonSerialize(IOEnv.VERIF_OUT, Out)
ASSUME \A n \in 1..Len(Out) : Out[n].pass = 5 => FinalWellFormed(Out[n].subs)
ASSUME \A n \in 1..Len(Out) : Out[n].pass >= 3 => NoopOnlyTrailing(Out[n].subs)
ASSUME PrintT(<<"@@PRINT@@ algo", Len(F), Len(Out)>>)
VARIABLE dummy
Init == dummy = 0
Next == UNCHANGED dummy
====
