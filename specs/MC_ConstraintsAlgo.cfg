\* the design AS PINNED: the three named deviations are on; the property holds outside them (quick scope)
SPECIFICATION Spec
CONSTANTS
  Scenarios <- ScenariosDef
  MaxLen = 6
  MaxC = 1
  MaxAtoms = 2
  GuardSet = {"none", "other"}
  Narrow = TRUE
  Shapes = {"one", "chain", "dia"}
  ForeignGuardMisread = TRUE
  StrictPositiveMin = TRUE
  RaiseOnConflict = TRUE
  SnapshotStacking = FALSE
  NegativeMaxIsError = FALSE
INVARIANT TypeOK
INVARIANT PinnedExact
INVARIANT PinnedUnsatNotOk
INVARIANT PinnedRaiseOnlyWhenNamed
INVARIANT PinnedErrorExplainable
INVARIANT Progress
