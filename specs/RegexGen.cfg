INIT Init
NEXT Next
CONSTANTS
  Deep = FALSE
  Wide = FALSE
  AlphaCap = 4
  LenCap = 4
  Budget = 100
