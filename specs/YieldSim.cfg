SPECIFICATION Spec
CONSTANTS
  MaxSize = 9
  MinPrint = 5
INVARIANT WellFormed
