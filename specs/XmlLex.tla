------------------------------- MODULE XmlLex --------------------------------
(***************************************************************************)
(* Well-formedness of an XML document (XML 1.0, the part that C#           *)
(* documentation comments use) as a per-character state machine:           *)
(* elements with attributes, character data, the five predefined entity    *)
(* references and character references, comments, processing instructions  *)
(* and CDATA sections (skipped), a stack of open element names.            *)
(* C20: the text of every /// block of a generated C# file, wrapped in one *)
(* root element, has to be accepted - whatever the description said.       *)
(***************************************************************************)
EXTENDS Integers, Sequences, FiniteSets

LT == 60
GT == 62
AMP == 38
SL == 47
EQ == 61
DQ == 34
SQ == 39
BANG == 33
DASH == 45
QM == 63
SEMI == 59
HASHC == 35
LBK == 91
RBK == 93

XWhite(c) == c \in {32, 9, 10, 13}
XDigit(c) == c \in 48..57
XHex(c) == (c \in 48..57) \/ (c \in 65..70) \/ (c \in 97..102)
NameStart(c) == (c \in 65..90) \/ (c \in 97..122) \/ c = 95 \/ c = 58 \/ c >= 192
NameChar(c) == NameStart(c) \/ XDigit(c) \/ c = 45 \/ c = 46 \/ c = 183
XmlChar(c) == c \in {9, 10, 13} \/ (c >= 32 /\ c <= 55295) \/ (c >= 57344 /\ c <= 65533) \/ (c >= 65536 /\ c <= 1114111)

\* lt gt amp apos quot
Predefined == {<<108, 116>>, <<103, 116>>, <<97, 109, 112>>, <<97, 112, 111, 115>>, <<113, 117, 111, 116>>}
CDataOpen == <<67, 68, 65, 84, 65, 91>>     \* CDATA[

X0 == [m |-> "text", stk |-> <<>>, nm |-> <<>>, q |-> 0, ret |-> "", n |-> 0, v |-> 0, roots |-> 0, why |-> ""]
XErr(s, why) == [s EXCEPT !.m = "err", !.why = why]

\* an end tag closes the innermost open element, and only that one
CloseElement(s) ==
  IF s.stk = <<>> THEN XErr(s, "end tag without a start tag")
  ELSE IF s.stk[Len(s.stk)] # s.nm THEN XErr(s, "end tag does not match the open element")
  ELSE [s EXCEPT !.m = "text", !.n = 0, !.stk = SubSeq(@, 1, Len(@) - 1), !.nm = <<>>,
                 !.roots = IF Len(s.stk) = 1 THEN @ + 1 ELSE @]
OpenElement(s) ==
  IF s.stk = <<>> /\ s.roots > 0 THEN XErr(s, "more than one root element")
  ELSE [s EXCEPT !.stk = Append(@, s.nm), !.nm = <<>>]
\* <x/> : opened and closed at once
EmptyElement(s) ==
  IF s.stk = <<>> /\ s.roots > 0 THEN XErr(s, "more than one root element")
  ELSE [s EXCEPT !.m = "text", !.n = 0, !.nm = <<>>, !.roots = IF s.stk = <<>> THEN @ + 1 ELSE @]

XStep(s, c) ==
  IF s.m = "err" THEN s
  ELSE IF ~XmlChar(c) THEN XErr(s, "character not allowed in XML")
  ELSE
  CASE s.m = "text" ->
        (IF c = LT THEN [s EXCEPT !.m = "lt"]
         ELSE IF c = AMP THEN [s EXCEPT !.m = "ent", !.ret = "text", !.nm = <<>>]
         ELSE IF s.stk = <<>> /\ ~XWhite(c) THEN XErr(s, "character data outside the root element")
         ELSE IF c = RBK THEN [s EXCEPT !.n = IF @ < 2 THEN @ + 1 ELSE @]
         ELSE IF c = GT /\ s.n = 2 THEN XErr(s, "]]> in character data")
         ELSE [s EXCEPT !.n = 0])
    [] s.m = "lt" ->
        (IF c = SL THEN [s EXCEPT !.m = "close", !.nm = <<>>, !.n = 0]
         ELSE IF c = BANG THEN [s EXCEPT !.m = "bang", !.n = 0, !.nm = <<>>]
         ELSE IF c = QM THEN [s EXCEPT !.m = "pi", !.n = 0]
         ELSE IF NameStart(c) THEN [s EXCEPT !.m = "open", !.nm = <<c>>, !.n = 0]
         ELSE XErr(s, "< is not followed by a name"))
    [] s.m = "open" ->
        (IF NameChar(c) THEN [s EXCEPT !.nm = Append(@, c)]
         ELSE IF XWhite(c) THEN [OpenElement(s) EXCEPT !.m = IF @ = "err" THEN @ ELSE "attrs"]
         ELSE IF c = GT THEN [OpenElement(s) EXCEPT !.m = IF @ = "err" THEN @ ELSE "text", !.n = 0]
         ELSE IF c = SL THEN [s EXCEPT !.m = "sc0"]
         ELSE XErr(s, "bad character in a tag name"))
    [] s.m = "sc0" -> (IF c = GT THEN EmptyElement(s) ELSE XErr(s, "/ in a tag is not followed by >"))
    [] s.m = "attrs" ->
        (IF XWhite(c) THEN s
         ELSE IF c = GT THEN [s EXCEPT !.m = "text", !.n = 0]
         ELSE IF c = SL THEN [s EXCEPT !.m = "sc1"]
         ELSE IF NameStart(c) THEN [s EXCEPT !.m = "an"]
         ELSE XErr(s, "bad character in a start tag"))
    [] s.m = "sc1" ->    \* the element was pushed already: pop it again
        (IF c = GT THEN [s EXCEPT !.m = "text", !.n = 0, !.stk = SubSeq(@, 1, Len(@) - 1), !.roots = IF Len(s.stk) = 1 THEN @ + 1 ELSE @]
         ELSE XErr(s, "/ in a tag is not followed by >"))
    [] s.m = "an" ->
        (IF NameChar(c) THEN s
         ELSE IF c = EQ THEN [s EXCEPT !.m = "aq"]
         ELSE IF XWhite(c) THEN [s EXCEPT !.m = "aeq"]
         ELSE XErr(s, "attribute without a value"))
    [] s.m = "aeq" -> (IF XWhite(c) THEN s ELSE IF c = EQ THEN [s EXCEPT !.m = "aq"] ELSE XErr(s, "attribute without a value"))
    [] s.m = "aq" ->
        (IF XWhite(c) THEN s
         ELSE IF c = DQ \/ c = SQ THEN [s EXCEPT !.m = "av", !.q = c]
         ELSE XErr(s, "attribute value is not quoted"))
    [] s.m = "av" ->
        (IF c = s.q THEN [s EXCEPT !.m = "avend", !.q = 0]
         ELSE IF c = LT THEN XErr(s, "< in an attribute value")
         ELSE IF c = AMP THEN [s EXCEPT !.m = "ent", !.ret = "av", !.nm = <<>>]
         ELSE s)
    [] s.m = "avend" ->
        (IF XWhite(c) THEN [s EXCEPT !.m = "attrs"]
         ELSE IF c = GT THEN [s EXCEPT !.m = "text", !.n = 0]
         ELSE IF c = SL THEN [s EXCEPT !.m = "sc1"]
         ELSE XErr(s, "no white space between attributes"))
    [] s.m = "close" ->
        (IF NameChar(c) /\ (s.nm # <<>> \/ NameStart(c)) THEN [s EXCEPT !.nm = Append(@, c)]
         ELSE IF s.nm = <<>> THEN XErr(s, "</ is not followed by a name")
         ELSE IF XWhite(c) THEN [s EXCEPT !.m = "closews"]
         ELSE IF c = GT THEN CloseElement(s)
         ELSE XErr(s, "bad character in an end tag"))
    [] s.m = "closews" -> (IF XWhite(c) THEN s ELSE IF c = GT THEN CloseElement(s) ELSE XErr(s, "bad character in an end tag"))
    [] s.m = "ent" ->
        (IF c = SEMI THEN
            (IF s.nm \in Predefined THEN [s EXCEPT !.m = s.ret, !.nm = <<>>, !.n = 0]
             ELSE XErr(s, "undefined entity"))
         ELSE IF c = HASHC /\ s.nm = <<>> THEN [s EXCEPT !.m = "cref", !.n = 0, !.v = 0]
         ELSE IF NameChar(c) /\ Len(s.nm) < 5 THEN [s EXCEPT !.nm = Append(@, c)]
         ELSE XErr(s, "& does not start an entity reference"))
    [] s.m = "cref" ->     \* &#DDD; or &#xHHH;
        (IF c = 120 /\ s.n = 0 THEN [s EXCEPT !.m = "crefx"]
         ELSE IF XDigit(c) THEN (IF s.v > 1114111 THEN XErr(s, "character reference out of range") ELSE [s EXCEPT !.n = 1, !.v = @ * 10 + (c - 48)])
         ELSE IF c = SEMI /\ s.n = 1 /\ XmlChar(s.v) THEN [s EXCEPT !.m = s.ret, !.n = 0, !.v = 0]
         ELSE XErr(s, "malformed character reference"))
    [] s.m = "crefx" ->
        (IF XHex(c) THEN (IF s.v > 1114111 THEN XErr(s, "character reference out of range")
                          ELSE [s EXCEPT !.n = 1, !.v = @ * 16 + (IF c <= 57 THEN c - 48 ELSE IF c <= 70 THEN c - 55 ELSE c - 87)])
         ELSE IF c = SEMI /\ s.n = 1 /\ XmlChar(s.v) THEN [s EXCEPT !.m = s.ret, !.n = 0, !.v = 0]
         ELSE XErr(s, "malformed character reference"))
    [] s.m = "bang" ->     \* <!-- or <![CDATA[
        (IF c = DASH /\ s.nm = <<>> THEN (IF s.n = 1 THEN [s EXCEPT !.m = "cmt", !.n = 0] ELSE [s EXCEPT !.n = 1])
         ELSE IF s.n = 0 /\ c = LBK /\ s.nm = <<>> THEN [s EXCEPT !.nm = <<LBK>>]
         ELSE IF s.nm # <<>> /\ Len(s.nm) <= 6 /\ c = CDataOpen[Len(s.nm)] THEN
                (IF Len(s.nm) = 6 THEN (IF s.stk = <<>> THEN XErr(s, "CDATA outside the root element") ELSE [s EXCEPT !.m = "cdata", !.n = 0, !.nm = <<>>])
                 ELSE [s EXCEPT !.nm = Append(@, c)])
         ELSE XErr(s, "<! does not start a comment or a CDATA section"))
    [] s.m = "cmt" ->      \* n = number of consecutive dashes (saturating at 2)
        (IF c = DASH THEN (IF s.n = 2 THEN XErr(s, "-- inside a comment") ELSE [s EXCEPT !.n = @ + 1])
         ELSE IF s.n = 2 THEN (IF c = GT THEN [s EXCEPT !.m = "text", !.n = 0] ELSE XErr(s, "-- inside a comment"))
         ELSE [s EXCEPT !.n = 0])
    [] s.m = "pi" ->       \* n = 1: the previous character was ?
        (IF c = QM THEN [s EXCEPT !.n = 1] ELSE IF c = GT /\ s.n = 1 THEN [s EXCEPT !.m = "text", !.n = 0] ELSE [s EXCEPT !.n = 0])
    [] s.m = "cdata" ->    \* n = number of consecutive ] (saturating at 2)
        (IF c = RBK THEN [s EXCEPT !.n = IF @ < 2 THEN @ + 1 ELSE @]
         ELSE IF c = GT /\ s.n = 2 THEN [s EXCEPT !.m = "text", !.n = 0]
         ELSE [s EXCEPT !.n = 0])

XModes == {"text", "lt", "open", "sc0", "attrs", "sc1", "an", "aeq", "aq", "av", "avend", "close", "closews", "ent",
           "cref", "crefx", "bang", "cmt", "pi", "cdata", "err"}

RECURSIVE XRunFrom(_, _, _, _)
XRunFrom(s, seq, i, j) == IF i > j THEN s ELSE XRunFrom(XStep(s, seq[i]), seq, i + 1, j)
XFinish(s) ==
  IF s.m = "err" THEN s
  ELSE IF s.m # "text" THEN XErr(s, "the document ends inside markup")
  ELSE IF s.stk # <<>> THEN XErr(s, "an element is not closed")
  ELSE IF s.roots # 1 THEN XErr(s, "no root element")
  ELSE s
WellFormed(doc) == XFinish(XRunFrom(X0, doc, 1, Len(doc))).m = "text"
WhyNot(doc) == XFinish(XRunFrom(X0, doc, 1, Len(doc))).why
=============================================================================
