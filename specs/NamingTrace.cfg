INIT Init
NEXT Next
INVARIANT Inv_CollisionReported
INVARIANT Inv_DeclaredDistinct
INVARIANT Inv_NoFileWrittenTwice
INVARIANT Inv_NoDuplicateModuleNames
INVARIANT Chk_BothDeclared
