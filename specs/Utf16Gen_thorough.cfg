INIT Init
NEXT Next
CONSTANTS
  Wide = TRUE
  AlphaCap = 9
  LenCap = 3
  Budget = 900
