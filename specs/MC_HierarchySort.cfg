SPECIFICATION SortSpec
CONSTANTS
  Dedupe = TRUE
  N = 3
  Full = TRUE
  NSort = 3
  SortAllNames = FALSE
INVARIANT CycleIffCyclic
INVARIANT SortedIsTopological
INVARIANT MarksDisjoint
INVARIANT StackIsPath
