SPECIFICATION SortSpec
CONSTANTS
  Dedupe = TRUE
  N = 3
  NSort = 3
  SortAllNames = FALSE
INVARIANT CycleIffCyclic
INVARIANT SortedIsTopological
INVARIANT MarksDisjoint
INVARIANT StackIsPath
