---- MODULE NamingGen ----
(* G phase of C21: pairs of distinct identifiers, stratified by collision signature, placed in one scope.        *)
(* For every scenario kind and every collision signature that occurs in the universe (including the empty one:  *)
(* control pairs that collide nowhere) PerClass pairs are taken; kinds whose entities must start with a capital  *)
(* letter only get such identifiers.                                                                              *)
EXTENDS Naming, SequencesExt, Json, IOUtils, TLC
CONSTANTS MaxParts, PerClass

U == Ids(MaxParts)
USeq == SetToSeq(U)
Pairs == UNION {{<<USeq[i], USeq[j]>> : j \in (i + 1)..Len(USeq)} : i \in DOMAIN USeq}
Image == [f \in Fns |-> [id \in U |-> Conv(f, id)]]
Sig == [p \in Pairs |-> {f \in Fns : Image[f][p[1]] = Image[f][p[2]]}]
Signatures == {Sig[p] : p \in Pairs}

\* the first n elements of a set under TLC's (fixed) enumeration order
FirstN(S, n) == LET q == SetToSeq(S) IN {q[i] : i \in 1..(IF Len(q) < n THEN Len(q) ELSE n)}
\* take pairs spread over the class rather than neighbours: every Stride-th element
Spread(S, n) ==
    LET q == SetToSeq(S)
        stride == IF Len(q) <= n THEN 1 ELSE Len(q) \div n
    IN {q[1 + (i - 1) * stride] : i \in 1..(IF Len(q) < n THEN Len(q) ELSE n)}

Candidates(k, s) == {p \in Pairs : Sig[p] = s /\ (NeedsTypeLike(k) => TypeLike(p[1]) /\ TypeLike(p[2]))}
Chosen(k) == UNION {Spread(Candidates(k, s), PerClass) : s \in Signatures}

CasesOf(k) == {[kind |-> k, a |-> p[1], b |-> p[2], ta |-> Text(p[1]), tb |-> Text(p[2]),
                signature |-> SetToSeq(Sig[p]), same_scope |-> SameScope(k)] : p \in Chosen(k)}
AllCases == UNION {CasesOf(k) : k \in Kinds}

ASSUME \A c \in AllCases : c.a # c.b
ASSUME JsonSerialize(IOEnv.VERIF_OUT, SetToSeq(AllCases))
ASSUME PrintT(<<"@@PRINT@@ cases", Cardinality(AllCases), "signatures", Cardinality(Signatures), "pairs", Cardinality(Pairs)>>)
VARIABLE dummy
Init == dummy = 0
Next == UNCHANGED dummy
====
