---- MODULE GenRun ----
(***************************************************************************************************)
(* C02 (M) -- the design of one run of main.execute followed by <target>/main.py:execute, as a     *)
(* state machine that emits the observable events of GenContract:                                  *)
(*                                                                                                 *)
(*   CheckArgs -> ReadSnippets -> LoadModel -> VerifyForTarget -> CheckSnippetsForTarget           *)
(*             -> for each generator step k = 1..Steps: Generate(k) ; Write(k, files)              *)
(*             -> Say("Code generated to ...") -> Return(0)                                        *)
(*                                                                                                 *)
(* Every check may fail: then a report goes to stderr (one or more writes) and the run returns 1    *)
(* at once; files written by earlier steps stay.  Generate(k) may also produce *no* file           *)
(* (Files = 0 is allowed for a step, but a run has at least one step that writes).                 *)
(* The smoke tool is the same machine without Write and Say (IsGenerator = FALSE).                 *)
(*                                                                                                 *)
(* Deviation actions (enabled through the constant Faults) model what the sentence forbids:        *)
(*   "raise"   an exception leaves a stage (assert / icontract violation / NotImplementedError),   *)
(*   "silent"  a stage fails and returns 1 without reporting,                                      *)
(*   "lenient" a stage reports and carries on to Return(0).                                        *)
(* With Faults = {} TLC proves Contract for all behaviours; with each fault TLC must find a        *)
(* counterexample (negative control of the contract operators, run by the thorough tier).          *)
(***************************************************************************************************)
EXTENDS GenContract, FiniteSets, TLC
CONSTANTS Steps,        \* number of generator steps of the target
          MaxFiles,     \* a step writes 0..MaxFiles files
          IsGenerator,  \* FALSE = smoke tool
          Faults        \* subset of {"raise", "silent", "lenient"}

VARIABLES pc, step, hist, reported

vars == <<pc, step, hist, reported>>
Stages == <<"args", "snippets", "model", "verify", "target_snippets">>

Emit(k, n) == hist' = IF Len(hist) > 0 /\ hist[Len(hist)].k = k /\ k \in {"w", "e", "o"}
                      THEN [hist EXCEPT ![Len(hist)].n = @ + n]
                      ELSE Append(hist, [k |-> k, n |-> n])

Init == pc = "stage" /\ step = 1 /\ hist = <<>> /\ reported = FALSE

\* a front stage (argument checks, snippets, model, verification for the target, target snippets) passes
StagePass == /\ pc = "stage" /\ step <= Len(Stages)
             /\ step' = step + 1 /\ UNCHANGED <<pc, hist, reported>>
\* ... or fails: report (1..2 writes to stderr), then return 1
StageFail == /\ pc = "stage" /\ step <= Len(Stages)
             /\ \E n \in 1..2 : Emit("e", n)
             /\ pc' = "failing" /\ reported' = TRUE /\ UNCHANGED step
EnterGenerate == /\ pc = "stage" /\ step = Len(Stages) + 1
                 /\ pc' = "gen" /\ step' = 1 /\ UNCHANGED <<hist, reported>>
\* generator step k produced its code: the files are written (smoke: nothing is written)
GenerateOk == /\ pc = "gen" /\ step <= Steps
              /\ IF IsGenerator THEN \E n \in (IF step = 1 THEN 1 ELSE 0)..MaxFiles : (IF n = 0 THEN UNCHANGED hist ELSE Emit("w", n))
                 ELSE UNCHANGED hist
              /\ step' = step + 1 /\ UNCHANGED <<pc, reported>>
\* generator step k returned errors (or writing a file failed): report, return 1
GenerateErr == /\ pc = "gen" /\ step <= Steps
               /\ \E n \in 1..2 : Emit("e", n)
               /\ pc' = "failing" /\ reported' = TRUE /\ UNCHANGED step
Say == /\ pc = "gen" /\ step = Steps + 1
       /\ IF IsGenerator THEN Emit("o", 1) ELSE UNCHANGED hist
       /\ pc' = "finishing" /\ UNCHANGED <<step, reported>>
ReturnOk == /\ pc = "finishing" /\ Emit("ret", 0) /\ pc' = "done" /\ UNCHANGED <<step, reported>>
ReturnErr == /\ pc = "failing" /\ Emit("ret", 1) /\ pc' = "done" /\ UNCHANGED <<step, reported>>

(* deviations ----------------------------------------------------------------------------------- *)
Raise == /\ "raise" \in Faults /\ pc \in {"stage", "gen"}
         /\ Emit("raise", 0) /\ pc' = "done" /\ UNCHANGED <<step, reported>>
SilentFail == /\ "silent" \in Faults /\ pc \in {"stage", "gen"}
              /\ pc' = "failing" /\ UNCHANGED <<step, hist, reported>>
Lenient == /\ "lenient" \in Faults /\ pc = "gen" /\ step <= Steps
           /\ Emit("e", 1) /\ step' = step + 1 /\ reported' = TRUE /\ UNCHANGED pc

Next == StagePass \/ StageFail \/ EnterGenerate \/ GenerateOk \/ GenerateErr \/ Say \/ ReturnOk \/ ReturnErr
        \/ Raise \/ SilentFail \/ Lenient
        \/ (pc = "done" /\ UNCHANGED vars)
Spec == Init /\ [][Next]_vars /\ WF_vars(Next)

(* properties ------------------------------------------------------------------------------------ *)
TypeOK == IsTrace(hist) /\ pc \in {"stage", "gen", "failing", "finishing", "done"}
\* every finished run satisfies the contract, clause by clause
Done == pc = "done"
Inv_Closed == Done => Closed(hist)
Inv_NoUncaughtException == Done => NoUncaughtException(hist)
Inv_ExitZeroWroteOutput == Done => ExitZeroWroteOutput(hist, IsGenerator)
Inv_NonZeroReported == Done => NonZeroReported(hist)
Contract == Done => Accepts(hist, IsGenerator)
\* before the end nothing looks closed
Inv_OpenUntilDone == ~Done => ~Closed(hist)
\* the run ends
Terminates == <>Done
====
