INIT Init
NEXT Next
CONSTANTS
  Wide = TRUE
  AlphaCap = 5
  LenCap = 5
  Budget = 400
