---------------------------- MODULE MC_XsdDesign ----------------------------
(* Model-checking instance of XsdDesign (constants in the cfg files). *)
EXTENDS XsdDesign
=============================================================================
