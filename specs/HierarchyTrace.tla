---- MODULE HierarchyTrace ----
(* V phase for C05: every observation of the real front end (source hierarchy h read from the text,  *)
(* projection o of the intermediate symbol table) must satisfy the clauses of Hierarchy.tla.          *)
(* One initial state per accepted observation (k = "start"), one successor per clause; one named      *)
(* invariant per clause, so that TLC reports every violated clause of every observation (-continue)   *)
(* and the worker threads share the evaluation.  The clauses about repeats are split by the source-   *)
(* level explanation of the repeat (Hierarchy!Explanation), so that the name of the violated          *)
(* invariant is the structural fingerprint <clause>__<explanation> used for the known findings.        *)
EXTENDS Hierarchy, Json, IOUtils
Obs == JsonDeserialize(IOEnv.VERIF_OBS)
VARIABLES i, k
Init == i \in 1..Len(Obs) /\ k = "start" /\ Obs[i].outcome = "accepted"
Next == k = "start" /\ k' \in ClauseNames /\ i' = i
H == Obs[i].h
O == Obs[i].o
Inv_AncestorsAreClosure == k = "AncestorsAreClosure" => AncestorsAreClosure(H, O)
Inv_AncestorsNoDup__multiple_inheritance_paths == k = "AncestorsNoDup" => (AncestorsNoDup(H, O) \/ Explanation("AncestorsNoDup", H, O) # "multiple_inheritance_paths")
Inv_AncestorsNoDup__none == k = "AncestorsNoDup" => (AncestorsNoDup(H, O) \/ Explanation("AncestorsNoDup", H, O) # "none")
Inv_DescendantsAreInverse == k = "DescendantsAreInverse" => DescendantsAreInverse(H, O)
Inv_DescendantsNoDup__multiple_inheritance_paths == k = "DescendantsNoDup" => (DescendantsNoDup(H, O) \/ Explanation("DescendantsNoDup", H, O) # "multiple_inheritance_paths")
Inv_DescendantsNoDup__none == k = "DescendantsNoDup" => (DescendantsNoDup(H, O) \/ Explanation("DescendantsNoDup", H, O) # "none")
Inv_ConcreteDescendantsRight == k = "ConcreteDescendantsRight" => ConcreteDescendantsRight(H, O)
Inv_ConcreteDescendantsNoDup__multiple_inheritance_paths == k = "ConcreteDescendantsNoDup" => (ConcreteDescendantsNoDup(H, O) \/ Explanation("ConcreteDescendantsNoDup", H, O) # "multiple_inheritance_paths")
Inv_ConcreteDescendantsNoDup__none == k = "ConcreteDescendantsNoDup" => (ConcreteDescendantsNoDup(H, O) \/ Explanation("ConcreteDescendantsNoDup", H, O) # "none")
Inv_PropertiesAreHeritage == k = "PropertiesAreHeritage" => PropertiesAreHeritage(H, O)
Inv_PropertiesOrdered == k = "PropertiesOrdered" => PropertiesOrdered(H, O)
Inv_InvariantsAreHeritage == k = "InvariantsAreHeritage" => InvariantsAreHeritage(H, O)
Inv_InvariantsOrdered == k = "InvariantsOrdered" => InvariantsOrdered(H, O)
Inv_MethodsAreHeritage == k = "MethodsAreHeritage" => MethodsAreHeritage(H, O)
Inv_MethodsOrdered == k = "MethodsOrdered" => MethodsOrdered(H, O)
Inv_CtorAssignsEvery == k = "CtorAssignsEvery" => CtorAssignsEvery(H, O)
Inv_CtorAssignsAtMostOnce__written_twice == k = "CtorAssignsAtMostOnce" => (CtorAssignsAtMostOnce(H, O) \/ Explanation("CtorAssignsAtMostOnce", H, O) # "written_twice")
Inv_CtorAssignsAtMostOnce__multiple_inheritance_paths == k = "CtorAssignsAtMostOnce" => (CtorAssignsAtMostOnce(H, O) \/ Explanation("CtorAssignsAtMostOnce", H, O) # "multiple_inheritance_paths")
Inv_CtorAssignsAtMostOnce__none == k = "CtorAssignsAtMostOnce" => (CtorAssignsAtMostOnce(H, O) \/ Explanation("CtorAssignsAtMostOnce", H, O) # "none")
Inv_CtorNoSuperCalls == k = "CtorNoSuperCalls" => CtorNoSuperCalls(H, O)
Inv_InterfacesExact == k = "InterfacesExact" => InterfacesExact(H, O)
Inv_Topological == k = "Topological" => Topological(H, O)
Inv_ModelTypeDown == k = "ModelTypeDown" => ModelTypeDown(H, O)

\* non-vacuity counters (evaluated once, printed): accepted observations, those where some class has an
\* ancestor, those with a diamond; and the comparison with the source-level reading: MayRefuse lists the
\* reasons for which a hierarchy of the case space may be refused (a constructor assigning a property twice
\* may be refused or not).  A *generated* hierarchy (gen = TRUE) without any such reason that is not accepted
\* means that a part of the case space is silently not being checked (the harness exits 2 on that).
Accepted == {n \in 1..Len(Obs) : Obs[n].outcome = "accepted"}
NonTrivial(n) == \E c \in Ids(Obs[n].h) : Ancestors(Obs[n].h, c) # {}
MustRefuse(n) == ~Acyclic(Obs[n].h) \/ ~ModelTypeConsistentSource(Obs[n].h) \/ MethodClash(Obs[n].h)
MayRefuse(n) == MustRefuse(n) \/ WrittenTwice(Obs[n].h)
ASSUME PrintT(<<"@@PRINT@@ counts", Len(Obs), Cardinality(Accepted),
                Cardinality({n \in Accepted : NonTrivial(n)}),
                Cardinality({n \in Accepted : HasDiamond(Obs[n].h)}),
                Cardinality({n \in 1..Len(Obs) : MustRefuse(n)}),
                Cardinality({n \in 1..Len(Obs) : MustRefuse(n) /\ Obs[n].outcome = "accepted"}),
                Cardinality({n \in 1..Len(Obs) : Obs[n].gen /\ ~MayRefuse(n) /\ Obs[n].outcome # "accepted"})>>)
====
