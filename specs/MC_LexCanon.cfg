INIT Init
NEXT Next
CONSTANT MaxLen = 2
INVARIANT RoundTrip
INVARIANT RawOrError
