INIT Init
NEXT Next
INVARIANT Inv_DocCommentIsWellFormedXml
INVARIANT Inv_SpecAgreesWithExpat
