----------------------------- MODULE SdkWalkTrace -----------------------------
(* V for C29: what descend_once / descend / accept / transform / over_X_or_empty / X_or_default of the generated *)
(* types did on every node of every instance graph, judged against section 3 of Sdk.tla.                          *)
(* A record: [mi, pa, pb, x, sdk, built, nodes: Seq(node), walk: Seq([path, method])]                             *)
(* node: [path, cls, once, all, visit, visit_ctx, transform, transform_ctx: Seq(method name), passes: BOOLEAN,     *)
(*        over: Seq([prop, missing, items]), ordefault: Seq([prop, missing, v])]                                   *)
EXTENDS SdkModels, Json, IOUtils
Obs == JsonDeserialize(IOEnv.VERIF_OBS)
\* (the record itself is the state, see SdkTrace)
VARIABLES Rec, paths
ModelOf(o) == IF o.pa = 0 THEN WalkModels[o.mi] ELSE ParamModel(o.pa, o.pb)
Init == Rec \in ToSet(Obs) /\ paths = AllNodePaths(Rec.x)
Next == UNCHANGED <<Rec, paths>>
Nodes == Rec.nodes

Inv_SdkGenerated == Rec.sdk /\ Rec.built
\* the harness saw every node of the graph (and each once), with the class the instance was built with
Inv_NodesSeen ==
    Rec.built => /\ T([n \in 1..Len(Nodes) |-> Nodes[n].path]) = paths
                 /\ \A n \in 1..Len(Nodes) : Nodes[n].cls = NodeAt(Rec.x, Nodes[n].path).cls
\* descending once yields exactly the directly nested instances in property and list order
Inv_DescendOnce == \A n \in 1..Len(Nodes) : Nodes[n].once = Prefixed(Nodes[n].path, DescendOncePaths(NodeAt(Rec.x, Nodes[n].path)))
\* descending yields all transitively nested ones in pre-order
Inv_Descend == \A n \in 1..Len(Nodes) : Nodes[n].all = Prefixed(Nodes[n].path, DescendPaths(NodeAt(Rec.x, Nodes[n].path)))
\* visitors and transformers dispatch to the method of the concrete class (exactly one call, with the instance itself,
\* the context / the result passed through)
DispatchOk(m, n) ==
    /\ n.cls \in ClassNames(m)
    /\ n.visit = <<m.info[n.cls].visit>>
    /\ n.visit_ctx = <<m.info[n.cls].visit \o "_with_context">>
    /\ n.transform = <<m.info[n.cls].transform>>
    /\ n.transform_ctx = <<m.info[n.cls].transform \o "_with_context">>
    /\ n.passes
DispatchAll(m) == \A n \in 1..Len(Nodes) : DispatchOk(m, Nodes[n])
Inv_Dispatch == DispatchAll(ModelOf(Rec))
\* a pass-through visitor started at the root dispatches every node it reaches to the method of that node's concrete class
WalkAll(m) == \A w \in 1..Len(Rec.walk) : HasElem(paths, Rec.walk[w].path) /\ Rec.walk[w].method = m.info[NodeAt(Rec.x, Rec.walk[w].path).cls].visit
Inv_PassThroughDispatch == WalkAll(ModelOf(Rec))
\* over_X_or_empty: the items of the property, or nothing when it is None -- for every optional list property
ItemObs(path, prop, items) == T([j \in 1..Len(items) |-> IF items[j].k = "inst" THEN [k |-> "path", path |-> path \o << <<prop, j>> >>] ELSE items[j]])
OptionalLists(m, c) == SelectSeq(AllProps(m, c), LAMBDA p : p.opt /\ p.type.t = "list")
OverOk(m, x, n) ==
    /\ n.cls \in ClassNames(m)
    /\ T([q \in 1..Len(n.over) |-> n.over[q].prop]) = T([q \in 1..Len(OptionalLists(m, n.cls)) |-> OptionalLists(m, n.cls)[q].src])
    /\ \A q \in 1..Len(n.over) : ~n.over[q].missing /\ n.over[q].items = ItemObs(n.path, n.over[q].prop, OverOrEmpty(NodeAt(x, n.path), n.over[q].prop))
OverAll(m) == \A n \in 1..Len(Nodes) : OverOk(m, Rec.x, Nodes[n])
Inv_OverOrEmpty == OverAll(ModelOf(Rec))
\* X_or_default: the value of the property, or the declared default when it is None -- on the declaring class and all descendants
DefaultOk(m, x, n) ==
    /\ n.cls \in ClassNames(m)
    /\ T([q \in 1..Len(n.ordefault) |-> n.ordefault[q].prop]) = T([q \in 1..Len(m.info[n.cls].defaults) |-> m.info[n.cls].defaults[q].prop])
    /\ \A q \in 1..Len(n.ordefault) : ~n.ordefault[q].missing /\ n.ordefault[q].v = OrDefault(NodeAt(x, n.path), m.info[n.cls].defaults[q])
DefaultAll(m) == \A n \in 1..Len(Nodes) : DefaultOk(m, Rec.x, Nodes[n])
Inv_OrDefault == DefaultAll(ModelOf(Rec))
=============================================================================
