INIT GInit
NEXT GNext
CONSTANTS
  Which = "quick"
