------------------------------ MODULE VerifAlgo ------------------------------
(* M phase of C08 (design level, no repo code): the shape of the generated verification —       *)
(* `verify(that)` is a lazy pre-order traversal: visit an instance (dispatch on its run-time     *)
(* class), yield an Error for each invariant of the class (inherited ones first) that is false,  *)
(* then descend into the properties in declaration order: constrained-primitive values get the   *)
(* invariants of their type chain, optional values are skipped when None, list items are visited *)
(* with an index segment; every error carries the path that was walked. An exception escaping an *)
(* invariant ends the traversal.                                                                 *)
(* This state machine (an explicit stack instead of Python's generators) is model-checked         *)
(* against the declarative Verif!ExpectedG / MustRaiseG for a bounded number of models and       *)
(* instances of VerifModels:                                                                      *)
(*   AlgoExact      a finished traversal has reported exactly the expected (path, cause) pairs,   *)
(*                  each once;                                                                    *)
(*   AlgoRaises     it raises exactly when some invariant of some owner raises;                   *)
(*   Termination    every traversal ends.                                                         *)
EXTENDS VerifModels
CONSTANTS MaxModels, MaxSpecial, MaxInsts

\* M: the model, inst: the instance being verified (both fixed by Init), stack: the pending visits,
\* out: the errors yielded so far, status: run / done / raised
VARIABLES M, inst, stack, out, status
vars == <<M, inst, stack, out, status>>

Frame(v, ty, path) == [v |-> v, ty |-> ty, path |-> path]

\* evaluate the invariants of one owner in order; [raised, errs]
Check(invs, val, path) ==
    LET rs == Force([j \in 1..Len(invs) |-> Eval(invs[j].e, [self |-> val], GNative(M))])
    IN  [raised |-> \E j \in 1..Len(invs) : IsErr(rs[j]),
         errs |-> LET bad == SelectSeq([j \in 1..Len(invs) |-> j], LAMBDA j : IsFalse(rs[j])) IN [q \in 1..Len(bad) |-> <<path, invs[bad[q]].d>>]]

ModelIdx == (1..MinOf(MaxModels, NB)) \cup ((NB + 1)..MinOf(NB + MaxSpecial, NModels))

Init == /\ \E k \in ModelIdx :
                /\ M = ModelOf(k, ModelTrees(k))
                /\ inst \in {Instances(k)[j] : j \in 1..MinOf(MaxInsts, Len(Instances(k)))}
        /\ stack = <<Frame(inst, TInst(inst.c), "")>>
        /\ out = <<>>
        /\ status = "run"

Step ==
    /\ status = "run"
    /\ UNCHANGED <<M, inst>>
    /\ IF stack = <<>> THEN status' = "done" /\ UNCHANGED <<stack, out>>
       ELSE LET fr == Head(stack)
                rest == Tail(stack)
            IN  CASE fr.ty.t = "opt" ->
                        /\ stack' = IF fr.v.t = "none" THEN rest ELSE <<Frame(fr.v, fr.ty.of, fr.path)>> \o rest
                        /\ UNCHANGED <<out, status>>
                  [] fr.ty.t = "inst" ->
                        LET c == Check(AllInvsOfClass(M, fr.v.c), fr.v, fr.path)
                            ps == AllPropsOf(M, fr.v.c)
                        IN  IF c.raised THEN status' = "raised" /\ UNCHANGED <<stack, out>>
                            ELSE /\ out' = out \o c.errs
                                 /\ stack' = [j \in 1..Len(ps) |-> Frame(fr.v.f[ps[j].name], ps[j].ty, fr.path \o "." \o ps[j].name)] \o rest
                                 /\ UNCHANGED status
                  [] fr.ty.t = "cprim" ->
                        LET c == Check(AllInvsOfCPrim(M, fr.ty.c), fr.v, fr.path)
                        IN  IF c.raised THEN status' = "raised" /\ UNCHANGED <<stack, out>>
                            ELSE out' = out \o c.errs /\ stack' = rest /\ UNCHANGED status
                  [] fr.ty.t = "list" ->
                        /\ stack' = [j \in 1..Len(fr.v.xs) |-> Frame(fr.v.xs[j], fr.ty.of, fr.path \o "[" \o ToString(j - 1) \o "]")] \o rest
                        /\ UNCHANGED <<out, status>>
                  [] OTHER -> stack' = rest /\ UNCHANGED <<out, status>>

Stutter == status # "run" /\ UNCHANGED vars
Next == Step \/ Stutter
Spec == Init /\ [][Next]_vars /\ WF_vars(Step)

AlgoExact ==
    status = "done" =>
        /\ ~MustRaiseG(M, inst, GNative(M))
        /\ {out[j] : j \in 1..Len(out)} = ExpectedG(M, inst, GNative(M))
        /\ Cardinality({out[j] : j \in 1..Len(out)}) = Len(out)
AlgoRaises == status = "raised" => MustRaiseG(M, inst, GNative(M))
\* pre-order: what has been reported so far is always a subset of the expectation
AlgoSoundPrefix == status = "run" => {out[j] : j \in 1..Len(out)} \subseteq ExpectedG(M, inst, GNative(M))
Termination == <>(status # "run")
=============================================================================
