INIT Init
NEXT Next
INVARIANT Inv_R_acyclic__accepted
INVARIANT Inv_R_acyclic__exception__duplicate_members
INVARIANT Inv_R_acyclic__exception__conflicting_inherited_members
INVARIANT Inv_R_acyclic__exception__none
INVARIANT Inv_R_bases_exist__accepted
INVARIANT Inv_R_bases_exist__exception__duplicate_members
INVARIANT Inv_R_bases_exist__exception__conflicting_inherited_members
INVARIANT Inv_R_bases_exist__exception__none
INVARIANT Inv_R_unique_names__accepted
INVARIANT Inv_R_unique_names__exception__duplicate_members
INVARIANT Inv_R_unique_names__exception__conflicting_inherited_members
INVARIANT Inv_R_unique_names__exception__none
INVARIANT Inv_R_reserved__accepted
INVARIANT Inv_R_reserved__exception__duplicate_members
INVARIANT Inv_R_reserved__exception__conflicting_inherited_members
INVARIANT Inv_R_reserved__exception__none
INVARIANT Inv_R_no_redeclare__accepted
INVARIANT Inv_R_no_redeclare__exception__duplicate_members
INVARIANT Inv_R_no_redeclare__exception__conflicting_inherited_members
INVARIANT Inv_R_no_redeclare__exception__none
INVARIANT Inv_R_ctor_matches_props__accepted
INVARIANT Inv_R_ctor_matches_props__exception__duplicate_members
INVARIANT Inv_R_ctor_matches_props__exception__conflicting_inherited_members
INVARIANT Inv_R_ctor_matches_props__exception__none
INVARIANT Inv_R_optional_default_none__accepted
INVARIANT Inv_R_optional_default_none__exception__duplicate_members
INVARIANT Inv_R_optional_default_none__exception__conflicting_inherited_members
INVARIANT Inv_R_optional_default_none__exception__none
INVARIANT Inv_R_type_shapes__accepted
INVARIANT Inv_R_type_shapes__exception__duplicate_members
INVARIANT Inv_R_type_shapes__exception__conflicting_inherited_members
INVARIANT Inv_R_type_shapes__exception__none
INVARIANT Inv_R_unique_inv_desc__accepted
INVARIANT Inv_R_unique_inv_desc__exception__duplicate_members
INVARIANT Inv_R_unique_inv_desc__exception__conflicting_inherited_members
INVARIANT Inv_R_unique_inv_desc__exception__none
INVARIANT Inv_R_doc_refs__accepted
INVARIANT Inv_R_doc_refs__exception__duplicate_members
INVARIANT Inv_R_doc_refs__exception__conflicting_inherited_members
INVARIANT Inv_R_doc_refs__exception__none
INVARIANT Inv_R_pattern_anchored__accepted
INVARIANT Inv_R_pattern_anchored__exception__duplicate_members
INVARIANT Inv_R_pattern_anchored__exception__conflicting_inherited_members
INVARIANT Inv_R_pattern_anchored__exception__none
INVARIANT Count_R_acyclic__rejected
INVARIANT Count_R_bases_exist__rejected
INVARIANT Count_R_unique_names__rejected
INVARIANT Count_R_reserved__rejected
INVARIANT Count_R_no_redeclare__rejected
INVARIANT Count_R_ctor_matches_props__rejected
INVARIANT Count_R_optional_default_none__rejected
INVARIANT Count_R_type_shapes__rejected
INVARIANT Count_R_unique_inv_desc__rejected
INVARIANT Count_R_doc_refs__rejected
INVARIANT Count_R_pattern_anchored__rejected
