------------------------------- MODULE Yield -------------------------------
(* C26 — yield flows (aas_core_codegen/yielding/flow.py) and their linearization into subroutines *)
(* of a resumable state machine (yielding/linear.py, rendered by cpp/yielding.py).                 *)
(*                                                                                                 *)
(* This module is variable-free. It defines                                                        *)
(*   1. the data: structured flows (trees of nodes) and linear programs (sequences of subroutines  *)
(*      of labelled statements);                                                                   *)
(*   2. the STRUCTURED small-step semantics with an explicit continuation stack: SStep / SAdv;     *)
(*   3. the LINEAR small-step semantics of the state machine over subroutines: LStep / LAdv        *)
(*      (Command, If(on_true, on_false), Jump, Yield, Noop, fall-through, end);                    *)
(*   4. the static clauses LabelsConsecutive, TargetsExist (and OnlyFirstLabelled);                *)
(*   5. the case space Flows(n): every flow of total size <= n, with a distinct code for every     *)
(*      command / condition / init / iteration.                                                    *)
(* The product machine that runs 2 and 3 in lock-step is YieldMachine.tla; the transcription of    *)
(* the linearization algorithm is YieldAlgo.tla.                                                   *)
EXTENDS Integers, Sequences, FiniteSets, TLC

None == -1

\* TLC idiom: evaluate v ONCE and bind the value (operator arguments and LET definitions are
\* evaluated lazily and, at constant / state level, again on every reference; in deep recursions
\* that is exponential). Eager(v, Op) = Op(v).
Eager(v, Op(_)) == CHOOSE r \in {Op(x) : x \in {v}} : TRUE

-----------------------------------------------------------------------------
(* 1a. Structured flows. Every node is a record with the same fields:                             *)
(*   k       "cmd" | "yield" | "ift" | "iff" | "while" | "for"                                    *)
(*   code    the code of the command, or of the condition (ift, iff, while, for)                  *)
(*   init    code of the for-initialisation, 0 = absent;   iter  code of the for-iteration        *)
(*   body    sequence of nodes;  hasElse, els  the or_else branch (an EMPTY or_else list is       *)
(*           different from an absent one in the implementation's linearization)                  *)

Node(k, code, init, iter, body, hasElse, els) ==
    [k |-> k, code |-> code, init |-> init, iter |-> iter, body |-> body, hasElse |-> hasElse, els |-> els]

IsLeaf(nd) == nd.k \in {"cmd", "yield"}
IsIf(nd) == nd.k \in {"ift", "iff"}
IsLoop(nd) == nd.k \in {"while", "for"}

RECURSIVE SizeOfSeq(_)
SizeOfNode(nd) == 1 + SizeOfSeq(nd.body) + SizeOfSeq(nd.els)
SizeOfSeq(ns) == IF Len(ns) = 0 THEN 0 ELSE SizeOfNode(ns[1]) + SizeOfSeq(Tail(ns))

RECURSIVE DepthOfSeq(_)
DepthOfNode(nd) == IF IsLeaf(nd) THEN 0 ELSE
                   1 + (LET a == DepthOfSeq(nd.body) b == DepthOfSeq(nd.els) IN IF a > b THEN a ELSE b)
DepthOfSeq(ns) == IF Len(ns) = 0 THEN 0 ELSE
                  LET a == DepthOfNode(ns[1]) b == DepthOfSeq(Tail(ns)) IN IF a > b THEN a ELSE b

RECURSIVE CountKind(_, _)
CountKindNode(nd, ks) == (IF nd.k \in ks THEN 1 ELSE 0) + CountKind(nd.body, ks) + CountKind(nd.els, ks)
CountKind(ns, ks) == IF Len(ns) = 0 THEN 0 ELSE CountKindNode(ns[1], ks) + CountKind(Tail(ns), ks)

\* the implementation's precondition on a flow: the body of an if is never empty
RECURSIVE WellFormedSeq(_)
WellFormedNode(nd) == /\ (IsIf(nd) => Len(nd.body) >= 1)
                      /\ WellFormedSeq(nd.body) /\ WellFormedSeq(nd.els)
WellFormedSeq(ns) == \A i \in 1..Len(ns) : WellFormedNode(ns[i])

(* 1b. Linear programs. A statement is a record                                                    *)
(*   k "cmd" | "if" | "jump" | "yield" | "noop";  label (None = unlabelled);  code;               *)
(*   onT, onF  targets of an "if" (None = fall through);  target  of a "jump".                    *)
(* A program is a sequence of subroutines, a subroutine a non-empty sequence of statements.        *)

Stmt(k, label, code, onT, onF, target) ==
    [k |-> k, label |-> label, code |-> code, onT |-> onT, onF |-> onF, target |-> target]

RECURSIVE Flatten(_)
Flatten(subs) == IF Len(subs) = 0 THEN <<>> ELSE subs[1] \o Flatten(Tail(subs))

TargetsOfStmt(st) ==
    (IF st.k = "jump" THEN {st.target} ELSE {})
    \cup (IF st.k = "if" THEN ({st.onT, st.onF} \ {None}) ELSE {})

TargetsOf(subs) == LET f == Flatten(subs) IN UNION {TargetsOfStmt(f[i]) : i \in 1..Len(f)}

-----------------------------------------------------------------------------
(* 2. Structured semantics: small steps over a continuation stack (head = top). Tasks:            *)
(*   [t |-> "seq",  nodes, i]   run nodes[i..]                                                     *)
(*   [t |-> "while" | "for" | "iter", nodes |-> <<loop node>>, i |-> 1]                            *)
(*        evaluate the loop condition / run the for-iteration and then evaluate the condition.    *)
(* A step result is [ev, code, k, kT, kF]: ev = "tau" (silent, continue with k), "cmd", "yield"    *)
(* (continue with k), "cond" (continue with kT or kF according to the outcome), "end".            *)

Task(t, nodes, i) == [t |-> t, nodes |-> nodes, i |-> i]
SeqTask(nodes) == Task("seq", nodes, 1)
StartStack(flow) == <<SeqTask(flow)>>

SRes(ev, code, k, kT, kF) == [ev |-> ev, code |-> code, k |-> k, kT |-> kT, kF |-> kF]

\* the next step's visible part only: <<ev, code>>
SEvent(sk) ==
    IF Len(sk) = 0 THEN <<"end", 0>>
    ELSE
    LET top == sk[1] IN
    IF top.t = "seq" THEN
        IF top.i > Len(top.nodes) THEN <<"tau", 0>>
        ELSE LET nd == top.nodes[top.i]
             IN  (CASE nd.k = "cmd" -> <<"cmd", nd.code>>
                    [] nd.k = "yield" -> <<"yield", 0>>
                    [] nd.k \in {"ift", "iff"} -> <<"cond", nd.code>>
                    [] nd.k = "while" -> <<"tau", 0>>
                    [] nd.k = "for" -> IF nd.init # 0 THEN <<"cmd", nd.init>> ELSE <<"tau", 0>>)
    ELSE LET nd == top.nodes[1]
         IN  (CASE top.t \in {"while", "for"} -> <<"cond", nd.code>>
                [] top.t = "iter" -> <<"cmd", nd.iter>>)

\* the step with its continuation(s)
SStep(sk) ==
    LET e == SEvent(sk) IN
    IF Len(sk) = 0 THEN SRes(e[1], e[2], <<>>, <<>>, <<>>)
    ELSE
    LET top == sk[1]
        rest == Tail(sk)
    IN
    IF top.t = "seq" THEN
        IF top.i > Len(top.nodes) THEN SRes(e[1], e[2], rest, <<>>, <<>>)
        ELSE
        LET nd == top.nodes[top.i]
            after == <<Task("seq", top.nodes, top.i + 1)>> \o rest
        IN  (CASE nd.k \in {"cmd", "yield"} -> SRes(e[1], e[2], after, <<>>, <<>>)
               [] nd.k = "ift" ->
                    SRes(e[1], e[2], <<>>,
                         <<SeqTask(nd.body)>> \o after,
                         IF nd.hasElse THEN <<SeqTask(nd.els)>> \o after ELSE after)
               [] nd.k = "iff" ->
                    SRes(e[1], e[2], <<>>,
                         IF nd.hasElse THEN <<SeqTask(nd.els)>> \o after ELSE after,
                         <<SeqTask(nd.body)>> \o after)
               [] nd.k = "while" -> SRes(e[1], e[2], <<Task("while", <<nd>>, 1)>> \o after, <<>>, <<>>)
               [] nd.k = "for" -> SRes(e[1], e[2], <<Task("for", <<nd>>, 1)>> \o after, <<>>, <<>>))
    ELSE
    LET nd == top.nodes[1] IN
    (CASE top.t = "while" -> SRes(e[1], e[2], <<>>, <<SeqTask(nd.body), top>> \o rest, rest)
       [] top.t = "for" -> SRes(e[1], e[2], <<>>, <<SeqTask(nd.body), Task("iter", <<nd>>, 1)>> \o rest, rest)
       [] top.t = "iter" -> SRes(e[1], e[2], <<Task("for", <<nd>>, 1)>> \o rest, <<>>, <<>>))

\* silent closure: advance to the next observable event (every silent step pops or unfolds a task,
\* so the recursion is bounded by the size of the flow)
RECURSIVE SAdv(_)
SAdv(sk) == LET r == SStep(sk) IN IF r.ev = "tau" THEN SAdv(r.k) ELSE r

-----------------------------------------------------------------------------
(* 3. Linear semantics: the resumable state machine over subroutines.                              *)
(* A location is [s, p] = statement p of subroutine s;  End = ran off the last subroutine;         *)
(* Bad = a jump to a label that is no subroutine's label.                                          *)
(*  - the machine's state is a subroutine label: a jump / if-branch DISPATCHES to the subroutine   *)
(*    whose first statement carries the target label (flat = TRUE relaxes this to "the statement   *)
(*    carrying the label", used for the unsplit intermediate programs of the algorithm);          *)
(*  - an if without a target for the outcome falls through to the next statement;                 *)
(*  - running off the end of a subroutine falls through into the next one (C++ switch without      *)
(*    break), off the last one ends the run;                                                       *)
(*  - yield suspends; the machine RESUMES AT THE START OF THE NEXT SUBROUTINE (flat = TRUE: at    *)
(*    the next statement), or ends if there is none.                                               *)

End == [s |-> 0, p |-> 0]
Bad == [s |-> -1, p |-> 0]
Loc(s, p) == [s |-> s, p |-> p]
StartLoc(subs) == IF Len(subs) = 0 THEN End ELSE Loc(1, 1)

Norm(subs, l) ==
    IF l.p <= Len(subs[l.s]) THEN l
    ELSE IF l.s < Len(subs) THEN Loc(l.s + 1, 1) ELSE End

NextLoc(subs, l) == Norm(subs, Loc(l.s, l.p + 1))

\* first location (in program order) carrying label L, or Bad
Goto(subs, flat, L) ==
    LET hits == IF flat
                THEN UNION {{Loc(s, p) : p \in {q \in 1..Len(subs[s]) : subs[s][q].label = L}} : s \in 1..Len(subs)}
                ELSE {Loc(s, 1) : s \in {t \in 1..Len(subs) : subs[t][1].label = L}}
    IN  IF hits = {} THEN Bad
        ELSE CHOOSE l \in hits : \A m \in hits : l.s < m.s \/ (l.s = m.s /\ l.p <= m.p)

LRes(ev, code, l, lT, lF) == [ev |-> ev, code |-> code, l |-> l, lT |-> lT, lF |-> lF]

\* the next step's visible part only: <<ev, code>>
LEvent(subs, l) ==
    IF l = End THEN <<"end", 0>>
    ELSE IF l = Bad THEN <<"badtarget", 0>>
    ELSE LET st == subs[l.s][l.p]
         IN  (CASE st.k = "cmd" -> <<"cmd", st.code>>
                [] st.k \in {"noop", "jump"} -> <<"tau", 0>>
                [] st.k = "if" -> <<"cond", st.code>>
                [] st.k = "yield" -> <<"yield", 0>>
                [] OTHER -> <<"unknown", 0>>)

LStep(subs, flat, l) ==
    IF l = End THEN LRes("end", 0, End, End, End)
    ELSE IF l = Bad THEN LRes("badtarget", 0, Bad, Bad, Bad)
    ELSE
    LET st == subs[l.s][l.p]
        nx == NextLoc(subs, l)
    IN  (CASE st.k = "cmd" -> LRes("cmd", st.code, nx, End, End)
           [] st.k = "noop" -> LRes("tau", 0, nx, End, End)
           [] st.k = "jump" -> LRes("tau", 0, Goto(subs, flat, st.target), End, End)
           [] st.k = "if" ->
                LRes("cond", st.code, End,
                     IF st.onT # None THEN Goto(subs, flat, st.onT) ELSE nx,
                     IF st.onF # None THEN Goto(subs, flat, st.onF) ELSE nx)
           [] st.k = "yield" ->
                LRes("yield", 0,
                     IF flat THEN nx ELSE IF l.s < Len(subs) THEN Loc(l.s + 1, 1) ELSE End,
                     End, End)
           [] OTHER -> LRes("unknown", 0, Bad, Bad, Bad))

\* silent closure with fuel: a program whose jumps form a silent cycle "diverges"
RECURSIVE LAdvF(_, _, _, _)
LAdvF(subs, flat, l, fuel) ==
    LET r == LStep(subs, flat, l) IN
    IF r.ev = "tau"
    THEN IF fuel = 0 THEN LRes("diverge", 0, Bad, Bad, Bad) ELSE LAdvF(subs, flat, r.l, fuel - 1)
    ELSE r

LAdv(subs, flat, l) == LAdvF(subs, flat, l, Len(Flatten(subs)) + 1)

\* the two machines agree on the next observable event
Agree(se, le) == /\ se.ev = le.ev
                 /\ (se.ev \in {"cmd", "cond"} => se.code = le.code)
AgreeEvents(s, l) == /\ s[1] = l[1]
                     /\ (s[1] \in {"cmd", "cond"} => s[2] = l[2])

-----------------------------------------------------------------------------
(* 4. Static clauses of the property                                                               *)

SubLabel(subs, s) == subs[s][1].label

\* "Subroutine labels are consecutive"
LabelsConsecutive(subs) ==
    /\ \A s \in 1..Len(subs) : Len(subs[s]) >= 1 /\ SubLabel(subs, s) # None
    /\ \A s \in 1..(Len(subs) - 1) : SubLabel(subs, s + 1) = SubLabel(subs, s) + 1

\* "every jump target exists": it is the label of a subroutine the machine can dispatch to
TargetsExist(subs) == TargetsOf(subs) \subseteq {SubLabel(subs, s) : s \in 1..Len(subs)}

\* flat reading for intermediate programs: some statement carries the label
TargetsExistFlat(subs) ==
    LET f == Flatten(subs) IN TargetsOf(subs) \subseteq ({f[i].label : i \in 1..Len(f)} \ {None})

\* only the first statement of a subroutine is labelled (the split is exactly at the labels)
OnlyFirstLabelled(subs) ==
    \A s \in 1..Len(subs) : \A p \in 2..Len(subs[s]) : subs[s][p].label = None

\* the state machine can resume after every yield: a yield is the last statement of its subroutine
YieldEndsSubroutine(subs) ==
    \A s \in 1..Len(subs) : \A p \in 1..Len(subs[s]) : subs[s][p].k = "yield" => p = Len(subs[s])

-----------------------------------------------------------------------------
(* 5. The case space: all flows of total size <= n (a node counts 1 plus the sizes of its bodies). *)
(* Shapes first (all codes 0), then a pre-order numbering gives every command, condition, init and *)
(* iteration its own code: node number j gets code 10j+1, init 10j+2, iteration 10j+3.             *)

LeafShape(k) == Node(k, 0, 0, 0, <<>>, FALSE, <<>>)
IfShape(k, body, hasElse, els) == Node(k, 0, 0, 0, body, hasElse, els)
LoopShape(k, init, body) == Node(k, 0, init, 0, body, FALSE, <<>>)

RECURSIVE NodeShapes(_), SeqShapes(_)
NodeShapes(n) ==
    IF n = 1
    THEN {LeafShape("cmd"), LeafShape("yield"),
          LoopShape("while", 0, <<>>), LoopShape("for", 0, <<>>), LoopShape("for", 1, <<>>)}
    ELSE LET bodies == SeqShapes(n - 1) IN
         {IfShape(k, b, FALSE, <<>>) : k \in {"ift", "iff"}, b \in bodies}
         \cup UNION {{IfShape(k, b, TRUE, e) : k \in {"ift", "iff"}, b \in SeqShapes(m), e \in SeqShapes(n - 1 - m)} :
                     m \in 1..(n - 1)}
         \cup {LoopShape("while", 0, b) : b \in bodies}
         \cup {LoopShape("for", i, b) : i \in {0, 1}, b \in bodies}
SeqShapes(n) ==
    IF n = 0 THEN {<<>>}
    ELSE UNION {{<<nd>> \o r : nd \in NodeShapes(m), r \in SeqShapes(n - m)} : m \in 1..n}

\* pre-order numbering; returns [ns |-> numbered sequence, next |-> next free number]
RECURSIVE NumberSeq(_, _)
NumberNode(nd, j) ==
    Eager(NumberSeq(nd.body, j + 1), LAMBDA b :
    Eager(NumberSeq(nd.els, b.next), LAMBDA e :
        [nd |-> Node(nd.k,
                      IF nd.k = "yield" THEN 0 ELSE 10 * j + 1,
                      IF nd.k = "for" /\ nd.init # 0 THEN 10 * j + 2 ELSE 0,
                      IF nd.k = "for" THEN 10 * j + 3 ELSE 0,
                      b.ns, nd.hasElse, e.ns),
         next |-> e.next]))
NumberSeq(ns, j) ==
    IF Len(ns) = 0 THEN [ns |-> <<>>, next |-> j]
    ELSE Eager(NumberNode(ns[1], j), LAMBDA h :
         Eager(NumberSeq(Tail(ns), h.next), LAMBDA t :
             [ns |-> <<h.nd>> \o t.ns, next |-> t.next]))

Numbered(shape) == NumberSeq(shape, 1).ns

FlowsOfSize(n) == {Numbered(sh) : sh \in SeqShapes(n)}
Flows(n) == UNION {FlowsOfSize(m) : m \in 0..n}
=============================================================================
