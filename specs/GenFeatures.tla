---- MODULE GenFeatures ----
(***************************************************************************************************)
(* C02 -- the space of *accepted* meta-models that stress the generators.                          *)
(*                                                                                                 *)
(* An abstract meta-model is a record                                                              *)
(*    [classes, enums, cprims, fns, consts, doc]                                                   *)
(* of sequences of records (declaration order = order in the rendered text).  Types are trees,     *)
(* invariants are structured atoms (length bound, pattern match, set membership, quantifier, raw), *)
(* patterns are regular-expression texts.  The module defines                                      *)
(*   * valid templates (Templates)             -- small models the front end accepts;              *)
(*   * feature actions  Apply(f, t, m)         -- each stays inside the accepted language but adds *)
(*     a construct that a generator (or the schema inference) has to cope with;                    *)
(*   * WellFormed(m)                           -- the structural rules the generator promises to   *)
(*     respect (names unique, references resolve, invariants talk about existing properties ...);  *)
(*     checked on every generated case (an ASSUME in GenFeaturesGen), so a slip in a feature       *)
(*     action is a specification error, not a finding;                                             *)
(*   * Cases(PairTemplates)                    -- templates x single features, and pairs of        *)
(*     features on the chosen templates (pairwise combination keeps the space finite).             *)
(* The module is variable-free; GenFeaturesGen.tla serialises the cases, harness/genlib.py renders *)
(* an abstract model to the Python subset.                                                         *)
(***************************************************************************************************)
EXTENDS Naturals, Sequences, FiniteSets, TLC

(* ---------------------------------------------------------------------------------------------- *)
(* Types                                                                                           *)
(* ---------------------------------------------------------------------------------------------- *)
Prim(n)   == [k |-> "prim", n |-> n]
Ref(n)    == [k |-> "ref", n |-> n]
ListOf(t) == [k |-> "list", of |-> t]
OptOf(t)  == [k |-> "opt", of |-> t]
StrT == Prim("str")
IntT == Prim("int")

IsOpt(t)  == t.k = "opt"
Beneath(t) == IF IsOpt(t) THEN t.of ELSE t

RECURSIVE RefsOf(_)
RefsOf(t) == CASE t.k = "prim" -> {}
               [] t.k = "ref"  -> {t.n}
               [] OTHER        -> RefsOf(t.of)

RECURSIVE Depth(_)
Depth(t) == IF t.k \in {"prim", "ref"} THEN 0 ELSE 1 + Depth(t.of)

(* ---------------------------------------------------------------------------------------------- *)
(* Invariant atoms.  "on" is a property name or "self" (constrained primitives).                   *)
(* ---------------------------------------------------------------------------------------------- *)
LenOps == {"lt", "le", "eq", "ge", "gt", "ne"}
\* n is a digit string so that values beyond 2^31 can be written
LenC(on, op, n, desc)     == [k |-> "len", on |-> on, op |-> op, n |-> n, flip |-> FALSE, desc |-> desc]
LenFlip(on, op, n, desc)  == [k |-> "len", on |-> on, op |-> op, n |-> n, flip |-> TRUE, desc |-> desc]
Match(fn, on, desc)       == [k |-> "match", fn |-> fn, on |-> on, desc |-> desc]
InSet(on, set, desc)      == [k |-> "in", on |-> on, set |-> set, desc |-> desc]
Raw(expr, uses, desc)     == [k |-> "raw", expr |-> expr, uses |-> uses, desc |-> desc]

Prop(n, t)        == [name |-> n, type |-> t, doc |-> ""]
PropDoc(n, t, d)  == [name |-> n, type |-> t, doc |-> d]

Class(n, bases, abstract, props) ==
    [name |-> n, bases |-> bases, abstract |-> abstract, impl |-> FALSE, wmt |-> "none",
     props |-> props, invs |-> <<>>, methods |-> <<>>, doc |-> ""]
Enum(n, lits)     == [name |-> n, lits |-> lits, doc |-> ""]
Lit(n, v)         == [name |-> n, value |-> v, doc |-> ""]
CPrim(n, base)    == [name |-> n, base |-> base, invs |-> <<>>, doc |-> ""]
\* verification functions: kind "pattern" (regex text), "impl" (implementation specific), "transp" (body text)
PatFn(n, regex)   == [name |-> n, kind |-> "pattern", regex |-> regex, args |-> <<[name |-> "text", type |-> StrT]>>, body |-> "", doc |-> "Check."]
ImplFn(n)         == [name |-> n, kind |-> "impl", regex |-> "", args |-> <<[name |-> "text", type |-> StrT]>>, body |-> "", doc |-> "Check."]
TranspFn(n, args, body) == [name |-> n, kind |-> "transp", regex |-> "", args |-> args, body |-> body, doc |-> "Check."]
\* constants: kind in {"str","int","bool","float","bytearray","set_str","set_int","set_enum"}
Const(n, kind, val)          == [name |-> n, kind |-> kind, value |-> val, values |-> <<>>, enum |-> "", superset_of |-> <<>>, doc |-> ""]
ConstSet(n, kind, vals, sup) == [name |-> n, kind |-> kind, value |-> "", values |-> vals, enum |-> "", superset_of |-> sup, doc |-> ""]
ConstEnumSet(n, e, vals)     == [name |-> n, kind |-> "set_enum", value |-> "", values |-> vals, enum |-> e, superset_of |-> <<>>, doc |-> ""]
\* methods of a class: kind "impl" | "understood" | "contract"
Method(n, kind)   == [name |-> n, kind |-> kind, doc |-> ""]

EmptyModel == [classes |-> <<>>, enums |-> <<>>, cprims |-> <<>>, fns |-> <<>>, consts |-> <<>>, doc |-> ""]

(* ---------------------------------------------------------------------------------------------- *)
(* Lookups and updates                                                                             *)
(* ---------------------------------------------------------------------------------------------- *)
Ran(s) == {s[i] : i \in DOMAIN s}
Names(s) == {s[i].name : i \in DOMAIN s}
IdxOf(s, n) == CHOOSE i \in DOMAIN s : s[i].name = n
Has(s, n) == \E i \in DOMAIN s : s[i].name = n
Get(s, n) == s[IdxOf(s, n)]

ClassOf(m, n) == Get(m.classes, n)

RECURSIVE AncestorsOf(_, _)
AncestorsOf(m, n) ==
    LET bs == Ran(ClassOf(m, n).bases) IN bs \cup UNION {AncestorsOf(m, b) : b \in bs}

\* all properties visible in a class (own and inherited)
AllProps(m, n) == UNION {Ran(ClassOf(m, a).props) : a \in AncestorsOf(m, n) \cup {n}}
PropNames(m, n) == {p.name : p \in AllProps(m, n)}
TypeOfProp(m, n, pn) == (CHOOSE p \in AllProps(m, n) : p.name = pn).type

UpdClass(m, n, f(_)) ==
    [m EXCEPT !.classes = [i \in DOMAIN m.classes |-> IF m.classes[i].name = n THEN f(m.classes[i]) ELSE m.classes[i]]]
UpdCPrim(m, n, f(_)) ==
    [m EXCEPT !.cprims = [i \in DOMAIN m.cprims |-> IF m.cprims[i].name = n THEN f(m.cprims[i]) ELSE m.cprims[i]]]

AddInv(m, cn, inv) == LET F(c) == [c EXCEPT !.invs = Append(@, inv)] IN UpdClass(m, cn, F)
AddCPrimInv(m, pn, inv) == LET F(c) == [c EXCEPT !.invs = Append(@, inv)] IN UpdCPrim(m, pn, F)
AddProp(m, cn, p) == LET F(c) == [c EXCEPT !.props = Append(@, p)] IN UpdClass(m, cn, F)
AddMethod(m, cn, me) == LET F(c) == [c EXCEPT !.methods = Append(@, me)] IN UpdClass(m, cn, F)
SetClassDoc(m, cn, d) == LET F(c) == [c EXCEPT !.doc = d] IN UpdClass(m, cn, F)
SetPropDoc(m, cn, pn, d) ==
    LET F(c) == [c EXCEPT !.props = [i \in DOMAIN c.props |-> IF c.props[i].name = pn THEN [c.props[i] EXCEPT !.doc = d] ELSE c.props[i]]]
    IN UpdClass(m, cn, F)
AddClass(m, c) == [m EXCEPT !.classes = Append(@, c)]
\* a class that others refer to must precede nothing in particular (the front end resolves names globally),
\* but we put new classes *before* the existing ones so that bases precede descendants in the text
AddClassFirst(m, c) == [m EXCEPT !.classes = <<c>> \o @]
AddEnum(m, e) == [m EXCEPT !.enums = Append(@, e)]
AddCPrim(m, c) == [m EXCEPT !.cprims = Append(@, c)]
AddFn(m, f) == [m EXCEPT !.fns = Append(@, f)]
AddConst(m, c) == [m EXCEPT !.consts = Append(@, c)]

\* fresh names: features applied twice (pairs of the same family) must not clash
Fresh(used, base) == IF base \notin used THEN base
                     ELSE IF (base \o "_b") \notin used THEN base \o "_b" ELSE base \o "_c"
AllTopNames(m) == Names(m.classes) \cup Names(m.enums) \cup Names(m.cprims) \cup Names(m.fns) \cup Names(m.consts)
InvDescs(m) == UNION {{c.invs[i].desc : i \in DOMAIN c.invs} : c \in Ran(m.classes) \cup Ran(m.cprims)}
FreshDesc(m, d) == Fresh(InvDescs(m), d)

(* ---------------------------------------------------------------------------------------------- *)
(* Well-formedness: what the generator promises about every case (spec sanity, not an oracle)      *)
(* ---------------------------------------------------------------------------------------------- *)
TypeNames(m) == Names(m.classes) \cup Names(m.enums) \cup Names(m.cprims)

RECURSIVE CPrimRoot(_, _)
CPrimRoot(m, n) == LET b == Get(m.cprims, n).base IN IF Has(m.cprims, b) THEN CPrimRoot(m, b) ELSE b

\* the primitive a (possibly optional) property type boils down to, "" if it is not string-like/list-like
LenApplies(m, t) ==
    LET u == Beneath(t) IN
    \/ u.k = "list"
    \/ u.k = "prim" /\ u.n \in {"str", "bytearray"}
    \/ u.k = "ref" /\ Has(m.cprims, u.n) /\ CPrimRoot(m, u.n) \in {"str", "bytearray"}
StrLike(m, t) ==
    LET u == Beneath(t) IN
    \/ u.k = "prim" /\ u.n = "str"
    \/ u.k = "ref" /\ Has(m.cprims, u.n) /\ CPrimRoot(m, u.n) = "str"

R_UniqueTopNames(m) ==
    Cardinality(AllTopNames(m)) = Len(m.classes) + Len(m.enums) + Len(m.cprims) + Len(m.fns) + Len(m.consts)
R_BasesExist(m) == \A c \in Ran(m.classes) : Ran(c.bases) \subseteq Names(m.classes) \ {c.name}
R_TypesResolve(m) == \A c \in Ran(m.classes) : \A p \in Ran(c.props) : RefsOf(p.type) \subseteq TypeNames(m)
R_NoRedeclaredProps(m) ==
    \A c \in Ran(m.classes) :
        /\ Cardinality(Names(c.props)) = Len(c.props)
        /\ \A a \in AncestorsOf(m, c.name) : Names(ClassOf(m, a).props) \cap Names(c.props) = {}
R_InvariantsResolve(m) ==
    /\ \A c \in Ran(m.classes) : \A i \in DOMAIN c.invs :
          LET v == c.invs[i] IN
          /\ v.k \in {"len", "match", "in"} => v.on \in PropNames(m, c.name)
          /\ v.k = "len" => LenApplies(m, TypeOfProp(m, c.name, v.on))
          /\ v.k = "match" => Has(m.fns, v.fn) /\ StrLike(m, TypeOfProp(m, c.name, v.on))
          /\ v.k = "in" => Has(m.consts, v.set)
          /\ v.k = "raw" => v.uses \subseteq PropNames(m, c.name)
    /\ \A c \in Ran(m.cprims) : \A i \in DOMAIN c.invs :
          LET v == c.invs[i] IN
          /\ v.k \in {"len", "match", "in"} => v.on = "self"
          /\ v.k = "match" => Has(m.fns, v.fn)
R_UniqueInvDescs(m) ==
    LET owners == Ran(m.classes) \cup Ran(m.cprims)
        total == LET RECURSIVE Sum(_) Sum(ss) == IF ss = {} THEN 0 ELSE LET x == CHOOSE y \in ss : TRUE IN Len(x.invs) + Sum(ss \ {x}) IN Sum(owners)
    IN Cardinality(InvDescs(m)) = total
R_ConstsResolve(m) ==
    \A c \in Ran(m.consts) :
        /\ c.kind = "set_enum" => Has(m.enums, c.enum) /\ Ran(c.values) \subseteq Names(Get(m.enums, c.enum).lits)
        /\ Ran(c.superset_of) \subseteq Names(m.consts) \ {c.name}
R_HasConcreteClass(m) == \E c \in Ran(m.classes) : ~c.abstract

WellFormed(m) ==
    /\ R_UniqueTopNames(m)
    /\ R_BasesExist(m)
    /\ R_TypesResolve(m)
    /\ R_NoRedeclaredProps(m)
    /\ R_InvariantsResolve(m)
    /\ R_UniqueInvDescs(m)
    /\ R_ConstsResolve(m)
    /\ R_HasConcreteClass(m)

(* ---------------------------------------------------------------------------------------------- *)
(* Templates.  Every template has the concrete class Something with a string-like property "text"  *)
(* and an int property "count"; "upper" names the declaration from which "text" inherits           *)
(* constraints (a parent class or a constrained primitive), if any.                                *)
(* ---------------------------------------------------------------------------------------------- *)
T_single ==
    [EmptyModel EXCEPT !.classes = <<Class("Something", <<>>, FALSE, <<Prop("text", StrT), Prop("count", IntT)>>)>>]
T_chain ==
    [EmptyModel EXCEPT !.classes = <<Class("Parent", <<>>, TRUE, <<Prop("text", StrT)>>),
                                     Class("Something", <<"Parent">>, FALSE, <<Prop("count", IntT)>>)>>]
T_concrete_chain ==
    [EmptyModel EXCEPT !.classes = <<Class("Parent", <<>>, FALSE, <<Prop("text", StrT)>>),
                                     Class("Something", <<"Parent">>, FALSE, <<Prop("count", IntT)>>)>>]
T_cprim ==
    [EmptyModel EXCEPT !.cprims = <<[CPrim("Name", "str") EXCEPT !.invs = <<LenC("self", "ge", "1", "Name is non-empty")>>]>>,
                       !.classes = <<Class("Something", <<>>, FALSE, <<Prop("text", Ref("Name")), Prop("count", IntT)>>)>>]
T_list ==
    [EmptyModel EXCEPT !.classes = <<Class("Item", <<>>, FALSE, <<Prop("value", StrT)>>),
                                     Class("Something", <<>>, FALSE, <<Prop("text", StrT), Prop("count", IntT), Prop("items", ListOf(Ref("Item")))>>)>>]
T_opt ==
    [EmptyModel EXCEPT !.classes = <<Class("Something", <<>>, FALSE, <<Prop("count", IntT), Prop("text", OptOf(StrT))>>)>>]

\* the parent is a marker class without properties that is declared AFTER its descendant (a meta-model is parsed,
\* never executed: the front end sorts the classes itself, so the declaration order is free)
T_late_parent ==
    [EmptyModel EXCEPT !.classes = <<Class("Something", <<"Late_marker">>, FALSE, <<Prop("text", StrT), Prop("count", IntT)>>),
                                     Class("Late_marker", <<>>, TRUE, <<>>)>>]

TemplateIds == {"single", "chain", "concrete_chain", "cprim", "list", "opt", "late_parent"}
Template(t) == CASE t = "single" -> T_single
                 [] t = "chain" -> T_chain
                 [] t = "concrete_chain" -> T_concrete_chain
                 [] t = "cprim" -> T_cprim
                 [] t = "list" -> T_list
                 [] t = "opt" -> T_opt
                 [] t = "late_parent" -> T_late_parent
\* where "text" gets inherited constraints from: <<kind, name>>
Upper(t) == CASE t \in {"chain", "concrete_chain"} -> <<"class", "Parent">>
              [] t = "cprim" -> <<"cprim", "Name">>
              [] OTHER -> <<"none", "">>
HasItems(t) == t = "list"

(* ---------------------------------------------------------------------------------------------- *)
(* Pattern catalogue (regular-expression texts; all anchored as the front end demands)             *)
(* ---------------------------------------------------------------------------------------------- *)
Patterns == [
    pat_simple      |-> "^[a-z]+$",
    pat_mid_caret   |-> "^a^b$",
    pat_mid_dollar  |-> "^a$b$",
    pat_nongreedy   |-> "^a+?b*?c??$",
    pat_straddle    |-> "^[\\uFFF0-\\U00010010]$",
    pat_astral      |-> "^[\\U00010000-\\U0010FFFF]*$",
    pat_astral_char |-> "^\\U0001F600+$",
    pat_alt_group   |-> "^(a|bc|)$",
    pat_nested      |-> "^((a|b)+(c(d|e))?)*$",
    pat_counted     |-> "^a{2,3}b{2}c{2,}d{0,1}$",
    pat_dot         |-> "^.*$",
    pat_negset      |-> "^[^a-c]+$",
    pat_negset_bmp  |-> "^[^\\x00-\\x1F\\uD800-\\uDFFF]*$",
    pat_empty       |-> "^$",
    pat_quotes      |-> "^[\"'`/\\\\]+$",
    pat_escaped     |-> "^\\.\\*\\+\\?\\(\\)\\[\\]\\^\\$\\#$",
    pat_hex         |-> "^\\x41\\u0042\\U00010000$",
    pat_set_specials|-> "^[\\-\\]\\^a.*+?(){}|$]$",
    pat_root_alt    |-> "^a$|^b$",
    pat_unsorted    |-> "^[z-a]$",
    pat_overlap     |-> "^[a-zb-c]$",
    pat_big_count   |-> "^a{1000}$",
    pat_nonascii    |-> "^[\\u00E4\\u00F6\\u00FC\\u20AC]+$",
    pat_tab_nl      |-> "^[\\t\\n\\r ]*$",
    pat_star_group  |-> "^(ab)*(cd)+(ef)?$",
    pat_set_only_dash |-> "^[-]$"
]
PatternIds == DOMAIN Patterns
\* near misses: the front end rejects these (no anchoring at the root of an alternation, ranges that are unsorted or overlap);
\* they are kept, on one template, to document where the accepted language ends
FrontRejectedPatterns == {"pat_root_alt", "pat_unsorted", "pat_overlap"}

(* ---------------------------------------------------------------------------------------------- *)
(* Description catalogue: every docutils construct the front end admits                            *)
(* ---------------------------------------------------------------------------------------------- *)
Docs == [
    doc_plain       |-> "Represent something.",
    doc_remarks     |-> "Represent something.\n\nMore remarks here.\n\nAnd a third paragraph.",
    doc_class_ref   |-> "Represent something, see :class:`Something`.",
    doc_attr_ref    |-> "Represent something, see :attr:`Something.count` and :attr:`count`.",
    doc_literal     |-> "Represent ``something`` with ``<xml & \"quotes\">`` and ``*/`` and ``\\\\``.",
    doc_emphasis    |-> "Represent *something* important.",
    doc_bullets     |-> "Represent something.\n\n* first item\n* second item with :class:`Something`\n",
    doc_note        |-> "Represent something.\n\n.. note::\n\n    A note on something.\n",
    doc_link        |-> "Represent something, see https://example.com/a?b=c&d=e for more.",
    doc_constraint  |-> "Represent something.\n\n:constraint AASd-001:\n\n    Something must hold.\n",
    doc_constraintref |-> "Represent something.\n\n:constraint AASd-001:\n\n    Something must hold, unlike :constraintref:`AASd-001`.\n",
    doc_special     |-> "Represent <something> & \"others\" with 'quotes', a backslash \\\\ and */ and /* and {curly}.",
    doc_nonascii    |-> "Represent {{00E4}}{{00F6}}{{00FC}} {{20AC}} {{1F600}} something.",
    doc_long        |-> "Represent something with a very long summary line that needs wrapping because it is much longer than eighty characters in total, the the an a an.",
    doc_trailing_quote |-> "Represent \"something\"",
    doc_nested_bullets |-> "Represent something.\n\n* first\n\n  * nested one\n  * nested two\n\n* second\n",
    doc_note_in_bullet |-> "Represent something.\n\n* first\n\n  .. note::\n\n      Nested note.\n"
]
DocIds == DOMAIN Docs

(* ---------------------------------------------------------------------------------------------- *)
(* Features                                                                                        *)
(* ---------------------------------------------------------------------------------------------- *)
S == "Something"

\* --- length bounds on "text" ---------------------------------------------------------------
LenFeatures == {
    "len_ge0", "len_eq0", "len_le0", "len_lt0", "len_gt0", "len_ge0_le5", "len_flip_ge0", "len_flip_eq0",
    "len_eq3_twice", "len_same_ge5_le3", "len_same_eq2_eq3", "len_big", "len_ne0",
    "len_inh_ge5_le3", "len_inh_eq0", "len_inh_ge0_le5", "len_inh_eq2_eq3", "len_inh_eq3_eq3",
    "len_items_ge0", "len_items_eq0", "len_items_ge5_le3", "len_upper_same_ge5_le3", "len_upper_same_eq2_eq3"}

\* --- patterns on "text" -----------------------------------------------------------------------
PatFeatures == PatternIds \cup {"pat_two", "pat_inh_two", "pat_inh_three", "pat_on_cprim", "pat_unused_fn", "pat_fstring"}

\* --- property types added to Something ---------------------------------------------------------
TypeFeatures == {
    "ty_list_int", "ty_list_str", "ty_list_bool", "ty_list_float", "ty_list_bytes", "ty_list_enum", "ty_list_cprim",
    "ty_list_list_int", "ty_list_list_item", "ty_list_list_list_int", "ty_opt_list_int", "ty_opt_list_str", "ty_opt_list_item", "ty_opt_list_enum",
    "ty_opt_list_cprim", "ty_opt_list_list_int",
    "ty_opt_int", "ty_opt_float", "ty_opt_bool", "ty_opt_bytes", "ty_opt_enum", "ty_opt_item", "ty_opt_cprim",
    "ty_float", "ty_bool", "ty_bytes", "ty_enum", "ty_item",
    "ty_self_opt", "ty_self_list", "ty_abstract_prop", "ty_list_abstract", "ty_opt_abstract",
    "ty_cprim_int", "ty_cprim_float", "ty_cprim_bool", "ty_cprim_bytes", "ty_cprim_chain", "ty_list_cprim_int",
    "ty_many_props", "ty_abs_list_list_int", "ty_abs_list_int", "ty_abs_opt_list_str", "ty_abs_list_enum"}

\* --- structure ---------------------------------------------------------------------------------
StructFeatures == {
    "st_abstract_childless", "st_abstract_childless_used", "st_enum_empty", "st_enum_empty_used", "st_enum_unused", "st_enum_odd_values",
    "st_enum_one_literal", "st_impl_class", "st_impl_class_unused", "st_impl_method", "st_understood_method", "st_contract_method",
    "st_impl_fn", "st_impl_fn_unused", "st_transp_fn", "st_transp_fn_two_args",
    "st_const_scalars", "st_const_set_str", "st_const_set_int", "st_const_set_enum", "st_const_set_superset", "st_const_set_empty",
    "st_const_str_odd", "st_in_const_set", "st_in_const_set_enum",
    "st_wmt_true", "st_wmt_false", "st_no_props", "st_only_opt_props", "st_diamond", "st_deep", "st_two_roots", "st_cprim_unused",
    "st_cprim_chain_invs", "st_class_inv_on_inherited", "st_abstract_with_inv", "st_diamond_cprim", "st_diamond_documented", "st_child_before_parent", "st_transp_fn_len_no_args"}

\* --- invariant expression shapes -----------------------------------------------------------------
ExprFeatures == {
    "ex_implication", "ex_is_none", "ex_all_items", "ex_any_items", "ex_all_range", "ex_index", "ex_arith", "ex_str_cmp", "ex_nested_attr",
    "ex_enum_eq", "ex_bool_prop", "ex_chain_cmp", "ex_and_or_mix", "ex_fn_two_args", "ex_len_vs_count", "ex_not", "ex_float_cmp", "ex_str_const",
    "ex_nested_all", "ex_int_big", "ex_neg_int", "ex_str_escapes", "ex_len_two_args_cprim"}

\* --- identifiers that collide or are awkward in some target ---------------------------------------
NameFeatures == {
    "nm_class_case_collision", "nm_class_enum_collision", "nm_prop_case_collision", "nm_prop_method_collision", "nm_literal_collision",
    "nm_const_collision", "nm_fn_collision", "nm_class_interface_collision", "nm_cprim_class_collision", "nm_keyword_props", "nm_keyword_class",
    "nm_keyword_literals", "nm_digit_parts", "nm_upper_parts", "nm_long_name", "nm_prop_like_builtin", "nm_literal_value_collision",
    "nm_arg_collision", "nm_class_like_generated", "nm_lowercase_class", "nm_lowercase_enum", "nm_uppercase_members"}

DocFeatures == {"doc_on_class", "doc_on_prop", "doc_on_enum", "doc_on_literal", "doc_on_cprim", "doc_on_fn", "doc_on_const", "doc_on_module",
                "doc_on_method", "doc_on_abstract"}

SimpleFeatures == LenFeatures \cup PatFeatures \cup TypeFeatures \cup StructFeatures \cup ExprFeatures \cup NameFeatures
\* a documentation feature is a pair <<site, text id>>
DocFeaturePairsAll == {<<s, d>> : s \in DocFeatures, d \in DocIds}

(* applicability -------------------------------------------------------------------------------- *)
NeedsUpper(f) == f \in {"len_upper_same_ge5_le3", "len_upper_same_eq2_eq3", "pat_inh_three", "len_inh_ge5_le3", "len_inh_eq0", "len_inh_ge0_le5", "len_inh_eq2_eq3", "len_inh_eq3_eq3", "pat_inh_two"}
NeedsItems(f) == f \in {"len_items_ge0", "len_items_eq0", "len_items_ge5_le3", "ex_all_items", "ex_any_items", "ex_all_range", "ex_index", "ex_nested_all"}
NeedsCPrim(f) == f \in {"pat_on_cprim", "st_cprim_chain_invs", "ex_len_two_args_cprim"}
NeedsParent(f) == f \in {"ty_abs_list_list_int", "ty_abs_list_int", "ty_abs_opt_list_str", "ty_abs_list_enum", "st_wmt_true", "st_wmt_false", "st_class_inv_on_inherited", "st_abstract_with_inv", "doc_on_abstract"}
NeedsPlainText(f) == f \in {"ex_str_cmp", "ex_str_const", "ex_str_escapes", "ex_and_or_mix"}

Applicable(f, t) ==
    /\ NeedsUpper(f) => Upper(t)[1] # "none"
    /\ NeedsItems(f) => HasItems(t)
    /\ NeedsCPrim(f) => t = "cprim"
    /\ NeedsParent(f) => t \in {"chain", "concrete_chain"}
    /\ f = "st_abstract_with_inv" => t = "chain"
    /\ f \in {"ty_abs_list_list_int", "ty_abs_list_int", "ty_abs_opt_list_str", "ty_abs_list_enum"} => t = "chain"
    /\ f = "doc_on_abstract" => t = "chain"
    /\ NeedsPlainText(f) => t \notin {"opt"}

(* helpers used by the feature actions ------------------------------------------------------------ *)
TextOn(m) == TypeOfProp(m, S, "text")
\* add an invariant about "text" at the upper declaration (parent class or constrained primitive)
AddUpperInv(m, t, mk(_)) ==
    IF Upper(t)[1] = "class" THEN AddInv(m, Upper(t)[2], mk("text"))
    ELSE AddCPrimInv(m, Upper(t)[2], mk("self"))
WithEnum(m) == IF Has(m.enums, "Color") THEN m ELSE AddEnum(m, Enum("Color", <<Lit("Red", "red"), Lit("Dark_green", "dark-green")>>))
WithItem(m) == IF Has(m.classes, "Item") THEN m ELSE AddClassFirst(m, Class("Item", <<>>, FALSE, <<Prop("value", StrT)>>))
WithCPrim(m, n, base) == IF Has(m.cprims, n) THEN m ELSE AddCPrim(m, CPrim(n, base))
WithShape(m) ==
    IF Has(m.classes, "Shape") THEN m
    ELSE AddClassFirst(AddClassFirst(m, Class("Circle", <<"Shape">>, FALSE, <<>>)), [Class("Shape", <<>>, TRUE, <<Prop("area", IntT)>>) EXCEPT !.wmt = "true"])
NewProp(m, base) == Fresh(PropNames(m, S), base)
AddTyped(m, base, ty) == AddProp(m, S, Prop(NewProp(m, base), ty))
AddPat(m, id, regex) ==
    LET fn == Fresh(AllTopNames(m), "matches_" \o id) IN
    AddInv(AddFn(m, PatFn(fn, regex)), S, Match(fn, "text", FreshDesc(m, "Text matches " \o id)))

LenOnText(m, op, n, d) == AddInv(m, S, LenC("text", op, n, FreshDesc(m, d)))

ApplyLen(f, t, m) ==
    CASE f = "len_ge0"  -> LenOnText(m, "ge", "0", "Text at least 0")
      [] f = "len_eq0"  -> LenOnText(m, "eq", "0", "Text exactly 0")
      [] f = "len_le0"  -> LenOnText(m, "le", "0", "Text at most 0")
      [] f = "len_lt0"  -> LenOnText(m, "lt", "0", "Text below 0")
      [] f = "len_gt0"  -> LenOnText(m, "gt", "0", "Text above 0")
      [] f = "len_ne0"  -> LenOnText(m, "ne", "0", "Text not 0")
      [] f = "len_ge0_le5" -> LenOnText(LenOnText(m, "ge", "0", "Text at least 0"), "le", "5", "Text at most 5")
      [] f = "len_flip_ge0" -> AddInv(m, S, LenFlip("text", "le", "0", FreshDesc(m, "0 at most text")))
      [] f = "len_flip_eq0" -> AddInv(m, S, LenFlip("text", "eq", "0", FreshDesc(m, "0 equals text")))
      [] f = "len_eq3_twice" -> LenOnText(LenOnText(m, "eq", "3", "Text exactly 3"), "eq", "3", "Text exactly 3 again")
      [] f = "len_same_ge5_le3" -> LenOnText(LenOnText(m, "ge", "5", "Text at least 5"), "le", "3", "Text at most 3")
      [] f = "len_same_eq2_eq3" -> LenOnText(LenOnText(m, "eq", "2", "Text exactly 2"), "eq", "3", "Text exactly 3")
      [] f = "len_big" -> LenOnText(m, "le", "4294967296", "Text at most 2^32")
      [] f = "len_inh_ge5_le3" ->
            LET U(on) == LenC(on, "ge", "5", "Upper at least 5") IN LenOnText(AddUpperInv(m, t, U), "le", "3", "Text at most 3")
      [] f = "len_inh_eq0" ->
            LET U(on) == LenC(on, "eq", "0", "Upper exactly 0") IN AddUpperInv(m, t, U)
      [] f = "len_inh_ge0_le5" ->
            LET U(on) == LenC(on, "ge", "0", "Upper at least 0") IN LenOnText(AddUpperInv(m, t, U), "le", "5", "Text at most 5")
      [] f = "len_inh_eq2_eq3" ->
            LET U(on) == LenC(on, "eq", "2", "Upper exactly 2") IN LenOnText(AddUpperInv(m, t, U), "eq", "3", "Text exactly 3")
      [] f = "len_inh_eq3_eq3" ->
            LET U(on) == LenC(on, "eq", "3", "Upper exactly 3") IN LenOnText(AddUpperInv(m, t, U), "eq", "3", "Text exactly 3")
      \* the *upper* declaration (a parent with a descendant, or the constrained primitive) contradicts itself
      [] f = "len_upper_same_ge5_le3" ->
            LET U1(on) == LenC(on, "ge", "5", "Upper itself at least 5")
                U2(on) == LenC(on, "le", "3", "Upper itself at most 3") IN AddUpperInv(AddUpperInv(m, t, U1), t, U2)
      [] f = "len_upper_same_eq2_eq3" ->
            LET U1(on) == LenC(on, "eq", "2", "Upper itself exactly 2")
                U2(on) == LenC(on, "eq", "3", "Upper itself exactly 3") IN AddUpperInv(AddUpperInv(m, t, U1), t, U2)
      [] f = "len_items_ge0" -> AddInv(m, S, LenC("items", "ge", "0", FreshDesc(m, "Items at least 0")))
      [] f = "len_items_eq0" -> AddInv(m, S, LenC("items", "eq", "0", FreshDesc(m, "Items exactly 0")))
      [] f = "len_items_ge5_le3" ->
            AddInv(AddInv(m, S, LenC("items", "ge", "5", FreshDesc(m, "Items at least 5"))), S, LenC("items", "le", "3", FreshDesc(m, "Items at most 3")))

ApplyPat(f, t, m) ==
    CASE f \in PatternIds -> AddPat(m, f, Patterns[f])
      [] f = "pat_two" -> AddPat(AddPat(m, "first", "^[a-z]*$"), "second", "^.{2,5}$")
      [] f = "pat_inh_two" ->
            LET fn == Fresh(AllTopNames(m), "matches_upper")
                U(on) == Match(fn, on, "Upper matches") IN
            AddPat(AddUpperInv(AddFn(m, PatFn(fn, "^[a-z]*$")), t, U), "lower", "^.{2,5}$")
      [] f = "pat_inh_three" ->
            \* one pattern at the upper declaration, three more added below it
            LET fn == Fresh(AllTopNames(m), "matches_upper_first")
                U(on) == Match(fn, on, "Upper matches first") IN
            AddPat(AddPat(AddPat(AddUpperInv(AddFn(m, PatFn(fn, "^[a-z]*$")), t, U), "lower_a", "^.{2,5}$"), "lower_b", "^[^x]*$"), "lower_c", "^(ab|cd)*$")
      [] f = "pat_on_cprim" ->
            LET fn == Fresh(AllTopNames(m), "matches_name") IN
            AddCPrimInv(AddFn(m, PatFn(fn, "^[A-Z][a-z]*$")), "Name", Match(fn, "self", "Name matches"))
      [] f = "pat_unused_fn" -> AddFn(m, PatFn(Fresh(AllTopNames(m), "matches_unused"), "^x+$"))
      [] f = "pat_fstring" ->
            LET fn == Fresh(AllTopNames(m), "matches_composed") IN
            AddInv(AddFn(m, [PatFn(fn, "") EXCEPT !.kind = "pattern_f"]), S, Match(fn, "text", FreshDesc(m, "Text matches composed")))

ApplyType(f, t, m) ==
    CASE f = "ty_list_int"   -> AddTyped(m, "some_ints", ListOf(IntT))
      [] f = "ty_list_str"   -> AddTyped(m, "some_strs", ListOf(StrT))
      [] f = "ty_list_bool"  -> AddTyped(m, "some_bools", ListOf(Prim("bool")))
      [] f = "ty_list_float" -> AddTyped(m, "some_floats", ListOf(Prim("float")))
      [] f = "ty_list_bytes" -> AddTyped(m, "some_blobs", ListOf(Prim("bytearray")))
      [] f = "ty_list_enum"  -> AddTyped(WithEnum(m), "some_colors", ListOf(Ref("Color")))
      [] f = "ty_list_cprim" -> AddTyped(WithCPrim(m, "Label", "str"), "some_labels", ListOf(Ref("Label")))
      [] f = "ty_list_list_int"  -> AddTyped(m, "matrix", ListOf(ListOf(IntT)))
      [] f = "ty_list_list_item" -> AddTyped(WithItem(m), "item_matrix", ListOf(ListOf(Ref("Item"))))
      [] f = "ty_list_list_list_int" -> AddTyped(m, "cube", ListOf(ListOf(ListOf(IntT))))
      [] f = "ty_opt_list_int"   -> AddTyped(m, "maybe_ints", OptOf(ListOf(IntT)))
      [] f = "ty_opt_list_str"   -> AddTyped(m, "maybe_strs", OptOf(ListOf(StrT)))
      [] f = "ty_opt_list_item"  -> AddTyped(WithItem(m), "maybe_items", OptOf(ListOf(Ref("Item"))))
      [] f = "ty_opt_list_enum"  -> AddTyped(WithEnum(m), "maybe_colors", OptOf(ListOf(Ref("Color"))))
      [] f = "ty_opt_list_cprim" -> AddTyped(WithCPrim(m, "Label", "str"), "maybe_labels", OptOf(ListOf(Ref("Label"))))
      [] f = "ty_opt_list_list_int" -> AddTyped(m, "maybe_matrix", OptOf(ListOf(ListOf(IntT))))
      [] f = "ty_opt_int"    -> AddTyped(m, "maybe_int", OptOf(IntT))
      [] f = "ty_opt_float"  -> AddTyped(m, "maybe_float", OptOf(Prim("float")))
      [] f = "ty_opt_bool"   -> AddTyped(m, "maybe_bool", OptOf(Prim("bool")))
      [] f = "ty_opt_bytes"  -> AddTyped(m, "maybe_blob", OptOf(Prim("bytearray")))
      [] f = "ty_opt_enum"   -> AddTyped(WithEnum(m), "maybe_color", OptOf(Ref("Color")))
      [] f = "ty_opt_item"   -> AddTyped(WithItem(m), "maybe_item", OptOf(Ref("Item")))
      [] f = "ty_opt_cprim"  -> AddTyped(WithCPrim(m, "Label", "str"), "maybe_label", OptOf(Ref("Label")))
      [] f = "ty_float"      -> AddTyped(m, "ratio", Prim("float"))
      [] f = "ty_bool"       -> AddTyped(m, "flag", Prim("bool"))
      [] f = "ty_bytes"      -> AddTyped(m, "blob", Prim("bytearray"))
      [] f = "ty_enum"       -> AddTyped(WithEnum(m), "color", Ref("Color"))
      [] f = "ty_item"       -> AddTyped(WithItem(m), "an_item", Ref("Item"))
      [] f = "ty_self_opt"   -> AddTyped(m, "next_one", OptOf(Ref(S)))
      [] f = "ty_self_list"  -> AddTyped(m, "children", ListOf(Ref(S)))
      [] f = "ty_abstract_prop" -> AddTyped(WithShape(m), "shape", Ref("Shape"))
      [] f = "ty_list_abstract" -> AddTyped(WithShape(m), "shapes", ListOf(Ref("Shape")))
      [] f = "ty_opt_abstract"  -> AddTyped(WithShape(m), "maybe_shape", OptOf(Ref("Shape")))
      [] f = "ty_cprim_int"   -> AddTyped(WithCPrim(m, "Small_int", "int"), "small", Ref("Small_int"))
      [] f = "ty_cprim_float" -> AddTyped(WithCPrim(m, "Ratio", "float"), "a_ratio", Ref("Ratio"))
      [] f = "ty_cprim_bool"  -> AddTyped(WithCPrim(m, "Flag", "bool"), "a_flag", Ref("Flag"))
      [] f = "ty_cprim_bytes" -> AddTyped(WithCPrim(m, "Blob", "bytearray"), "a_blob", Ref("Blob"))
      [] f = "ty_cprim_chain" -> AddTyped(WithCPrim(WithCPrim(m, "Label", "str"), "Short_label", "Label"), "short_label", Ref("Short_label"))
      [] f = "ty_list_cprim_int" -> AddTyped(WithCPrim(m, "Small_int", "int"), "smalls", ListOf(Ref("Small_int")))
      \* the same list shapes declared in the ABSTRACT parent (a check that only walks the concrete classes misses them)
      [] f = "ty_abs_list_list_int" -> AddProp(m, "Parent", Prop("parent_matrix", ListOf(ListOf(IntT))))
      [] f = "ty_abs_list_int"      -> AddProp(m, "Parent", Prop("parent_ints", ListOf(IntT)))
      [] f = "ty_abs_opt_list_str"  -> AddProp(m, "Parent", Prop("parent_strs", OptOf(ListOf(StrT))))
      [] f = "ty_abs_list_enum"     -> AddProp(WithEnum(m), "Parent", Prop("parent_colors", ListOf(Ref("Color"))))
      [] f = "ty_many_props" ->
            AddTyped(AddTyped(AddTyped(AddTyped(m, "alpha", IntT), "beta", OptOf(StrT)), "gamma", Prim("bool")), "fourth", OptOf(Prim("float")))

ApplyStruct(f, t, m) ==
    CASE f = "st_abstract_childless" -> AddClassFirst(m, Class(Fresh(AllTopNames(m), "Lonely"), <<>>, TRUE, <<Prop("weight", IntT)>>))
      [] f = "st_abstract_childless_used" ->
            AddTyped(AddClassFirst(m, Class("Lonely_used", <<>>, TRUE, <<Prop("weight", IntT)>>)), "maybe_lonely", OptOf(Ref("Lonely_used")))
      [] f = "st_enum_empty" -> AddEnum(m, Enum(Fresh(AllTopNames(m), "Nothing"), <<>>))
      [] f = "st_enum_empty_used" -> AddTyped(AddEnum(m, Enum("Nothing_used", <<>>)), "maybe_nothing", OptOf(Ref("Nothing_used")))
      [] f = "st_enum_unused" -> AddEnum(m, Enum(Fresh(AllTopNames(m), "Unused_enum"), <<Lit("One", "1"), Lit("Two", "2")>>))
      [] f = "st_enum_odd_values" ->
            AddTyped(AddEnum(m, Enum("Odd", <<Lit("Empty", ""), Lit("Quote", "a\"b'c"), Lit("Backslash", "a\\b"), Lit("Space", " x "),
                                                Lit("Umlaut", "{{00E4}}"), Lit("Angle", "<&>"), Lit("Newline", "a\nb")>>)), "odd", Ref("Odd"))
      [] f = "st_enum_one_literal" -> AddTyped(AddEnum(m, Enum("Single", <<Lit("Only", "only")>>)), "single", Ref("Single"))
      [] f = "st_impl_class" ->
            AddTyped(AddClassFirst(m, [Class("Special", <<>>, FALSE, <<Prop("payload", StrT)>>) EXCEPT !.impl = TRUE]), "special", OptOf(Ref("Special")))
      [] f = "st_impl_class_unused" -> AddClassFirst(m, [Class("Special_unused", <<>>, FALSE, <<Prop("payload", StrT)>>) EXCEPT !.impl = TRUE])
      [] f = "st_impl_method" -> AddMethod(m, S, Method(Fresh({}, "compute"), "impl"))
      [] f = "st_understood_method" -> AddMethod(m, S, Method("get_four", "understood"))
      [] f = "st_contract_method" -> AddMethod(m, S, Method("scale_by", "contract"))
      [] f = "st_impl_fn" ->
            LET fn == Fresh(AllTopNames(m), "is_special") IN
            AddInv(AddFn(m, ImplFn(fn)), S, Match(fn, "text", FreshDesc(m, "Text is special")))
      [] f = "st_impl_fn_unused" -> AddFn(m, ImplFn(Fresh(AllTopNames(m), "is_unused_special")))
      [] f = "st_transp_fn" ->
            LET fn == Fresh(AllTopNames(m), "is_longish") IN
            AddInv(AddFn(m, TranspFn(fn, <<[name |-> "text", type |-> StrT]>>, "len(text) > 2")), S, Match(fn, "text", FreshDesc(m, "Text is longish")))
      [] f = "st_transp_fn_two_args" ->
            LET fn == Fresh(AllTopNames(m), "is_longer_than") IN
            AddInv(AddFn(m, TranspFn(fn, <<[name |-> "text", type |-> StrT], [name |-> "limit", type |-> IntT]>>, "len(text) > limit")), S,
                   Raw(fn \o "(self.text, self.count)", {"text", "count"}, FreshDesc(m, "Text is longer than count")))
      [] f = "st_const_scalars" ->
            AddConst(AddConst(AddConst(AddConst(m, Const("Some_str", "str", "some value")), Const("Some_int", "int", "1984")),
                     Const("Some_bool", "bool", "True")), Const("Some_float", "float", "1.5"))
      [] f = "st_const_set_str" -> AddConst(m, ConstSet(Fresh(AllTopNames(m), "Some_strs"), "set_str", <<"a", "b c", "d\"e">>, <<>>))
      [] f = "st_const_set_int" -> AddConst(m, ConstSet(Fresh(AllTopNames(m), "Some_ints"), "set_int", <<"1", "2", "30">>, <<>>))
      [] f = "st_const_set_enum" -> AddConst(WithEnum(m), ConstEnumSet(Fresh(AllTopNames(m), "Warm_colors"), "Color", <<"Red">>))
      [] f = "st_const_set_superset" ->
            AddConst(AddConst(m, ConstSet("Base_set", "set_str", <<"a", "b">>, <<>>)), ConstSet("Extended_set", "set_str", <<"a", "b", "c">>, <<"Base_set">>))
      [] f = "st_const_set_empty" -> AddConst(m, ConstSet(Fresh(AllTopNames(m), "Empty_strs"), "set_str", <<>>, <<>>))
      [] f = "st_const_str_odd" -> AddConst(m, Const(Fresh(AllTopNames(m), "Odd_str"), "str", "a\"b'c\\\\d\\n{{00E4}} */ ${x}"))
      [] f = "st_in_const_set" ->
            AddInv(AddConst(m, ConstSet("Allowed_texts", "set_str", <<"yes", "no">>, <<>>)), S, InSet("text", "Allowed_texts", FreshDesc(m, "Text is allowed")))
      [] f = "st_in_const_set_enum" ->
            LET m1 == AddTyped(WithEnum(m), "shade", Ref("Color")) IN
            AddInv(AddConst(m1, ConstEnumSet("Allowed_colors", "Color", <<"Red", "Dark_green">>)), S, InSet("shade", "Allowed_colors", FreshDesc(m, "Shade is allowed")))
      [] f = "st_wmt_true" -> LET F(c) == [c EXCEPT !.wmt = "true"] IN UpdClass(m, "Parent", F)
      [] f = "st_wmt_false" -> LET F(c) == [c EXCEPT !.wmt = "false"] IN UpdClass(m, "Parent", F)
      [] f = "st_no_props" -> AddClass(m, Class(Fresh(AllTopNames(m), "Empty_one"), <<>>, FALSE, <<>>))
      [] f = "st_only_opt_props" -> AddClass(m, Class(Fresh(AllTopNames(m), "All_optional"), <<>>, FALSE, <<Prop("first", OptOf(StrT)), Prop("second", OptOf(IntT))>>))
      [] f = "st_diamond" ->
            AddClass(AddClass(AddClass(AddClass(m, Class("Top", <<>>, TRUE, <<Prop("top_value", IntT)>>)), Class("Left", <<"Top">>, TRUE, <<Prop("left_value", IntT)>>)),
                     Class("Right", <<"Top">>, TRUE, <<Prop("right_value", IntT)>>)), Class("Bottom", <<"Left", "Right">>, FALSE, <<Prop("bottom_value", IntT)>>))
      [] f = "st_deep" ->
            AddClass(AddClass(AddClass(AddClass(m, [Class("Level_a", <<>>, TRUE, <<Prop("a_value", IntT)>>) EXCEPT !.wmt = "true"]), Class("Level_b", <<"Level_a">>, FALSE, <<Prop("b_value", OptOf(StrT))>>)),
                     Class("Level_c", <<"Level_b">>, TRUE, <<>>)), Class("Level_d", <<"Level_c">>, FALSE, <<Prop("d_value", ListOf(Ref("Level_a")))>>))
      [] f = "st_two_roots" -> AddClass(m, Class(Fresh(AllTopNames(m), "Another_root"), <<>>, FALSE, <<Prop("other", OptOf(Ref(S)))>>))
      [] f = "st_cprim_unused" -> AddCPrim(m, [CPrim(Fresh(AllTopNames(m), "Unused_label"), "str") EXCEPT !.invs = <<LenC("self", "le", "10", "Unused label at most 10")>>])
      [] f = "st_cprim_chain_invs" ->
            LET m1 == AddCPrim(m, [CPrim("Short_name", "Name") EXCEPT !.invs = <<LenC("self", "le", "8", "Short name at most 8")>>]) IN
            AddTyped(m1, "short_name", Ref("Short_name"))
      [] f = "st_class_inv_on_inherited" -> AddInv(m, S, Raw("self.count > 0 or len(self.text) > 0", {"count", "text"}, FreshDesc(m, "Count or text")))
      [] f = "st_diamond_cprim" ->
            \* a property typed with a constrained primitive that reaches a class along two inheritance paths
            LET m1 == AddCPrim(m, [CPrim("Tag", "str") EXCEPT !.invs = <<LenC("self", "gt", "0", "Tag is non-empty")>>])
                D(c, d) == [c EXCEPT !.doc = d]
                m2 == AddClass(AddClass(AddClass(AddClass(m1,
                          D(Class("Top_t", <<>>, TRUE, <<Prop("tag", Ref("Tag"))>>), "Represent the top.")),
                          D(Class("Left_t", <<"Top_t">>, TRUE, <<>>), "Represent the left.")),
                          D(Class("Right_t", <<"Top_t">>, TRUE, <<>>), "Represent the right.")),
                          D(Class("Bottom_t", <<"Left_t", "Right_t">>, FALSE, <<>>), "Represent the bottom."))
            IN AddTyped(m2, "bottom", OptOf(Ref("Bottom_t")))
      [] f = "st_diamond_documented" ->
            LET D(c, d) == [c EXCEPT !.doc = d] IN
            AddClass(AddClass(AddClass(AddClass(m, D(Class("Top_d", <<>>, TRUE, <<Prop("top_value", IntT)>>), "Represent the top.")),
                     D(Class("Left_d", <<"Top_d">>, TRUE, <<Prop("left_value", IntT)>>), "Represent the left.")),
                     D(Class("Right_d", <<"Top_d">>, TRUE, <<Prop("right_value", IntT)>>), "Represent the right.")),
                     D(Class("Bottom_d", <<"Left_d", "Right_d">>, FALSE, <<Prop("bottom_value", IntT)>>), "Represent the bottom."))
      [] f = "st_child_before_parent" ->
            AddClass(AddClass(m, Class("Early_child", <<"Late_base">>, FALSE, <<Prop("early_value", StrT)>>)), Class("Late_base", <<>>, TRUE, <<>>))
      [] f = "st_transp_fn_len_no_args" ->
            LET fn == Fresh(AllTopNames(m), "is_nothing") IN
            AddInv(AddFn(m, TranspFn(fn, <<[name |-> "text", type |-> StrT]>>, "len() > 0")), S, Match(fn, "text", FreshDesc(m, "Text is nothing")))
      [] f = "st_abstract_with_inv" -> AddInv(m, "Parent", LenC("text", "le", "100", FreshDesc(m, "Parent text at most 100")))

\* invariant expression shapes; "uses" lists the properties the text mentions (checked by R_InvariantsResolve)
ApplyExpr(f, t, m) ==
    LET Opt == IsOpt(TextOn(m))
        \* a guard that makes the text well-typed when "text" is optional
        G(e) == IF Opt THEN "(self.text is None) or (" \o e \o ")" ELSE e
        Inv(e, uses, d) == AddInv(m, S, Raw(e, uses, FreshDesc(m, d)))
    IN
    CASE f = "ex_implication" -> Inv("not (self.count > 3) or (self.count < 10)", {"count"}, "Count implication")
      [] f = "ex_is_none" ->
            LET m1 == AddTyped(m, "maybe_int", OptOf(IntT)) IN
            AddInv(m1, S, Raw("(self.maybe_int is None) or (self.maybe_int >= 0)", {"maybe_int"}, FreshDesc(m, "Maybe int non-negative")))
      [] f = "ex_all_items" -> Inv("all(len(item.value) > 0 for item in self.items)", {"items"}, "All items non-empty")
      [] f = "ex_any_items" -> Inv("any(item.value == \"x\" for item in self.items)", {"items"}, "Some item is x")
      [] f = "ex_all_range" -> Inv("all(len(self.items[i].value) > 0 for i in range(0, len(self.items)))", {"items"}, "All items by index")
      [] f = "ex_index" -> Inv("not (len(self.items) >= 1) or (len(self.items[0].value) > 0)", {"items"}, "First item non-empty")
      [] f = "ex_nested_all" -> Inv("all(all(other.value != item.value or other == item for other in self.items) for item in self.items)", {"items"}, "Items unique")
      [] f = "ex_arith" -> Inv("self.count + 1 - 2 > 0", {"count"}, "Count arithmetic")
      [] f = "ex_str_cmp" -> Inv("self.text != \"forbidden\"", {"text"}, "Text not forbidden")
      [] f = "ex_str_const" ->
            AddInv(AddConst(m, Const("Forbidden_text", "str", "forbidden")), S, Raw("self.text != Forbidden_text", {"text"}, FreshDesc(m, "Text not the forbidden constant")))
      [] f = "ex_str_escapes" -> Inv("self.text != \"a\\\"b\\\\c\\n\\t\\u00e4\\U0001F600\\x00\"", {"text"}, "Text not odd")
      [] f = "ex_nested_attr" ->
            LET m1 == AddTyped(WithItem(m), "an_item", Ref("Item")) IN
            AddInv(m1, S, Raw("len(self.an_item.value) > 0", {"an_item"}, FreshDesc(m, "Item value non-empty")))
      [] f = "ex_enum_eq" ->
            LET m1 == AddTyped(WithEnum(m), "color", Ref("Color")) IN
            AddInv(m1, S, Raw("self.color == Color.Red or self.color != Color.Dark_green", {"color"}, FreshDesc(m, "Color comparison")))
      [] f = "ex_bool_prop" ->
            LET m1 == AddTyped(m, "flag", Prim("bool")) IN
            AddInv(m1, S, Raw("self.flag or self.count > 0", {"flag", "count"}, FreshDesc(m, "Flag or count")))
      [] f = "ex_chain_cmp" -> Inv("0 < self.count and self.count <= 100", {"count"}, "Count in range")
      [] f = "ex_and_or_mix" -> Inv("(self.count > 0 and len(self.text) > 0) or (self.count == 0 and not (len(self.text) > 0))", {"count", "text"}, "Mixed")
      [] f = "ex_fn_two_args" ->
            LET fn == Fresh(AllTopNames(m), "count_is_below") IN
            AddInv(AddFn(m, TranspFn(fn, <<[name |-> "value", type |-> IntT], [name |-> "limit", type |-> IntT]>>, "value < limit")), S,
                   Raw(fn \o "(self.count, 10)", {"count"}, FreshDesc(m, "Count below 10")))
      [] f = "ex_len_vs_count" -> Inv(G("len(self.text) <= self.count"), {"text", "count"}, "Text length at most count")
      [] f = "ex_not" -> Inv("not (self.count == 13)", {"count"}, "Count not 13")
      [] f = "ex_float_cmp" ->
            LET m1 == AddTyped(m, "ratio", Prim("float")) IN
            AddInv(m1, S, Raw("self.ratio >= 0.0 and self.ratio <= 1.5e3", {"ratio"}, FreshDesc(m, "Ratio bounded")))
      [] f = "ex_int_big" -> Inv("self.count < 9223372036854775808", {"count"}, "Count below 2^63")
      [] f = "ex_len_two_args_cprim" -> AddCPrimInv(m, "Name", Raw("len(self, self) > 0", {}, FreshDesc(m, "Name has a length")))
      [] f = "ex_neg_int" -> Inv("self.count > -5", {"count"}, "Count above -5")

\* identifiers: distinct meta-model names that at least one target maps to the same generated name, or that are
\* keywords / awkward in some target language (Naming.tla explores the collision classes systematically for C21)
ApplyName(f, t, m) ==
    CASE f = "nm_class_case_collision" ->
            AddClass(AddClass(m, Class("Data_URL", <<>>, FALSE, <<Prop("value", IntT)>>)), Class("Data_url", <<>>, FALSE, <<Prop("value", IntT)>>))
      [] f = "nm_class_enum_collision" ->
            AddEnum(AddClass(m, Class("Mode_Kind", <<>>, FALSE, <<Prop("value", IntT)>>)), Enum("Mode_kind", <<Lit("On", "on")>>))
      [] f = "nm_prop_case_collision" -> AddProp(AddProp(m, S, Prop("some_URL", IntT)), S, Prop("some_url", IntT))
      [] f = "nm_prop_method_collision" -> AddMethod(AddProp(m, S, Prop("do_URL", IntT)), S, Method("do_url", "impl"))
      [] f = "nm_literal_collision" -> AddTyped(AddEnum(m, Enum("Clash", <<Lit("Some_URL", "a"), Lit("Some_url", "b")>>)), "clash", Ref("Clash"))
      [] f = "nm_literal_value_collision" -> AddTyped(AddEnum(m, Enum("Same_value", <<Lit("First", "same"), Lit("Second", "same")>>)), "same_value", Ref("Same_value"))
      [] f = "nm_const_collision" -> AddConst(AddConst(m, Const("Some_URL_const", "str", "a")), Const("Some_url_const", "str", "b"))
      [] f = "nm_fn_collision" -> AddFn(AddFn(m, PatFn("matches_URL", "^a$")), PatFn("matches_url", "^b$"))
      [] f = "nm_class_interface_collision" ->
            AddClass(AddClass(m, Class("Ithing", <<>>, FALSE, <<Prop("value", IntT)>>)), Class("Thing", <<>>, FALSE, <<Prop("value", IntT)>>))
      [] f = "nm_cprim_class_collision" -> AddClass(AddCPrim(m, CPrim("Token_URL", "str")), Class("Token_url", <<>>, FALSE, <<Prop("value", Ref("Token_URL"))>>))
      [] f = "nm_keyword_props" ->
            \* accepted by the front end, yet keywords / builtins / well-known members in some target language
            AddProp(AddProp(AddProp(AddProp(AddProp(AddProp(AddProp(m, S, Prop("kind", IntT)), S, Prop("type", OptOf(StrT))), S, Prop("len", OptOf(IntT))),
                    S, Prop("id", OptOf(IntT))), S, Prop("list", OptOf(IntT))), S, Prop("equals", OptOf(IntT))), S, Prop("to_string", OptOf(IntT)))
      [] f = "nm_keyword_class" ->
            AddClass(AddClass(AddClass(AddClass(m, Class("Type", <<>>, FALSE, <<Prop("value", IntT)>>)), Class("Result", <<>>, FALSE, <<Prop("value", IntT)>>)),
                     Class("List", <<>>, FALSE, <<Prop("value", IntT)>>)), Class("Optional", <<>>, FALSE, <<Prop("value", IntT)>>))
      [] f = "nm_keyword_literals" ->
            AddTyped(AddEnum(m, Enum("Words", <<Lit("Null", "null"), Lit("Nil", "nil"), Lit("Default", "default"), Lit("Class", "class"),
                                                  Lit("Undefined", "undefined"), Lit("Self", "self"), Lit("This", "this")>>)), "word", Ref("Words"))
      [] f = "nm_digit_parts" ->
            AddClass(m, Class("Data_type_IEC_61360", <<>>, FALSE, <<Prop("value_2d", IntT), Prop("x_1", OptOf(IntT))>>))
      [] f = "nm_upper_parts" -> AddClass(m, Class("AAS_URL_ID", <<>>, FALSE, <<Prop("ID_short", IntT), Prop("global_asset_ID", OptOf(StrT))>>))
      [] f = "nm_long_name" ->
            AddClass(m, Class("A_very_long_class_name_that_goes_on_and_on_and_on_beyond_any_reasonable_line_width_of_eighty_characters", <<>>, FALSE,
                              <<Prop("a_very_long_property_name_that_goes_on_and_on_and_on_beyond_any_reasonable_line_width_of_eighty_characters", IntT)>>))
      [] f = "nm_prop_like_builtin" ->
            \* names the generators themselves use for locals, arguments and members
            AddProp(AddProp(AddProp(AddProp(AddProp(AddProp(AddProp(AddProp(m, S, Prop("value", OptOf(IntT))), S, Prop("that", OptOf(IntT))), S, Prop("result", OptOf(IntT))),
                    S, Prop("errors", OptOf(IntT))), S, Prop("jsonable", OptOf(IntT))), S, Prop("element", OptOf(IntT))), S, Prop("visitor", OptOf(IntT))), S, Prop("context", OptOf(IntT)))
      [] f = "nm_arg_collision" -> AddProp(AddProp(m, S, Prop("the_text", OptOf(IntT))), S, Prop("a_text", OptOf(IntT)))
      [] f = "nm_lowercase_class" -> AddTyped(AddClassFirst(m, Class("lower_case_thing", <<>>, FALSE, <<Prop("value", IntT)>>)), "lower_thing", OptOf(Ref("lower_case_thing")))
      [] f = "nm_lowercase_enum" -> AddTyped(AddEnum(m, Enum("lower_case_enum", <<Lit("lower_literal", "x"), Lit("Upper_literal", "y")>>)), "lower_enum", OptOf(Ref("lower_case_enum")))
      [] f = "nm_uppercase_members" ->
            AddConst(AddFn(AddMethod(AddProp(AddProp(m, S, Prop("Upper_prop", OptOf(IntT))), S, Prop("URL", OptOf(IntT))), S, Method("Upper_method", "impl")),
                           PatFn("Matches_upper", "^a$")), Const("lower_const", "str", "x"))
      [] f = "nm_class_like_generated" ->
            AddClass(AddClass(AddClass(AddClass(m, Class("Types", <<>>, FALSE, <<Prop("value", IntT)>>)), Class("Common", <<>>, FALSE, <<Prop("value", IntT)>>)),
                     Class("Reporting", <<>>, FALSE, <<Prop("value", IntT)>>)), Class("Abstract_visitor", <<>>, FALSE, <<Prop("value", IntT)>>))

ApplyDoc(site, d, t, m) ==
    LET text == Docs[d] IN
    CASE site = "doc_on_class" -> SetClassDoc(m, S, text)
      [] site = "doc_on_abstract" -> SetClassDoc(m, "Parent", text)
      [] site = "doc_on_prop" -> SetPropDoc(m, S, "count", text)
      [] site = "doc_on_enum" -> AddTyped(AddEnum(m, [Enum("Documented", <<Lit("One", "1")>>) EXCEPT !.doc = text]), "documented", Ref("Documented"))
      [] site = "doc_on_literal" -> AddTyped(AddEnum(m, Enum("Documented_lit", <<[Lit("One", "1") EXCEPT !.doc = text], Lit("Two", "2")>>)), "documented_lit", Ref("Documented_lit"))
      [] site = "doc_on_cprim" -> AddTyped(AddCPrim(m, [CPrim("Documented_prim", "str") EXCEPT !.doc = text]), "documented_prim", Ref("Documented_prim"))
      [] site = "doc_on_fn" -> AddFn(m, [PatFn("matches_documented", "^a$") EXCEPT !.doc = text])
      [] site = "doc_on_const" -> AddConst(m, [Const("Documented_const", "str", "x") EXCEPT !.doc = text])
      [] site = "doc_on_module" -> [m EXCEPT !.doc = text]
      [] site = "doc_on_method" -> AddMethod(m, S, [Method("documented_method", "impl") EXCEPT !.doc = text])

\* which description constructs the front end admits at which site (the other combinations are rejected by it:
\* ":attr:" needs an encompassing class that has the property; field lists such as ":constraint X:" are only
\* understood in descriptions of classes, properties, enumerations, constrained primitives and the module)
AttrRefDocs == {"doc_attr_ref"}
ConstraintDocs == {"doc_constraint", "doc_constraintref"}
DocAdmitted(site, d) ==
    /\ d \in AttrRefDocs => site \in {"doc_on_class", "doc_on_prop", "doc_on_method"}
    /\ d \in ConstraintDocs => site \in {"doc_on_class", "doc_on_abstract", "doc_on_prop", "doc_on_enum", "doc_on_cprim", "doc_on_module"}

\* a feature is a pair <<id, doc id>>; the doc id is "" except for the documentation features <<site, doc id>>
\* (TLC cannot mix strings and tuples in one set)
Simple(f) == <<f, "">>
IsDocFeature(f) == f[2] # ""
FeatureApplicable(f, t) == Applicable(f[1], t)
Apply(f, t, m) ==
    IF IsDocFeature(f) THEN ApplyDoc(f[1], f[2], t, m)
    ELSE LET g == f[1] IN
         CASE g \in LenFeatures -> ApplyLen(g, t, m)
           [] g \in PatFeatures -> ApplyPat(g, t, m)
           [] g \in TypeFeatures -> ApplyType(g, t, m)
           [] g \in StructFeatures -> ApplyStruct(g, t, m)
           [] g \in ExprFeatures -> ApplyExpr(g, t, m)
           [] g \in NameFeatures -> ApplyName(g, t, m)
FeatureName(f) == IF IsDocFeature(f) THEN f[1] \o ":" \o f[2] ELSE f[1]
Family(f) == IF IsDocFeature(f) THEN "doc"
             ELSE LET g == f[1] IN
                  CASE g \in LenFeatures -> "len" [] g \in PatFeatures -> "pat" [] g \in TypeFeatures -> "type"
                    [] g \in StructFeatures -> "struct" [] g \in ExprFeatures -> "expr" [] g \in NameFeatures -> "name"

\* does the case need implementation-specific snippets to get past the snippet checks?
NeedsSnippets(m) ==
    \/ \E c \in Ran(m.classes) : c.impl \/ \E i \in DOMAIN c.methods : c.methods[i].kind = "impl"
    \/ \E f \in Ran(m.fns) : f.kind = "impl"

(* ---------------------------------------------------------------------------------------------- *)
(* The case space                                                                                  *)
(* ---------------------------------------------------------------------------------------------- *)
SimpleFeaturePairs == {Simple(f) : f \in SimpleFeatures}
DocFeaturePairs == {p \in DocFeaturePairsAll : DocAdmitted(p[1], p[2])}
AllFeatures == SimpleFeaturePairs \cup DocFeaturePairs
\* features that are known *not* to commute with a second application of the same text ("text" constraints):
\* pairs within the length family or within the pattern family are still allowed: they model several
\* constraints on one property.
Case(t, fs) ==
    LET m == IF Len(fs) = 0 THEN Template(t)
             ELSE IF Len(fs) = 1 THEN Apply(fs[1], t, Template(t))
             ELSE Apply(fs[2], t, Apply(fs[1], t, Template(t)))
    IN [template |-> t, features |-> [i \in DOMAIN fs |-> FeatureName(fs[i])], families |-> [i \in DOMAIN fs |-> Family(fs[i])],
        model |-> m, needs_snippets |-> NeedsSnippets(m)]

SinglesOn(ts) == {<<t, <<f>>>> : t \in ts, f \in AllFeatures}
\* pairs: simple features only (documentation texts are independent of the rest), unordered, distinct
PairsOn(ts, fs) == {<<t, <<f, g>>>> : t \in ts, f \in fs, g \in fs}
Valid(t, fs) == \A i \in DOMAIN fs : FeatureApplicable(fs[i], t)
====
