----------------------------- MODULE ExprSchema -----------------------------
(* The fixed schema over which C07 enumerates invariants, its globals (constant sets, an        *)
(* enumeration, a pattern function, two transpilable functions), the value domains of the       *)
(* type-conforming instances, and the grammar of invariant trees (well-typed and plausibly      *)
(* mistyped ones).                                                                              *)
(*                                                                                             *)
(*   class Item:    v: int, ov: Optional[int]                                                   *)
(*   class Subject: i: int, oi: Optional[int], s: str, os: Optional[str], b: bool,              *)
(*                  xs: List[int], oxs: Optional[List[int]], it: Item, oit: Optional[Item],     *)
(*                  its: List[Item], e: Color, oe: Optional[Color]                              *)
(*   Names = {"a", "ab", "\u202f"};  Reds = {Color.Red}                                                   *)
(*   is_abc(text) = match(r"^a[bc]*$", text) is not None                                        *)
(*   gt_zero(x) = x > 0;  in_range(x, lo): d = x - lo; return d >= 0                            *)
EXTENDS Expr

a_ == <<97>>
ab_ == <<97, 98>>
\* U+202F NARROW NO-BREAK SPACE: not printable for Python, above 0xFF (a typographic space in real descriptions and values)
nnbsp_ == <<8239>>
\* U+E0067 TAG LATIN SMALL LETTER G (part of flag emoji): not printable and above U+FFFF
tag_ == <<917607>>

PropOrder == <<"i", "oi", "s", "os", "b", "xs", "oxs", "it", "oit", "its", "e", "oe">>
AllProps == {PropOrder[k] : k \in 1..Len(PropOrder)}

Schema ==
    [classes |-> [Subject |-> [i |-> TInt, oi |-> TOpt(TInt), s |-> TStr, os |-> TOpt(TStr), b |-> TBool,
                               xs |-> TList(TInt), oxs |-> TOpt(TList(TInt)), it |-> TInst("Item"),
                               oit |-> TOpt(TInst("Item")), its |-> TList(TInst("Item")),
                               e |-> TEnum("Color"), oe |-> TOpt(TEnum("Color"))],
                  Item |-> [v |-> TInt, ov |-> TOpt(TInt)]],
     enums |-> [Color |-> {"Red", "Green"}],
     globals |-> [Names |-> TSet(TStr), Reds |-> TSet(TEnum("Color")), Color |-> TEnumType("Color")],
     funcs |-> [is_abc |-> [params |-> <<TStr>>, ret |-> TBool],
                gt_zero |-> [params |-> <<TInt>>, ret |-> TBool],
                in_range |-> [params |-> <<TInt, TInt>>, ret |-> TBool]]]

ClassDefs == <<[name |-> "Item", props |-> <<"v", "ov">>], [name |-> "Subject", props |-> PropOrder]>>

Red == EnumV("Color", "Red")
Green == EnumV("Color", "Green")

G0 ==
    [vals |-> [Names |-> SetV({StrV(a_), StrV(ab_), StrV(nnbsp_)}), Reds |-> SetV({Red}), Color |-> EnumTypeV("Color", {"Red", "Green"})],
     funcs |-> [is_abc |-> [kind |-> "pattern", re |-> RCat(<<RChr(97), RStar(RSet(<<98, 99>>))>>)],
                gt_zero |-> [kind |-> "transp", params |-> <<"x">>, body |-> <<Return(Cmp(">", Name("x"), IntC(0)))>>],
                in_range |-> [kind |-> "transp", params |-> <<"x", "lo">>,
                              body |-> <<Assign("d", Sub(Name("x"), Name("lo"))), Return(Cmp(">=", Name("d"), IntC(0)))>>]]]

-----------------------------------------------------------------------------
(* Value domains: "all type-conforming instances over small value sets"; only the properties an *)
(* expression mentions vary, the others keep their default. When the product of the full        *)
(* domains exceeds MaxInst the small domains are used.                                          *)

ItemV(id, v, ov) == InstV("Item", id, [v |-> v, ov |-> ov])
IntList(ns) == ListV([k \in 1..Len(ns) |-> IntV(ns[k])])

\* lists of length <= 2 over {0, 1, 3}
IntLists == <<IntList(<<>>), IntList(<<0>>), IntList(<<1>>), IntList(<<3>>),
              IntList(<<0, 0>>), IntList(<<0, 1>>), IntList(<<0, 3>>), IntList(<<1, 0>>), IntList(<<1, 1>>), IntList(<<1, 3>>),
              IntList(<<3, 0>>), IntList(<<3, 1>>), IntList(<<3, 3>>)>>
IntListsSmall == <<IntList(<<>>), IntList(<<0>>), IntList(<<1, 3>>), IntList(<<3, 1>>)>>

Items(id) == <<ItemV(id, IntV(0), NoneV), ItemV(id, IntV(1), NoneV), ItemV(id, IntV(0), IntV(0)),
               ItemV(id, IntV(1), IntV(0)), ItemV(id, IntV(0), IntV(1)), ItemV(id, IntV(1), IntV(1))>>
ItemsSmall(id) == <<ItemV(id, IntV(0), NoneV), ItemV(id, IntV(1), IntV(0)), ItemV(id, IntV(0), IntV(1))>>
ItemLists ==
    LET r1 == ItemsSmall("its0")
        r2 == ItemsSmall("its1")
    IN  <<ListV(<<>>)>> \o [k \in 1..3 |-> ListV(<<r1[k]>>)] \o [n \in 1..9 |-> ListV(<<r1[((n - 1) \div 3) + 1], r2[((n - 1) % 3) + 1]>>)]
        \* one list of three items: indices that differ by 2 reach different items
        \o <<ListV(<<r1[1], r2[2], ItemsSmall("its2")[3]>>)>>
ItemListsSmall == <<ListV(<<>>), ListV(<<ItemsSmall("its0")[1]>>), ListV(<<ItemsSmall("its0")[2], ItemsSmall("its1")[3]>>),
                    ListV(<<ItemsSmall("its0")[3], ItemsSmall("its1")[1]>>)>>

DomFull ==
    [i |-> <<IntV(-1), IntV(0), IntV(1), IntV(2)>>,
     oi |-> <<NoneV, IntV(-1), IntV(0), IntV(1), IntV(2)>>,
     s |-> <<StrV(<<>>), StrV(a_), StrV(ab_), StrV(nnbsp_)>>,
     os |-> <<NoneV, StrV(<<>>), StrV(a_), StrV(ab_)>>,
     b |-> <<BoolV(FALSE), BoolV(TRUE)>>,
     xs |-> IntLists,
     oxs |-> <<NoneV>> \o IntLists,
     it |-> Items("it"),
     oit |-> <<NoneV>> \o Items("oit"),
     its |-> ItemLists,
     e |-> <<Red, Green>>,
     oe |-> <<NoneV, Red, Green>>]

DomSmall ==
    [i |-> <<IntV(-1), IntV(0), IntV(1), IntV(2)>>,
     oi |-> <<NoneV, IntV(0), IntV(1), IntV(2)>>,
     s |-> <<StrV(<<>>), StrV(a_), StrV(ab_)>>,
     os |-> <<NoneV, StrV(<<>>), StrV(a_), StrV(ab_)>>,
     b |-> <<BoolV(FALSE), BoolV(TRUE)>>,
     xs |-> IntListsSmall,
     oxs |-> <<NoneV>> \o IntListsSmall,
     it |-> ItemsSmall("it"),
     oit |-> <<NoneV>> \o ItemsSmall("oit"),
     its |-> ItemListsSmall,
     e |-> <<Red, Green>>,
     oe |-> <<NoneV, Red, Green>>]

Default ==
    [i |-> IntV(1), oi |-> NoneV, s |-> StrV(a_), os |-> NoneV, b |-> BoolV(TRUE), xs |-> IntList(<<1>>), oxs |-> NoneV,
     it |-> ItemV("it", IntV(1), NoneV), oit |-> NoneV, its |-> ListV(<<>>), e |-> Red, oe |-> NoneV]

MaxInst == 64

\* the mentioned properties in schema order
MSeq(e) == SelectSeq(PropOrder, LAMBDA p : p \in Mentions(e))

RECURSIVE ProdSize(_, _, _)
ProdSize(ms, k, D) == IF k > Len(ms) THEN 1 ELSE Len(D[ms[k]]) * ProdSize(ms, k + 1, D)

DomName(e) == IF ProdSize(MSeq(e), 1, DomFull) <= MaxInst THEN "full" ELSE "small"
DomOf(e) == IF DomName(e) = "full" THEN DomFull ELSE DomSmall

\* cartesian product in itertools.product order: a sequence of value sequences aligned with ms
RECURSIVE Prod(_, _, _)
Prod(ms, k, D) ==
    IF k > Len(ms) THEN << <<>> >>
    ELSE LET rest == Prod(ms, k + 1, D)
             d == D[ms[k]]
         IN  Force([n \in 1..(Len(d) * Len(rest)) |-> <<d[((n - 1) \div Len(rest)) + 1]>> \o rest[((n - 1) % Len(rest)) + 1]])

SubjectOf(ms, vals) ==
    InstV("Subject", "self", [p \in AllProps |-> IF \E k \in 1..Len(ms) : ms[k] = p THEN vals[CHOOSE k \in 1..Len(ms) : ms[k] = p] ELSE Default[p]])

\* the instances on which an invariant is evaluated
InstSeq(e) ==
    LET ms == MSeq(e)
        pr == Prod(ms, 1, DomOf(e))
    IN  Force([n \in 1..Len(pr) |-> SubjectOf(ms, pr[n])])

EnvOf(inst) == [self |-> inst]
EvalOn(e, inst) == Eval(e, EnvOf(inst), G0)
SubjectWellTyped(e) == WellTyped(e, TInst("Subject"), Schema)

-----------------------------------------------------------------------------
(* The grammar. Terms of depth <= 3, atomic formulas over terms, composites over formulas.      *)
(* `wide` selects the thorough tier.                                                            *)

X == Name("x")
J == Name("j")
RedC == Mem(Name("Color"), "Red")
Names == Name("Names")
Reds == Name("Reds")

Consts == {IntC(0), IntC(1), StrC(a_), StrC(nnbsp_), BoolC(TRUE), RedC}
T1 == {P(p) : p \in AllProps}
NestedMems == {Mem(P("it"), "v"), Mem(P("it"), "ov"), Mem(P("oit"), "v"), Mem(P("oit"), "ov")}
T2 == NestedMems \cup {Mem(P("i"), "v"), Mem(P("its"), "v"), Mem(P("it"), "zz")}
      \cup {LenOf(P(p)) : p \in AllProps}
      \cup {Idx(P(p), IntC(0)) : p \in {"xs", "oxs", "its", "s", "i"}}
      \cup {Idx(P("xs"), P("i")), Idx(P("xs"), IntC(-1)), Idx(P("xs"), P("s")), Idx(P("xs"), P("oi")), Idx(P("xs"), LenOf(P("xs"))), Idx(P("xs"), P("b"))}
      \cup {Add(P(p), IntC(1)) : p \in {"i", "oi", "s", "b"}}
      \cup {Sub(LenOf(P("xs")), IntC(1)), Sub(P("i"), P("oi")), Add(LenOf(P("s")), P("i")), Add(P("s"), P("s"))}
      \* arithmetic nested on the right of a subtraction / addition (a - (b - c) is not a - b - c), also as an index
      \cup {Sub(P("i"), Sub(P("i"), IntC(1))), Sub(P("i"), Add(P("i"), IntC(1))), Sub(LenOf(P("xs")), Sub(P("i"), IntC(1))),
            Add(P("i"), Sub(P("i"), IntC(1))), Sub(Sub(P("i"), IntC(1)), IntC(1)), Sub(IntC(2), Sub(LenOf(P("s")), P("i"))),
            Idx(P("xs"), Sub(LenOf(P("xs")), Sub(IntC(2), IntC(1)))), Idx(P("xs"), Sub(IntC(1), Sub(IntC(2), LenOf(P("xs")))))}
      \cup {Mem(Idx(P("its"), IntC(0)), "v"), Mem(Idx(P("its"), IntC(0)), "ov")}
      \cup {FStr(<<StrC(a_), P("s")>>), FStr(<<P("i")>>), FStr(<<P("os")>>), FStr(<<P("s"), StrC(<<98>>), P("i")>>)}
Terms == T1 \cup T2 \cup Consts

CmpRight(wide) == {IntC(0), StrC(a_), P("i"), P("s")} \cup (IF wide THEN {IntC(1), BoolC(TRUE), RedC, P("oi"), P("xs"), P("b"), LenOf(P("s"))} ELSE {})
CmpOpsFor(wide) == IF wide THEN CmpOps ELSE {"==", "<"}
SixOpPairs == {<<P("i"), IntC(1)>>, <<LenOf(P("xs")), IntC(1)>>, <<P("s"), StrC(a_)>>, <<P("e"), RedC>>, <<P("b"), BoolC(TRUE)>>,
               <<P("i"), P("s")>>, <<P("xs"), P("xs")>>, <<P("it"), P("it")>>, <<P("e"), P("e")>>, <<P("b"), P("i")>>, <<P("i"), P("oi")>>}

A_cmp(wide) == {Cmp(op, t, c) : op \in CmpOpsFor(wide), t \in Terms, c \in CmpRight(wide)}
               \cup {Cmp(op, pr[1], pr[2]) : op \in CmpOps, pr \in SixOpPairs}
               \cup {Cmp(op, IntC(0), t) : op \in {"<", "!="}, t \in T1}
A_none == {IsNone(t) : t \in T1 \cup NestedMems} \cup {IsNotNone(t) : t \in T1 \cup NestedMems}
A_in == {In(t, Names) : t \in T1} \cup {In(t, Reds) : t \in T1}
        \cup {In(P("s"), P("s")), In(P("i"), P("xs")), In(P("i"), P("i")), In(P("s"), P("os")), In(P("i"), P("oxs")), In(RedC, Reds), In(StrC(a_), Names),
              In(StrC(nnbsp_), Names), In(FStr(<<P("s")>>), Names)}
A_call == {Call("is_abc", <<t>>) : t \in T1} \cup {Call("gt_zero", <<t>>) : t \in T1}
          \cup {Call("in_range", <<P("i"), IntC(0)>>), Call("in_range", <<P("s"), IntC(0)>>), Call("in_range", <<P("oi"), P("i")>>),
                Call("in_range", <<P("i"), P("oi")>>), Call("is_abc", <<FStr(<<StrC(a_), P("s")>>)>>), Call("gt_zero", <<LenOf(P("s"))>>),
                Call("is_abc", <<StrC(ab_)>>), Call("gt_zero", <<Mem(P("it"), "ov")>>),
                \* wrong number of arguments (rejected by the front end: TypeError otherwise)
                Call("gt_zero", <<P("i"), IntC(1)>>), Call("is_abc", <<P("s"), P("s")>>), Call("in_range", <<P("i")>>)}
A_bare == Terms

CondX == {Cmp(">", X, IntC(0)), Cmp(">", Mem(X, "v"), IntC(0)), Cmp(">", Mem(X, "ov"), IntC(0)), Cmp("==", X, StrC(a_)),
          Or(<<IsNone(Mem(X, "ov")), Cmp(">", Mem(X, "ov"), IntC(0))>>), X, Cmp(">", X, P("i")), IsNone(X)}
IterX == {P("xs"), P("oxs"), P("its"), P("oit"), P("s"), P("i")}
XsJ == Cmp(">", Idx(P("xs"), J), IntC(0))
A_quant == {QAll("x", c, it) : c \in CondX, it \in IterX} \cup {QAny("x", c, it) : c \in CondX, it \in IterX}
           \cup {QAllR("j", XsJ, IntC(0), LenOf(P("xs"))), QAnyR("j", XsJ, IntC(0), LenOf(P("xs"))),
                 QAllR("j", XsJ, IntC(0), P("i")), QAllR("j", XsJ, P("oi"), IntC(2)), QAllR("j", XsJ, IntC(0), P("s")),
                 QAnyR("j", Cmp("<", J, LenOf(P("s"))), IntC(0), IntC(2)), QAllR("j", Cmp(">", Idx(P("oxs"), J), IntC(0)), IntC(0), IntC(1)),
                 QAllR("j", Cmp("==", Idx(P("xs"), J), Idx(P("xs"), Sub(Sub(LenOf(P("xs")), J), IntC(1)))), IntC(0), LenOf(P("xs"))),
                 \* nested arithmetic in the bounds of a range and in an index inside it
                 QAllR("j", XsJ, IntC(0), Sub(LenOf(P("xs")), Sub(IntC(2), IntC(1)))),
                 QAnyR("j", Cmp(">", Idx(P("xs"), Sub(LenOf(P("xs")), Add(J, IntC(1)))), IntC(0)), Sub(IntC(1), Sub(IntC(2), IntC(1))), LenOf(P("xs"))),
                 QAllR("j", XsJ, IntC(0), Sub(LenOf(P("xs")), Sub(P("i"), IntC(1))))}
           \cup {QAllIf("x", Cmp("<", X, IntC(3)), P("xs"), Cmp("!=", X, IntC(3))), QAnyIf("x", Cmp(">", X, IntC(1)), P("xs"), Cmp("!=", X, IntC(3))),
                 QAllIf("x", Cmp(">", Mem(X, "ov"), IntC(0)), P("its"), IsNotNone(Mem(X, "ov"))), QAllIf("x", Cmp(">", X, IntC(0)), P("oxs"), Cmp("!=", X, IntC(3)))}

Atomic(wide) == A_cmp(wide) \cup A_none \cup A_in \cup A_call \cup A_bare \cup A_quant

\* bodies that dereference an optional path
OptPaths == {P("oi"), P("os"), P("oxs"), P("oit"), Mem(P("it"), "ov")}
Bodies(p) ==
    CASE p = P("oi") -> {Cmp(">", P("oi"), IntC(0)), Cmp(">", Add(P("oi"), IntC(1)), IntC(0)), Call("gt_zero", <<P("oi")>>), Cmp(">", Idx(P("xs"), P("oi")), IntC(0))}
      [] p = P("os") -> {Cmp("==", P("os"), StrC(a_)), Cmp(">", LenOf(P("os")), IntC(0)), Call("is_abc", <<P("os")>>), In(P("os"), Names), Cmp("<", P("os"), StrC(a_))}
      [] p = P("oxs") -> {Cmp(">", LenOf(P("oxs")), IntC(0)), Cmp(">", Idx(P("oxs"), IntC(0)), IntC(0)), QAll("x", Cmp(">", X, IntC(0)), P("oxs")),
                           QAllR("j", Cmp(">", Idx(P("oxs"), J), IntC(0)), IntC(0), LenOf(P("oxs")))}
      [] p = P("oit") -> {Cmp(">", Mem(P("oit"), "v"), IntC(0)), IsNone(Mem(P("oit"), "ov")), Cmp(">", Mem(P("oit"), "ov"), IntC(0))}
      [] OTHER -> {Cmp(">", Mem(P("it"), "ov"), IntC(0)), Call("gt_zero", <<Mem(P("it"), "ov")>>)}

Guarded(p, b) ==
    {And(<<IsNotNone(p), b>>), And(<<IsNone(p), b>>), And(<<b, IsNotNone(p)>>),
     Or(<<IsNone(p), b>>), Or(<<IsNotNone(p), b>>), Or(<<b, IsNone(p)>>),
     Imp(IsNotNone(p), b), Imp(IsNone(p), b), Imp(b, IsNotNone(p)),
     Imp(Not(IsNone(p)), b), And(<<Not(IsNone(p)), b>>), And(<<P("b"), IsNotNone(p), b>>), Imp(And(<<P("b"), IsNotNone(p)>>), b),
     \* the mirrored forms `B or not A`: logically the implication A => B, but Python evaluates B before the guard
     Or(<<b, Not(IsNotNone(p))>>), Or(<<b, Not(IsNone(p))>>), Or(<<And(<<P("b"), b>>), Not(And(<<IsNotNone(p), P("b")>>))>>),
     Or(<<Not(IsNone(p)), Not(b)>>)}
OtherPath(p) == IF p = P("oi") THEN P("os") ELSE P("oi")
C_guard == UNION {UNION {Guarded(p, b) \cup {And(<<IsNotNone(OtherPath(p)), b>>), Imp(IsNotNone(OtherPath(p)), b)} : b \in Bodies(p)} : p \in OptPaths}

OiPos == Cmp(">", P("oi"), IntC(0))
C_deep ==
    {And(<<IsNotNone(P("oit")), IsNotNone(Mem(P("oit"), "ov")), Cmp(">", Mem(P("oit"), "ov"), IntC(0))>>),
     And(<<IsNotNone(Mem(P("oit"), "ov")), Cmp(">", Mem(P("oit"), "ov"), IntC(0))>>),
     Imp(And(<<IsNotNone(P("oi")), IsNotNone(P("os"))>>), And(<<OiPos, Cmp("==", P("os"), StrC(a_))>>)),
     Or(<<And(<<IsNotNone(P("oi")), P("b")>>), OiPos>>),
     And(<<Or(<<IsNone(P("oi")), P("b")>>), OiPos>>),
     Imp(P("b"), Imp(IsNotNone(P("oi")), OiPos)),
     Imp(Imp(P("b"), IsNotNone(P("oi"))), OiPos),
     Not(And(<<IsNotNone(P("oi")), OiPos>>)),
     Not(Or(<<IsNone(P("oi")), OiPos>>)),
     Or(<<IsNone(P("oi")), And(<<OiPos, Cmp("<", P("oi"), IntC(2))>>)>>),
     Or(<<IsNone(P("oi")), IsNone(P("os")), And(<<OiPos, Cmp("==", P("os"), StrC(a_))>>)>>),
     And(<<IsNotNone(P("oxs")), QAllR("j", Cmp(">", Idx(P("oxs"), J), IntC(0)), IntC(0), LenOf(P("oxs")))>>),
     Imp(IsNotNone(P("oit")), Or(<<IsNone(Mem(P("oit"), "ov")), Cmp(">", Mem(P("oit"), "ov"), IntC(0))>>)),
     QAll("x", Imp(IsNotNone(Mem(X, "ov")), Cmp(">", Mem(X, "ov"), IntC(0))), P("its")),
     QAny("x", And(<<IsNotNone(Mem(X, "ov")), Cmp(">", Mem(X, "ov"), Mem(X, "v"))>>), P("its")),
     QAll("x", QAny("y", Cmp("==", X, Mem(Name("y"), "v")), P("its")), P("xs")),
     QAll("x", QAny("x", Cmp("==", X, X), P("xs")), P("xs")),
     Imp(Cmp(">", LenOf(P("xs")), IntC(0)), Cmp(">", Idx(P("xs"), IntC(0)), IntC(0))),
     Imp(IsNotNone(P("oe")), Cmp("==", P("oe"), RedC)),
     Imp(IsNotNone(P("oe")), In(P("oe"), Reds)),
     And(<<Cmp(">", P("i"), IntC(0)), Cmp("<", P("i"), IntC(2)), Cmp("!=", P("s"), StrC(a_))>>),
     Or(<<Cmp("<", P("i"), IntC(0)), Cmp(">", P("i"), IntC(1)), P("b")>>),
     \* a None-guard and a dereference through index expressions: same grouping (fine), and grouping that differs
     \* only in the brackets of the arithmetic (a - (b - c) versus (a - b) - c: different items)
     Imp(IsNotNone(Mem(Idx(P("its"), Sub(P("i"), Sub(IntC(1), IntC(1)))), "ov")), Cmp(">", Mem(Idx(P("its"), Sub(P("i"), Sub(IntC(1), IntC(1)))), "ov"), IntC(0))),
     Imp(IsNotNone(Mem(Idx(P("its"), Sub(P("i"), Sub(IntC(1), IntC(1)))), "ov")), Cmp(">", Mem(Idx(P("its"), Sub(Sub(P("i"), IntC(1)), IntC(1))), "ov"), IntC(0))),
     And(<<IsNotNone(Mem(Idx(P("its"), Sub(Sub(P("i"), IntC(1)), IntC(1))), "ov")), Cmp(">", Mem(Idx(P("its"), Sub(P("i"), Sub(IntC(1), IntC(1)))), "ov"), IntC(0))>>),
     Or(<<IsNone(Mem(Idx(P("its"), Add(P("i"), Sub(IntC(1), IntC(1)))), "ov")), Cmp(">", Mem(Idx(P("its"), Sub(Add(P("i"), IntC(1)), IntC(1))), "ov"), IntC(0))>>),
     \* comparisons of comparison results ("both or none", exclusive or): Python must not chain them
     Cmp("==", Cmp(">", LenOf(P("xs")), IntC(0)), Cmp(">", LenOf(P("its")), IntC(0))),
     Cmp("!=", IsNone(P("oi")), IsNone(P("os"))),
     Cmp("==", In(P("s"), Names), P("b")),
     Cmp("==", P("b"), Cmp("<", P("i"), IntC(1))),
     Cmp("!=", Cmp("==", P("i"), IntC(0)), Cmp("==", P("s"), StrC(a_))),
     Cmp("==", Cmp("<", P("i"), IntC(1)), Cmp("<", IntC(0), LenOf(P("s")))),
     \* a string constant with a non-printable character above U+FFFF
     Cmp("==", LenOf(StrC(tag_)), IntC(1)), Cmp("!=", P("s"), StrC(tag_)), Cmp("==", FStr(<<StrC(a_), P("s")>>), StrC(<<97>> \o tag_)),
     \* harmless mirrored implications (nothing is dereferenced before the guard)
     Or(<<P("b"), Not(IsNotNone(P("oi")))>>), Or(<<Cmp(">", P("i"), IntC(0)), Not(P("b"))>>),
     Or(<<Or(<<IsNone(P("oi")), OiPos>>), Not(P("b"))>>)}

Bools(wide) == {P("b"), Cmp(">", P("i"), IntC(0)), Cmp("==", P("s"), StrC(a_)), IsNone(P("oi")), P("i"), P("s"), P("oi")}
               \cup (IF wide THEN {Not(P("b")), Cmp("==", P("e"), RedC), In(P("s"), Names), QAll("x", Cmp(">", X, IntC(0)), P("xs")), P("xs"), P("it"), P("os"),
                                   Call("is_abc", <<P("s")>>), IsNotNone(P("os")), Cmp("<", LenOf(P("xs")), IntC(2)), And(<<P("b"), Cmp(">", P("i"), IntC(0))>>),
                                   Or(<<P("b"), Cmp(">", P("i"), IntC(0))>>), Imp(P("b"), Cmp(">", P("i"), IntC(0)))} ELSE {})
C_bin(wide) == {And(<<l, r>>) : l \in Bools(wide), r \in Bools(wide)} \cup {Or(<<l, r>>) : l \in Bools(wide), r \in Bools(wide)}
               \cup {Imp(l, r) : l \in Bools(wide), r \in Bools(wide)}
NotArgs(wide) == IF wide THEN Atomic(wide) ELSE A_none \cup A_in \cup A_bare \cup {f \in A_cmp(FALSE) : f.s = "<" /\ f.a[2] = IntC(0)}
C_not(wide) == {Not(f) : f \in NotArgs(wide)}
\* thorough only: every guard shape around every atomic formula mentioning the guarded path
C_wideguard(wide) ==
    IF ~wide THEN {}
    ELSE UNION {UNION {{And(<<IsNotNone(p), f>>), Or(<<IsNone(p), f>>), Imp(IsNotNone(p), f), Or(<<IsNotNone(p), f>>)} :
                       f \in {g \in Atomic(TRUE) : p.s \in Mentions(g) /\ g.k # "mem"}} : p \in {P("oi"), P("os"), P("oxs"), P("oit")}}

Trees(wide) == Atomic(wide) \cup C_guard \cup C_deep \cup C_bin(wide) \cup C_not(wide) \cup C_wideguard(wide)
=============================================================================
