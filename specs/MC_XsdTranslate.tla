--------------------------- MODULE MC_XsdTranslate ---------------------------
(* Model-checking instance of XsdTranslate (constants in the cfg files). *)
EXTENDS XsdTranslate
=============================================================================
