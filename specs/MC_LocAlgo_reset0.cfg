SPECIFICATION Spec
CONSTANTS
  MaxLen = 6
  Design = "reset0"
  Alphabet = {"x", "n"}
INVARIANT Refines
INVARIANT LoopInvariant
