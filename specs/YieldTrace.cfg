SPECIFICATION Spec
CONSTANTS
  Cases <- Obs
  Budget = 0
INVARIANT Linearized
INVARIANT SameEvents
INVARIANT LabelsAreConsecutive
INVARIANT AllTargetsExist
INVARIANT StackBounded
