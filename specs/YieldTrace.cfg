SPECIFICATION Spec
INVARIANT Linearized
INVARIANT SameEvents
INVARIANT NoSilentCycle
INVARIANT LabelsAreConsecutive
INVARIANT AllTargetsExist
INVARIANT StackBounded
