------------------------------- MODULE Wrap -------------------------------
(* C27 — splitting a description into literal segments (common.wrap_text_into_lines).          *)
(*                                                                                             *)
(* Declarative part: the three clauses of the property over (text, width, segments), text and  *)
(* segments being sequences of code points.                                                    *)

(* (one action per part while tokenising, one per token while flowing), model-checked against  *)
(* the declarative clauses (design level, "M").                                                *)
(* The conformance spec WrapTrace.tla evaluates the same clauses on segments observed from the *)
(* real function.                                                                              *)
EXTENDS Naturals, Sequences, FiniteSets, SequencesExt, TLC

SP == 32
ArtA == <<97>>
ArtAn == <<97, 110>>
ArtThe == <<116, 104, 101>>
IsArticle(p) == p \in {ArtA, ArtAn, ArtThe}

\* Python's text.split(" "): consecutive spaces give empty parts.
RECURSIVE SplitFrom(_, _, _)
SplitFrom(t, i, cur) ==
    IF i > Len(t) THEN <<cur>>
    ELSE IF t[i] = SP THEN <<cur>> \o SplitFrom(t, i + 1, <<>>)
    ELSE SplitFrom(t, i + 1, Append(cur, t[i]))
Parts(t) == SplitFrom(t, 1, <<>>)

RECURSIVE JoinSp(_)
JoinSp(ps) == IF Len(ps) = 0 THEN <<>> ELSE IF Len(ps) = 1 THEN ps[1] ELSE ps[1] \o <<SP>> \o JoinSp(Tail(ps))

RECURSIVE SumLen(_, _)
SumLen(ss, n) == IF n = 0 THEN 0 ELSE Len(ss[n]) + SumLen(ss, n - 1)

\* 1-based offset in the text at which part k starts (for an empty part: where it would start).
PartStart(ps, k) == SumLen(ps, k - 1) + (k - 1) + 1

\* index of the segment containing text offset o (segments are consecutive slices when Concat holds)
SegOf(segs, o) == CHOOSE s \in 1..Len(segs) : SumLen(segs, s - 1) < o /\ o <= SumLen(segs, s)

---------------------------------------------------------------------------
(* The three clauses *)

Concat(text, segs) == FlattenSeq(segs) = text

StripTrailingSpace(s) == IF Len(s) > 0 /\ s[Len(s)] = SP THEN SubSeq(s, 1, Len(s) - 1) ELSE s

\* an unbreakable unit: one word, or article + word, optionally followed by its separating space
SingleToken(seg) ==
    LET ps == Parts(StripTrailingSpace(seg))
    IN  Len(ps) = 1 \/ (Len(ps) = 2 /\ IsArticle(ps[1]))

Fits(segs, w) == \A s \in 1..Len(segs) : Len(segs[s]) <= w \/ SingleToken(segs[s])

\* an article immediately followed (one space) by a non-empty non-article word stays with that word
GluePairs(text) ==
    LET ps == Parts(text)
    IN  {k \in 1..(Len(ps) - 1) : IsArticle(ps[k]) /\ ps[k + 1] # <<>> /\ ~IsArticle(ps[k + 1])}

ArticleGlued(text, segs) ==
    LET ps == Parts(text)
    IN  \A k \in GluePairs(text) : SegOf(segs, PartStart(ps, k)) = SegOf(segs, PartStart(ps, k + 1))

Clauses(text, w, segs) ==
    (IF Concat(text, segs) THEN {} ELSE {"Concat"})
    \cup (IF Fits(segs, w) THEN {} ELSE {"Fits"})
    \cup (IF Concat(text, segs) /\ ~ArticleGlued(text, segs) THEN {"ArticleGlued"} ELSE {})
=============================================================================
