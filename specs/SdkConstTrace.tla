---------------------------- MODULE SdkConstTrace ----------------------------
(* V for C30: the generated constants / enumerations / stringification against the declarations.                      *)
(* records: [rec = "prim", accepted, declared, found, observed]                                                       *)
(*          [rec = "sets", accepted, sets (declared), observed: Seq(Seq(literal id))]                                 *)
(*          [rec = "enum", accepted, enum, members: Seq([name, val]), roundtrip: Seq(name), texts, results: Seq(name)] *)
EXTENDS Sdk, Json, IOUtils
Obs == JsonDeserialize(IOEnv.VERIF_OBS)
\* (the record itself is the state, see SdkTrace)
VARIABLE Rec
Init == Rec \in ToSet(Obs)
Next == UNCHANGED Rec
ToSetOf(s) == {s[q] : q \in 1..Len(s)}

\* every primitive constant is exposed with its exact value
Inv_ConstantValue == Rec.rec = "prim" /\ Rec.accepted => Rec.found /\ Rec.observed = Rec.declared
\* every constant set contains exactly its listed literals plus those of the sets it is declared a superset of (transitively)
Inv_ConstantSetClosure ==
    Rec.rec = "sets" /\ Rec.accepted =>
        /\ Len(Rec.observed) = Len(Rec.sets)
        /\ \A k \in 1..Len(Rec.sets) : ToSetOf(Rec.observed[k]) = ToSetOf(Rec.sets[k].own) \cup ConstantSetClosure(T([q \in 1..Len(Rec.sets) |-> [own |-> ToSetOf(Rec.sets[q].own), supersetOf |-> ToSetOf(Rec.sets[q].supersetOf)]]), k)
\* every enumeration has exactly the declared literal values
Inv_EnumLiterals == Rec.rec = "enum" /\ Rec.accepted => ToSetOf(Rec.members) = {[name |-> Rec.enum.lits[q].name.src, val |-> Rec.enum.lits[q].val] : q \in 1..Len(Rec.enum.lits)} /\ Len(Rec.members) = Len(Rec.enum.lits)
\* literal -> text -> literal is the identity
Inv_EnumRoundTrip == Rec.rec = "enum" /\ Rec.accepted /\ Rec.distinct => Rec.roundtrip = T([q \in 1..Len(Rec.members) |-> Rec.members[q].name])
\* parsing any other text yields no literal (and a literal's text yields that literal)
Inv_EnumFromText == Rec.rec = "enum" /\ Rec.accepted /\ Rec.distinct => \A q \in 1..Len(Rec.texts) : Rec.results[q] = EnumFromText(Rec.enum, Rec.texts[q])
=============================================================================
