---- MODULE zz_hier_w ----
EXTENDS Naturals, Sequences, TLC, Json, IOUtils
ASSUME PrintT(<<"t0", JavaTime>>)
ASSUME PrintT(<<"len", Len(JsonDeserialize(IOEnv.VERIF_OBS)), JavaTime>>)
ASSUME PrintT(<<"len", Len(JsonDeserialize(IOEnv.VERIF_OBS)), JavaTime>>)
VARIABLES i
Init == i = 0
Next == UNCHANGED i
====
