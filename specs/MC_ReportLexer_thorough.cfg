SPECIFICATION Spec
CONSTANTS
  MaxLines = 7
INVARIANT TypeOK
INVARIANT AcceptsExactlyReports
INVARIANT FoldAgrees
INVARIANT PrefixFoldAgrees
INVARIANT BadIsTrap
INVARIANT NoSecondHeadline
