---- MODULE MC_Determinism ----
EXTENDS Determinism
AllLeakSets == AllLeaks
ASSUME AllValuesOccur(QuickPlan)
ASSUME AllValuesOccur(ThoroughPlan)
ASSUME PairwiseCovering(ThoroughPlan)
====
