---- MODULE MC_Determinism ----
EXTENDS Determinism
AllLeakSets == AllLeaks
ASSUME AllValuesOccur(QuickPlan)
ASSUME AllValuesOccur(ThoroughPlan)
ASSUME PairwiseCovering(ThoroughPlan)
\* a dependence need not be on a whole dimension: it can single out one value (e.g. only "crlf" among the states of
\* the output directory).  Because every value occurs, every non-constant function of one dimension is exposed:
ExposesEveryFunction(plan) ==
    \A d \in Dims : \A f \in [Values[d] -> {0, 1}] :
        (\E v, w \in Values[d] : f[v] # f[w]) => \E i, j \in DOMAIN plan : f[plan[i][d]] # f[plan[j][d]]
ASSUME ExposesEveryFunction(QuickPlan)
ASSUME ExposesEveryFunction(ThoroughPlan)
====
