---- MODULE MC_Determinism ----
EXTENDS Determinism
AllLeakSets == SUBSET Dims
NoLeak == {{}}
ASSUME AllValuesOccur(QuickPlan)
ASSUME AllValuesOccur(ThoroughPlan)
ASSUME PairwiseCovering(ThoroughPlan)
====
