SPECIFICATION Spec
CONSTANTS
  Rich = FALSE
  MaxStr = 3
INVARIANT TextualIsFaithful
