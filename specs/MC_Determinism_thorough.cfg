SPECIFICATION Spec
CONSTANTS
  Plan <- ThoroughPlan
  LeakSets <- AllLeakSets
INVARIANT PlanFeasible
INVARIANT Exposed
INVARIANT CleanPasses
PROPERTY Completes
