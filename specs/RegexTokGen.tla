---- MODULE RegexTokGen ----
(***************************************************************************************************)
(* G phase of C16, part (b): "arbitrary near-miss strings".  Every sequence of at most MaxLen tokens *)
(* over Tokens (meta characters, fragments of quantifiers / sets / escapes, literals), every longer  *)
(* sequence of at most CoreLen tokens over CoreTokens and every still longer one of at most TightLen *)
(* tokens over TightTokens, concatenated to a text; plus two framed families that go deeper into     *)
(* quantifier bodies (a{...}) and set bodies ([...], [^...]).                                        *)
(* Each token contributes the code points it denotes to the string alphabet of the case.            *)
(***************************************************************************************************)
EXTENDS Regex, Json, IOUtils, TLC, SequencesExt
CONSTANTS MaxLen, CoreLen, TightLen, QLen, SLen, AlphaCap, LenCap, Budget

Tok(text, chars) == [text |-> text, chars |-> chars]
Tokens == <<
  Tok(<<94>>, {}),                \* ^
  Tok(<<36>>, {}),                \* $
  Tok(<<46>>, {46}),              \* .
  Tok(<<42>>, {42}),              \* *
  Tok(<<43>>, {}),                \* +
  Tok(<<63>>, {}),                \* ?
  Tok(<<123>>, {123}),            \* {
  Tok(<<125>>, {125}),            \* }
  Tok(<<44>>, {44}),              \* ,
  Tok(<<49>>, {49}),              \* 1
  Tok(<<51>>, {}),                \* 3
  Tok(<<91>>, {}),                \* [
  Tok(<<91, 94>>, {}),            \* [^
  Tok(<<93>>, {93}),              \* ]
  Tok(<<45>>, {45}),              \* -
  Tok(<<40>>, {}),                \* (
  Tok(<<41>>, {}),                \* )
  Tok(<<124>>, {}),               \* |
  Tok(<<92>>, {92}),              \* \
  Tok(<<97>>, {97}),              \* a
  Tok(<<99>>, {99}),              \* c
  Tok(<<92, 120, 52, 49>>, {65}), \* \x41
  Tok(<<92, 85, 48, 48, 48, 49, 70, 54, 48, 48>>, {128512}),   \* \U0001F600
  Tok(<<128512>>, {128512}),      \* the astral character itself
  Tok(<<92, 100>>, {}),           \* \d
  Tok(<<32>>, {32}),              \* space
  Tok(<<178>>, {178}),            \* superscript two: a digit for str.isdigit, not for int()
  Tok(<<1635>>, {1635}),          \* arabic-indic digit three
  Tok(<<10>>, {10})               \* a raw line feed (an error in such a text must still be positioned)
>>
\* indices of the tokens used for the longer sequences
CoreTokens == {1, 4, 6, 7, 8, 9, 10, 12, 13, 14, 15, 16, 17, 18, 19, 20}

TightTokens == {1, 4, 7, 8, 9, 10, 12, 14, 15, 20}
TokSeqs == UNION {[1..n -> 1..Len(Tokens)] : n \in 0..MaxLen}
           \cup UNION {[1..n -> CoreTokens] : n \in (MaxLen + 1)..CoreLen}
           \cup UNION {[1..n -> TightTokens] : n \in (CoreLen + 1)..TightLen}
RECURSIVE Concat(_, _)
Concat(ts, n) == IF n > Len(ts) THEN <<>> ELSE Tokens[ts[n]].text \o Concat(ts, n + 1)
\* the token "[^" spells the same text as "[" followed by "^": keep the sequences that use the former
CanonicalToks(ts) == ~\E n \in 1..(Len(ts) - 1) : ts[n] = 12 /\ ts[n + 1] = 1
FromTokens == {[text |-> Concat(ts, 1), chars |-> UNION {Tokens[ts[n]].chars : n \in 1..Len(ts)}] :
                 ts \in {x \in TokSeqs : CanonicalToks(x)}}

\* framed families: a{BODY} with every body of at most QLen quantifier fragments, [BODY] and [^BODY] with every
\* body of at most SLen set fragments
QFragments == {<<49>>, <<51>>, <<44>>, <<178>>, <<1635>>, <<45>>, <<48>>, <<125>>}
SFragments == {<<97>>, <<99>>, <<45>>, <<94>>, <<92, 45>>, <<93>>, <<92, 93>>, <<128512>>, <<92, 92>>}
RECURSIVE Flatten(_, _)
Flatten(ss, n) == IF n > Len(ss) THEN <<>> ELSE ss[n] \o Flatten(ss, n + 1)
Bodies(F, m) == {Flatten(b, 1) : b \in UNION {[1..n -> F] : n \in 0..m}}
FramedQ == {[text |-> <<97, 123>> \o b \o <<125>>, chars |-> {97}] : b \in Bodies(QFragments, QLen)}
FramedS == {[text |-> pre \o b \o <<93>>, chars |-> {97, 99, 45, 94}] : pre \in {<<91>>, <<91, 94>>}, b \in Bodies(SFragments, SLen)}

Alphabet(chars) == TakeMin(chars, AlphaCap - 1) \cup {Neutral}
CaseOf(tc) ==
  LET A == Alphabet(tc.chars) IN [text |-> tc.text, alpha |-> SetToSeq(A), maxlen |-> LengthFor(A, LenCap, Budget)]
Cases == {CaseOf(tc) : tc \in FromTokens \cup FramedQ \cup FramedS}

ASSUME JsonSerialize(IOEnv.VERIF_OUT, SetToSeq(Cases))
ASSUME PrintT(<<"@@PRINT@@ cases", Cardinality(Cases), Cardinality(FromTokens), Cardinality(FramedQ), Cardinality(FramedS)>>)
VARIABLE dummy
Init == dummy = 0
Next == UNCHANGED dummy
====
