---- MODULE RegexTokGen ----
(***************************************************************************************************)
(* G phase of C16, part (b): "arbitrary near-miss strings".  Every sequence of at most MaxLen tokens *)
(* over Tokens (meta characters, fragments of quantifiers / sets / escapes, literals) and every      *)
(* sequence of exactly MaxLen + 1 tokens over the reduced set CoreTokens, concatenated to a text.    *)
(* Each token contributes the code points it denotes to the string alphabet of the case.            *)
(***************************************************************************************************)
EXTENDS Regex, Json, IOUtils, TLC, SequencesExt
CONSTANTS MaxLen, WithLonger, AlphaCap, LenCap, Budget

Tok(text, chars) == [text |-> text, chars |-> chars]
Tokens == <<
  Tok(<<94>>, {}),                \* ^
  Tok(<<36>>, {}),                \* $
  Tok(<<46>>, {46}),              \* .
  Tok(<<42>>, {42}),              \* *
  Tok(<<43>>, {}),                \* +
  Tok(<<63>>, {}),                \* ?
  Tok(<<123>>, {123}),            \* {
  Tok(<<125>>, {125}),            \* }
  Tok(<<44>>, {44}),              \* ,
  Tok(<<49>>, {49}),              \* 1
  Tok(<<51>>, {}),                \* 3
  Tok(<<91>>, {}),                \* [
  Tok(<<91, 94>>, {}),            \* [^
  Tok(<<93>>, {93}),              \* ]
  Tok(<<45>>, {45}),              \* -
  Tok(<<40>>, {}),                \* (
  Tok(<<41>>, {}),                \* )
  Tok(<<124>>, {}),               \* |
  Tok(<<92>>, {92}),              \* \
  Tok(<<97>>, {97}),              \* a
  Tok(<<99>>, {99}),              \* c
  Tok(<<92, 120, 52, 49>>, {65}), \* \x41
  Tok(<<92, 85, 48, 48, 48, 49, 70, 54, 48, 48>>, {128512}),   \* \U0001F600
  Tok(<<128512>>, {128512}),      \* the astral character itself
  Tok(<<92, 100>>, {}),           \* \d
  Tok(<<32>>, {32}),              \* space
  Tok(<<178>>, {178}),            \* superscript two: a digit for str.isdigit, not for int()
  Tok(<<1635>>, {1635})           \* arabic-indic digit three
>>
\* indices of the tokens used for the longer sequences
CoreTokens == {1, 4, 6, 7, 8, 9, 10, 12, 13, 14, 15, 16, 17, 18, 19, 20}

TokSeqs == UNION {[1..n -> 1..Len(Tokens)] : n \in 0..MaxLen}
           \cup (IF WithLonger THEN [1..(MaxLen + 1) -> CoreTokens] ELSE {})
RECURSIVE Concat(_, _)
Concat(ts, n) == IF n > Len(ts) THEN <<>> ELSE Tokens[ts[n]].text \o Concat(ts, n + 1)
Alphabet(ts) ==
  LET M == UNION {Tokens[ts[n]].chars : n \in 1..Len(ts)} IN TakeMin(M, AlphaCap - 1) \cup {Neutral}
CaseOf(ts) ==
  LET A == Alphabet(ts) IN [toks |-> ts, text |-> Concat(ts, 1), alpha |-> SetToSeq(A), maxlen |-> LengthFor(A, LenCap, Budget)]
\* the token "[^" spells the same text as "[" followed by "^": keep the sequences that use the former
CanonicalToks(ts) == ~\E n \in 1..(Len(ts) - 1) : ts[n] = 12 /\ ts[n + 1] = 1
Cases == {CaseOf(ts) : ts \in {x \in TokSeqs : CanonicalToks(x)}}

ASSUME JsonSerialize(IOEnv.VERIF_OUT, SetToSeq(Cases))
ASSUME PrintT(<<"@@PRINT@@ cases", Cardinality(Cases), Cardinality(TokSeqs)>>)
VARIABLE dummy
Init == dummy = 0
Next == UNCHANGED dummy
====
