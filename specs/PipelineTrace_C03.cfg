INIT TraceInit
NEXT TraceNext
CONSTANTS
  MaxErr = 2
  Strict = FALSE
INVARIANT Inv_TraceAccepted
INVARIANT Inv_ExitIffSilent
INVARIANT Inv_StdoutTail
INVARIANT Inv_ReportShape
INVARIANT Inv_ReportIsReport
INVARIANT Inv_FoundSubsetReported
INVARIANT Inv_PairBoth
INVARIANT Inv_ExitCodeFollowsStages
INVARIANT Inv_SilenceFollowsStages
INVARIANT Inv_NoOutputWithoutModel
