---- MODULE Determinism ----
(***************************************************************************************************)
(* C22 -- generation is deterministic.                                                             *)
(*                                                                                                 *)
(* One *history* is a sequence of runs of the generator for one (meta-model, snippets, target).    *)
(* A run has a configuration: everything the sentence says must NOT matter                         *)
(*    seed   PYTHONHASHSEED of the process                  0 | 1 | 2 | random                     *)
(*    loc    which output directory (two absolute paths)    A | B                                  *)
(*    pre    what is in the output directory before         none | stale | unrelated               *)
(*    order  the order in which the snippets are listed     natural | reversed | shuffled          *)
(*    proc   fresh interpreter or a process that already ran other generations   sub | inproc      *)
(*    cache  state of the model cache in the temp dir       cold | warm                            *)
(* and produces a digest with four components (files written, stdout up to the output path,         *)
(* stderr, exit status).  The environment evolves: a run leaves output behind in its directory     *)
(* (which makes "stale" possible later) and warms the cache.                                        *)
(*                                                                                                 *)
(* The module is a state machine that executes a *plan* (the sequence of configurations the        *)
(* harness replays against the real generator).  The generator is abstracted by the set Leaks of   *)
(* configuration dimensions its result depends on (plus dependence on the pre-existing content).   *)
(*   M1 (MC_Determinism):   with Leaks = {} every history satisfies OneDigest;                     *)
(*   M2 (plan adequacy):    for EVERY non-empty Leaks \subseteq Dims the plan exposes it, i.e.      *)
(*                          OneDigest is violated -- checked for all 63 leak sets at once by       *)
(*                          letting TLC choose Leaks in Init;  the plan is feasible (a run that    *)
(*                          asks for stale output / a warm cache comes after a run that left it);  *)
(*   M3 (thorough plan):    the plan is a pairwise covering array of the dimensions.               *)
(* V  (DeterminismTrace):  the digests observed from the real generator for every history.         *)
(***************************************************************************************************)
EXTENDS DeterminismPlan

(* the machine ------------------------------------------------------------------------------------ *)
CONSTANT Plan, LeakSets   \* LeakSets: the sets of dimensions the abstract generator may depend on (TLC picks one in Init)
VARIABLES k,        \* number of runs done
          leaks,    \* the dependence of the abstract generator (fixed per behaviour)
          dirs,     \* loc -> "empty" | "output" : what earlier runs left in the two output directories
          warm,     \* has an earlier run filled the model cache?
          digests   \* sequence of the digests of the runs so far

vars == <<k, leaks, dirs, warm, digests>>

\* the digest of the abstract generator: the projection of the configuration on what it depends on
DigestOf(c, L) == [d \in L |-> c[d]]

\* the harness can set up "stale" only if a previous run left output in that directory, "warm" only after some run;
\* it can always empty the directory / the cache or put unrelated files there
Feasible(c) ==
    /\ c.pre = "stale" => dirs[c.loc] = "output"
    /\ c.cache = "warm" => warm

Init == /\ k = 0 /\ leaks \in LeakSets /\ dirs = [l \in Values.loc |-> "empty"] /\ warm = FALSE /\ digests = <<>>
Run == /\ k < Len(Plan)
       /\ LET c == Plan[k + 1] IN
          /\ Feasible(c)
          /\ digests' = Append(digests, DigestOf(c, leaks))
          /\ dirs' = [dirs EXCEPT ![c.loc] = "output"]
          /\ warm' = TRUE
       /\ k' = k + 1 /\ UNCHANGED leaks
Done == k = Len(Plan) /\ UNCHANGED vars
Next == Run \/ Done
Spec == Init /\ [][Next]_vars /\ WF_vars(Run)

(* properties ------------------------------------------------------------------------------------- *)
OneDigest == \A i, j \in DOMAIN digests : digests[i] = digests[j]
\* the plan never asks for an environment that cannot have been established
PlanFeasible == k < Len(Plan) => Feasible(Plan[k + 1])
\* the whole plan gets executed
Completes == <>(k = Len(Plan))
\* adequacy: at the end of the plan a generator that depends on anything has been exposed
Exposed == k = Len(Plan) /\ leaks # {} => ~OneDigest
\* soundness of the model: a generator that depends on nothing always passes
CleanPasses == leaks = {} => OneDigest
====
