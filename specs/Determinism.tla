---- MODULE Determinism ----
(***************************************************************************************************)
(* C22 -- generation is deterministic.                                                             *)
(*                                                                                                 *)
(* One *history* is a sequence of runs of the generator for one (meta-model, snippets, target).    *)
(* A run has a configuration: everything the sentence says must NOT matter                         *)
(*    seed   PYTHONHASHSEED of the process                  0 | 1 | 2 | random                     *)
(*    loc    which output directory (two absolute paths)    A | B                                  *)
(*    pre    what is in the output directory before         none | stale | unrelated | crlf        *)
(*           (crlf = the previous output of the same generation with the line endings changed)    *)
(*    order  the order in which the snippets are listed     natural | reversed | shuffled          *)
(*    proc   fresh interpreter or a process that already ran other generations   sub | inproc      *)
(*    cache  state of the model cache in the temp dir       cold | warm                            *)
(* and produces a digest with four components (files written, stdout up to the output path,         *)
(* stderr, exit status).  The environment evolves: a run leaves output behind in its directory     *)
(* (which makes "stale" possible later) and warms the cache.                                        *)
(*                                                                                                 *)
(* The module is a state machine that executes a *plan* (the sequence of configurations the        *)
(* harness replays against the real generator).  The generator is abstracted by the set Leaks of   *)
(* configuration dimensions its result depends on (plus dependence on the pre-existing content).   *)
(*   M1 (MC_Determinism):   with Leaks = {} every history satisfies OneDigest;                     *)
(*   M2 (plan adequacy):    for EVERY dependence of the front end (whose result is cached) and/or  *)
(*                          of the back end on the dimensions the plan exposes it, i.e. OneDigest  *)
(*                          is violated -- checked for all 32 x 64 leak pairs at once by letting   *)
(*                          TLC choose them in Init;  the plan is feasible (a run that asks for    *)
(*                          stale output / a warm cache comes after a run that left it);           *)
(*   M3 (thorough plan):    the plan is a pairwise covering array of the dimensions.               *)
(* V  (DeterminismTrace):  the digests observed from the real generator for every history.         *)
(***************************************************************************************************)
EXTENDS DeterminismPlan

(* the machine ------------------------------------------------------------------------------------ *)
\* The abstract generator has a front end (model -> symbol table, whose result is cached) and a back end.  Each may
\* depend on some dimensions of the configuration: leaks = [f |-> front-end leaks, b |-> back-end leaks].
\* A run with a warm cache re-uses the front-end result of the run that filled the cache: a front-end dependence
\* (e.g. on the hash seed) is only visible between two runs that both start with a cold cache.
CONSTANT Plan, LeakSets   \* LeakSets: the dependences the abstract generator may have (TLC picks one in Init)
VARIABLES k,        \* number of runs done
          leaks,    \* the dependence of the abstract generator (fixed per behaviour)
          dirs,     \* loc -> "empty" | "output" : what earlier runs left in the two output directories
          warm,     \* has an earlier run filled the model cache?
          cached,   \* the front-end result stored in the model cache (meaningful when warm)
          digests   \* sequence of the digests of the runs so far

vars == <<k, leaks, dirs, warm, cached, digests>>
FrontDims == Dims \ {"cache"}
AllLeaks == [f : SUBSET FrontDims, b : SUBSET Dims]
NoLeaks == {[f |-> {}, b |-> {}]}

Proj(c, L) == [d \in L |-> c[d]]
\* the harness can set up "stale" only if a previous run left output in that directory, "warm" only after some run;
\* it can always empty the directory / the cache or put unrelated files there
Feasible(c) ==
    /\ c.pre \in {"stale", "crlf"} => dirs[c.loc] = "output"
    /\ c.cache = "warm" => warm

Init == /\ k = 0 /\ leaks \in LeakSets /\ dirs = [l \in Values.loc |-> "empty"] /\ warm = FALSE /\ cached = [d \in {} |-> ""] /\ digests = <<>>
Run == /\ k < Len(Plan)
       /\ LET c == Plan[k + 1]
              front == IF c.cache = "warm" THEN cached ELSE Proj(c, leaks.f)
          IN /\ Feasible(c)
             /\ digests' = Append(digests, [front |-> front, back |-> Proj(c, leaks.b)])
             /\ cached' = front /\ warm' = TRUE
             /\ dirs' = [dirs EXCEPT ![c.loc] = "output"]
       /\ k' = k + 1 /\ UNCHANGED leaks
Done == k = Len(Plan) /\ UNCHANGED vars
Next == Run \/ Done
Spec == Init /\ [][Next]_vars /\ WF_vars(Run)

(* properties ------------------------------------------------------------------------------------- *)
OneDigest == \A i, j \in DOMAIN digests : digests[i] = digests[j]
\* the plan never asks for an environment that cannot have been established
PlanFeasible == k < Len(Plan) => Feasible(Plan[k + 1])
\* the whole plan gets executed
Completes == <>(k = Len(Plan))
\* adequacy: at the end of the plan a generator that depends on anything -- in its front end or in its back end --
\* has been exposed
Exposed == k = Len(Plan) /\ (leaks.f # {} \/ leaks.b # {}) => ~OneDigest
\* soundness of the model: a generator that depends on nothing always passes
CleanPasses == leaks.f = {} /\ leaks.b = {} => OneDigest
====
