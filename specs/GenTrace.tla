---- MODULE GenTrace ----
(* V phase of C02: every run observed from the real main.execute / smoke.main.execute (one record per        *)
(* (accepted model, target, snippet mode)) must be a trace the contract accepts.  One initial state per       *)
(* observation, one invariant per clause of the sentence (GenContract.tla).                                   *)
EXTENDS GenContract, FiniteSets, Json, IOUtils, TLC
Obs == JsonDeserialize(IOEnv.VERIF_OBS)
VARIABLE i
Init == i \in 1..Len(Obs)
Next == UNCHANGED i
Tr(n) == Obs[n].events
IsGen(n) == Obs[n].target # "smoke"
\* the runner must hand over well-formed, closed traces: anything else is a machinery problem, not a finding
Inv_WellFormed == IsTrace(Tr(i)) /\ Closed(Tr(i))
Inv_NoUncaughtException == NoUncaughtException(Tr(i))
Inv_ExitZeroWroteOutput == ExitZeroWroteOutput(Tr(i), IsGen(i))
Inv_NonZeroReported == NonZeroReported(Tr(i))
\* non-vacuity: how many runs ended in each way
NOk == Cardinality({n \in 1..Len(Obs) : Returned(Tr(n)) /\ Status(Tr(n)) = 0})
NReported == Cardinality({n \in 1..Len(Obs) : Returned(Tr(n)) /\ Status(Tr(n)) # 0})
NRaised == Cardinality({n \in 1..Len(Obs) : Raised(Tr(n))})
ASSUME PrintT(<<"@@PRINT@@ runs", Len(Obs), NOk, NReported, NRaised>>)
====
