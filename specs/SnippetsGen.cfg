INIT Init
NEXT Next
CONSTANTS
  NPairs = 700
  NTriples = 500
  NQuads = 300
