---------------------------- MODULE YieldMachine ----------------------------
(* C26 — the product machine: for a case (a structured flow and a linear program claimed to be its *)
(* linearization) the structured interpreter (continuation stack sk) and the resumable state        *)
(* machine (location loc) run in lock-step, from observable event to observable event, with the    *)
(* condition outcomes chosen nondeterministically and SHARED by both sides.                         *)
(*                                                                                                 *)
(* The reachable product states of one case are finite (the stack is bounded by the nesting of the *)
(* flow), so TLC explores EVERY sequence of condition outcomes of ANY length; SameEvents is a state *)
(* predicate, hence "same sequence of commands, condition evaluations and yields for every         *)
(* sequence of condition outcomes" holds for a case iff SameEvents is an invariant of its product   *)
(* machine (induction over the common prefix).                                                     *)
(* Budget > 0 additionally bounds the number of condition evaluations (used by the simulation      *)
(* mode); Budget = 0 means unbounded.                                                              *)
EXTENDS Yield

CONSTANTS Cases,   \* sequence of [flow, subs, flat]
          Budget

VARIABLES c,       \* index of the case
          sk,      \* structured side: continuation stack
          loc,     \* linear side: location in Cases[c].subs
          spent    \* number of condition outcomes consumed (stays 0 when Budget = 0)
vars == <<c, sk, loc, spent>>

Prog == Cases[c].subs
Flat == Cases[c].flat

SNext == SAdv(sk)
LNext == LAdv(Prog, Flat, loc)

Init ==
    /\ c \in 1..Len(Cases)
    /\ sk = StartStack(Cases[c].flow)
    /\ loc = StartLoc(Cases[c].subs)
    /\ spent = 0

\* both sides perform the same command or the same yield
StepPlain ==
    LET se == SNext le == LNext IN
    /\ Agree(se, le) /\ se.ev \in {"cmd", "yield"}
    /\ sk' = se.k /\ loc' = le.l
    /\ UNCHANGED <<c, spent>>

\* both sides evaluate the same condition; the environment picks the outcome
StepCond(b) ==
    LET se == SNext le == LNext IN
    /\ Agree(se, le) /\ se.ev = "cond"
    /\ (Budget = 0 \/ spent < Budget)
    /\ sk' = (IF b THEN se.kT ELSE se.kF)
    /\ loc' = (IF b THEN le.lT ELSE le.lF)
    /\ spent' = (IF Budget = 0 THEN 0 ELSE spent + 1)
    /\ UNCHANGED c

Next == StepPlain \/ \E b \in BOOLEAN : StepCond(b)
Spec == Init /\ [][Next]_vars

-----------------------------------------------------------------------------
\* dynamic clause
SameEvents == Agree(SNext, LNext)

\* static clauses (state predicates that depend on c only)
LabelsAreConsecutive == Flat \/ LabelsConsecutive(Prog)
AllTargetsExist == IF Flat THEN TargetsExistFlat(Prog) ELSE TargetsExist(Prog)

\* sanity of the structured side: the stack never grows beyond the nesting depth (finite product)
StackBounded == Len(sk) <= 2 * DepthOfSeq(Cases[c].flow) + 1
=============================================================================
