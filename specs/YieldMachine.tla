---------------------------- MODULE YieldMachine ----------------------------
(* C26 — the product machine: for a case (a structured flow and a linear program claimed to be its *)
(* linearization) the structured interpreter (continuation stack sk) and the resumable state        *)
(* machine (location loc) run side by side in SMALL STEPS:                                          *)
(*   STau   the structured side performs a silent step (pop a finished sequence, unfold a loop);   *)
(*   LTau   the linear side performs a silent step (no-op, jump) while the structured side waits   *)
(*          at an observable event;                                                                *)
(*   Sync   both sides are at an observable event: they must AGREE on it (same kind, same code);   *)
(*          a command or yield is performed by both, a condition is evaluated by both and the      *)
(*          outcome, chosen nondeterministically, is SHARED.                                        *)
(* The reachable product states of one case are finite (the stack is bounded by the nesting of the *)
(* flow), so TLC explores EVERY sequence of condition outcomes of ANY length; SameEvents is a state *)
(* predicate, hence "same sequence of commands, condition evaluations and yields for every         *)
(* sequence of condition outcomes" holds for a case iff SameEvents and NoSilentCycle are invariants *)
(* of its product machine (induction over the common prefix of the two event sequences).           *)
(* Budget > 0 additionally bounds the number of condition evaluations (simulation mode);           *)
(* Budget = 0 means unbounded.                                                                     *)
EXTENDS Yield

CONSTANTS Cases,   \* sequence of [flow, subs, flat]
          Budget

VARIABLES c,       \* index of the case
          ph,      \* "new" (case chosen, machines not started), "first" (both at their start), "run"
          sk,      \* structured side: continuation stack
          loc,     \* linear side: location in Cases[c].subs
          idle,    \* number of consecutive silent steps of the linear side
          spent    \* number of condition outcomes consumed (stays 0 when Budget = 0)
vars == <<c, ph, sk, loc, idle, spent>>

Prog == Cases[c].subs
Flat == Cases[c].flat
\* a silent run of the linear side longer than the program is a silent cycle
IdleLimit == Cases[c].n + 1

SNow == SStep(sk)
LNow == LStep(Prog, Flat, loc)

\* one initial state per case; it is cheap on purpose (TLC computes initial states serially), the
\* machines are started by the action Start
Init ==
    /\ c \in 1..Len(Cases)
    /\ ph = "new" /\ sk = <<>> /\ loc = End /\ idle = 0 /\ spent = 0

Start ==
    /\ ph = "new" /\ ph' = "first"
    /\ sk' = StartStack(Cases[c].flow)
    /\ loc' = StartLoc(Cases[c].subs)
    /\ UNCHANGED <<c, idle, spent>>

\* (the step results are parameters so that TLC evaluates SStep / LStep once per state)
STau(s) ==
    /\ s.ev = "tau"
    /\ sk' = s.k
    /\ ph' = "run" /\ UNCHANGED <<c, loc, idle, spent>>

LTau(s, l) ==
    /\ s.ev # "tau" /\ l.ev = "tau"
    /\ idle < IdleLimit
    /\ loc' = l.l /\ idle' = idle + 1
    /\ ph' = "run" /\ UNCHANGED <<c, sk, spent>>

\* both sides perform the same command or the same yield
SyncPlain(s, l) ==
    /\ s.ev \in {"cmd", "yield"} /\ Agree(s, l)
    /\ sk' = s.k /\ loc' = l.l
    /\ idle' = 0 /\ ph' = "run" /\ UNCHANGED <<c, spent>>

\* both sides evaluate the same condition; the environment picks the outcome
SyncCond(s, l, b) ==
    /\ s.ev = "cond" /\ Agree(s, l)
    /\ (Budget = 0 \/ spent < Budget)
    /\ sk' = (IF b THEN s.kT ELSE s.kF)
    /\ loc' = (IF b THEN l.lT ELSE l.lF)
    /\ spent' = (IF Budget = 0 THEN 0 ELSE spent + 1)
    /\ idle' = 0 /\ ph' = "run" /\ UNCHANGED c

Run == /\ ph # "new"
       /\ LET s == SNow
              l == LNow
          IN  STau(s) \/ LTau(s, l) \/ SyncPlain(s, l) \/ \E b \in BOOLEAN : SyncCond(s, l, b)

\* (the invariants look at the visible part of the next steps only: cheap)
SEv == SEvent(sk)
LEv == LEvent(Prog, loc)
AtEvents == ph # "new" /\ SEv[1] # "tau" /\ LEv[1] # "tau"

Next == Start \/ Run
Spec == Init /\ [][Next]_vars

-----------------------------------------------------------------------------
\* dynamic clauses
SameEvents == AtEvents => AgreeEvents(SEv, LEv)
NoSilentCycle == idle < IdleLimit

\* static clauses (they depend on c only; evaluated once per case, in its "first" state)
LabelsAreConsecutive == ph = "first" => (Flat \/ LabelsConsecutive(Prog))
AllTargetsExist == ph = "first" => (IF Flat THEN TargetsExistFlat(Prog) ELSE TargetsExist(Prog))

\* sanity of the structured side (finite product): the stack is bounded by the size of the flow
StackBounded == Len(sk) <= 2 * Cases[c].size + 1
=============================================================================
