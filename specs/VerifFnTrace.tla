----------------------------- MODULE VerifFnTrace -----------------------------
(* V phase of C08 (verification functions). One record per (model, function, arguments): the     *)
(* result of the generated function (`got`) and of the original meta-model function executed by  *)
(* CPython (`orig`), both as Expr!PyCode strings. The specification's value is                  *)
(*   pattern functions:      FullMatch(pattern tree, text)                                       *)
(*   transpilable functions: Eval of the body with the arguments bound.                          *)
EXTENDS Verif, Json, IOUtils

Models == JsonDeserialize(IOEnv.VERIF_MODELS)
Obs == JsonDeserialize(IOEnv.VERIF_OBS)
VARIABLES i, v

ArgName(k) == "arg" \o ToString(k)
SpecResult(o) ==
    LET M == Models[o.m]
        env == [x \in {ArgName(k) : k \in 1..Len(o.args)} |-> o.args[CHOOSE k \in 1..Len(o.args) : ArgName(k) = x]]
    IN  Eval(Call(o.fn, [k \in 1..Len(o.args) |-> Name(ArgName(k))]), env, GOf(M))

Init == i \in 1..Len(Obs) /\ v = "todo"
Next == v = "todo" /\ i' = i /\ v' = PyCode(SpecResult(Obs[i]))

\* S: the original Python function agrees with the specification
Inv_SpecMatchesPython == v # "todo" => Obs[i].orig = v
\* the clause: the generated function gives the same result as the original
Inv_FunctionsAgree == v # "todo" => Obs[i].got = v
=============================================================================
