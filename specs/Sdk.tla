-------------------------------- MODULE Sdk --------------------------------
(* C10 / C29 / C30 -- what a generated SDK has to do, independent of any generator.              *)
(*                                                                                                 *)
(* The module is variable-free (it is EXTENDed by the model-checking, generating and trace         *)
(* modules).  It defines                                                                           *)
(*   1. abstract meta-models  (classes with single/multiple inheritance, abstract classes,         *)
(*      the with_model_type setting, properties of primitive / enumeration / class / list type,    *)
(*      optional properties, declared defaults) and the naming rules of the wire formats;          *)
(*   2. abstract instances (values) and their typing;                                              *)
(*   3. traversal: DescendOnce / Descend (pre-order) as sequences of paths, visitor dispatch       *)
(*      names, accessor semantics (over_X_or_empty, X_or_default)                       [C29];     *)
(*   4. base64;                                                                                    *)
(*   5. the JSON wire format: ToJ and a total reference de-serializer FromJ with outcome           *)
(*      Reject, in a strict and a lenient flavour, from which the three-valued verdict             *)
(*      MustReject / MustAcceptWith(x) / Either is derived                              [C10];     *)
(*   6. the XML wire format: ToX and the reference FromX (same flavours)                [C10];     *)
(*   7. (in SdkMut.tla) document mutation operators for both formats                   [C10];     *)
(*   8. constant sets with superset_of (ConstantSetClosure) and enumeration <-> text    [C30].     *)
(*                                                                                                 *)
(* Strings that carry arbitrary text are Seq(Int) of code points ("cps"); names of the             *)
(* meta-model are TLA+ strings.  Numbers are opaque tokens (strings) -- TLC never does             *)
(* arithmetic on them, the Python side converts tokens <-> int/float.                              *)
(*                                                                                                 *)
(* A note on style: TLC re-evaluates a LET definition at every use but caches operator             *)
(* arguments, so anything expensive is threaded through operator parameters ("...1", "...2").      *)
EXTENDS Integers, Sequences, FiniteSets, SequencesExt, TLC

-----------------------------------------------------------------------------
(* 0. small helpers *)

RangeOf(s) == {s[i] : i \in 1..Len(s)}

RECURSIVE ConcatStr(_)
ConcatStr(ss) == IF Len(ss) = 0 THEN "" ELSE ss[1] \o ConcatStr(Tail(ss))

RECURSIVE JoinStr(_, _)
JoinStr(ss, sep) == IF Len(ss) = 0 THEN "" ELSE IF Len(ss) = 1 THEN ss[1] ELSE ss[1] \o sep \o JoinStr(Tail(ss), sep)

\* TLC evaluates a function constructor [i \in S |-> e] lazily -- and again at every application.  T forces it
\* into a tuple once (concatenation is implemented on tuples).
T(f) == f \o <<>>

\* concatenation of a sequence of sequences (FoldLeft is evaluated iteratively by TLC: no deep recursion on long sequences)
Flat(ss) == FoldLeft(LAMBDA acc, e : acc \o e, <<>>, T(ss))

HasElem(s, e) == \E i \in 1..Len(s) : s[i] = e
NoDup(s) == \A i, j \in 1..Len(s) : i # j => s[i] # s[j]
SwapAt(s, i, j) == [s EXCEPT ![i] = s[j], ![j] = s[i]]
AnyOf(S) == CHOOSE e \in S : TRUE

-----------------------------------------------------------------------------
(* 1. meta-models and naming                                                                       *)
(*                                                                                                 *)
(* identifier: [src |-> "Data_element_URL", lo |-> <<"data","element","url">>,                     *)
(*              cap |-> <<"Data","Element","Url">>, up |-> <<"DATA","ELEMENT","URL">>]             *)
(* (TLC cannot change the case of a string; the harness checks that lo/cap/up are the case         *)
(* variants of the "_"-separated parts of src.)                                                    *)

LowerCamel(id) == id.lo[1] \o ConcatStr(Tail(id.cap))
CapCamel(id)   == ConcatStr(id.cap)
LowerSnake(id) == JoinStr(id.lo, "_")
UpperSnake(id) == JoinStr(id.up, "_")

JsonProperty(id)  == LowerCamel(id)     \* key of a property in a JSON object
JsonModelType(id) == CapCamel(id)       \* value of "modelType"
XmlClassName(id)  == LowerCamel(id)     \* tag of an element standing for an instance of a class
XmlProperty(id)   == LowerCamel(id)     \* tag of an element standing for a property
VisitName(id)     == "visit_" \o LowerSnake(id)
TransformName(id) == "transform_" \o LowerSnake(id)

(* types *)
TBool == [t |-> "bool"]
TInt == [t |-> "int"]
TFloat == [t |-> "float"]
TStr == [t |-> "str"]
TBytes == [t |-> "bytes"]
TEnum(e) == [t |-> "enum", name |-> e]
TCls(c) == [t |-> "cls", name |-> c]
TList(item) == [t |-> "list", item |-> item]
IsPrim(t) == t.t \in {"bool", "int", "float", "str", "bytes"}

(* raw model (as written in SdkModels):                                                            *)
(*   [id, classes: Seq(class), enums: Seq(enum), root: class src]                                  *)
(*   class: [name: id, abstract, wmt (declared on this class), bases: Seq(src),                    *)
(*           props: Seq([name: id, type, opt]) (own), defaults: Seq([prop, enum, lit]) (own)]      *)
(*   enum:  [name: id, lits: Seq([name: id, val: cps])]                                            *)
RawClass(r, n) == r.classes[CHOOSE i \in 1..Len(r.classes) : r.classes[i].name.src = n]
RawNames(r) == {r.classes[i].name.src : i \in 1..Len(r.classes)}

RECURSIVE Ancestors0(_, _)
Ancestors0(r, n) ==
    LET bs == RangeOf(RawClass(r, n).bases) IN bs \cup UNION {Ancestors0(r, b) : b \in bs}
\* all properties in declaration order: inherited (in the order of the bases, a property reached along several paths -- a
\* diamond -- counted once, at its first occurrence) then own
KeepFirst(names) == SelectSeq(T([i \in 1..Len(names) |-> i]), LAMBDA i : \A j \in 1..(i - 1) : names[j] # names[i])
PickAt(s, idx) == T([k \in 1..Len(idx) |-> s[idx[k]]])
DedupProps(ps) == PickAt(ps, KeepFirst(T([i \in 1..Len(ps) |-> ps[i].name.src])))
DedupDefaults(ds) == PickAt(ds, KeepFirst(T([i \in 1..Len(ds) |-> ds[i].prop])))
RECURSIVE AllProps0(_, _)
AllProps0(r, n) ==
    LET c == RawClass(r, n) IN DedupProps(Flat(T([i \in 1..Len(c.bases) |-> AllProps0(r, c.bases[i])])) \o c.props)
RECURSIVE AllDefaults0(_, _)
AllDefaults0(r, n) ==
    LET c == RawClass(r, n) IN DedupDefaults(Flat(T([i \in 1..Len(c.bases) |-> AllDefaults0(r, c.bases[i])])) \o c.defaults)
ConcreteOf0(r, n) == {c \in RawNames(r) : ~RawClass(r, c).abstract /\ (c = n \/ n \in Ancestors0(r, c))}

(* prepared model: the raw one plus, per class, everything derived (computed once) *)
PrepProp(p) == [name |-> p.name, src |-> p.name.src, key |-> LowerCamel(p.name), type |-> p.type, opt |-> p.opt]
PrepProps(ps) == T([i \in 1..Len(ps) |-> PrepProp(ps[i])])
ClassInfo(r, n) ==
    [name |-> RawClass(r, n).name,
     abstract |-> RawClass(r, n).abstract,
     ancestors |-> ToSet(SetToSeq(Ancestors0(r, n))),                  \* (ToSet o SetToSeq: an explicit set instead of a lazy comprehension)
     props |-> PrepProps(AllProps0(r, n)),
     defaults |-> AllDefaults0(r, n),
     concrete |-> ToSet(SetToSeq(ConcreteOf0(r, n))),
     \* de-serialization of a slot of class n must discriminate iff something else than n itself can be there
     dispatch |-> ConcreteOf0(r, n) # {n},
     \* the setting is inherited
     wmt |-> \E a \in {n} \cup Ancestors0(r, n) : RawClass(r, a).wmt,
     mt |-> JsonModelType(RawClass(r, n).name),
     tag |-> XmlClassName(RawClass(r, n).name),
     visit |-> VisitName(RawClass(r, n).name),
     transform |-> TransformName(RawClass(r, n).name)]
\* (built with :> and @@ so that TLC holds an explicit function: a constructor [n \in S |-> e] would be re-evaluated at every application)
RECURSIVE InfoTable(_, _)
InfoTable(r, k) == IF k = 0 THEN <<>> ELSE (r.classes[k].name.src :> ClassInfo(r, r.classes[k].name.src)) @@ InfoTable(r, k - 1)
Prep(r) == [id |-> r.id, root |-> r.root, enums |-> r.enums, classes |-> r.classes, info |-> InfoTable(r, Len(r.classes))]

ClassNames(m) == DOMAIN m.info
AllProps(m, n) == m.info[n].props
ConcreteOf(m, n) == m.info[n].concrete
NeedsDispatch(m, n) == m.info[n].dispatch
Wmt(m, n) == m.info[n].wmt
EnumOf(m, n) == m.enums[CHOOSE i \in 1..Len(m.enums) : m.enums[i].name.src = n]
LitIn(lits, l) == lits[CHOOSE i \in 1..Len(lits) : lits[i].name.src = l]
LitOf(m, e, l) == LitIn(EnumOf(m, e).lits, l)

\* classes that occur as the type of a property (or of the items of a list property), plus the root
PropClass(p) == IF p.type.t = "cls" THEN {p.type.name} ELSE IF p.type.t = "list" /\ p.type.item.t = "cls" THEN {p.type.item.name} ELSE {}
SlotClasses(m) ==
    {m.root} \cup UNION {UNION {PropClass(m.classes[i].props[j]) : j \in 1..Len(m.classes[i].props)} : i \in 1..Len(m.classes)}

\* the front end would reject anything else; the family in SdkModels is ASSUMEd to satisfy it
ModelOk(m) ==
    /\ NoDup([i \in 1..Len(m.classes) |-> m.classes[i].name.src])
    /\ \A n \in ClassNames(m) :
        /\ n \notin m.info[n].ancestors
        /\ RangeOf(RawClass(m, n).bases) \subseteq ClassNames(m)
        /\ NoDup([i \in 1..Len(AllProps(m, n)) |-> AllProps(m, n)[i].src])       \* no diamonds, no re-declaration
        /\ NoDup([i \in 1..Len(AllProps(m, n)) |-> AllProps(m, n)[i].key])
        /\ n \in SlotClasses(m) /\ NeedsDispatch(m, n) => \A c \in ConcreteOf(m, n) \cup {n} : Wmt(m, c)
        /\ m.info[n].abstract => ConcreteOf(m, n) # {}
    /\ m.root \in ClassNames(m)
    \* distinct wire names
    /\ \A a, b \in ClassNames(m) : a # b => m.info[a].mt # m.info[b].mt /\ m.info[a].tag # m.info[b].tag

-----------------------------------------------------------------------------
(* 2. values *)

VNone == [k |-> "none"]
VBool(b) == [k |-> "bool", b |-> b]
VInt(tok) == [k |-> "int", tok |-> tok]
VFloat(tok) == [k |-> "float", tok |-> tok]
VStr(cps) == [k |-> "str", cps |-> cps]
VBytes(bs) == [k |-> "bytes", bs |-> bs]
VEnum(e, l) == [k |-> "enum", enum |-> e, lit |-> l]
VInst(c, fields) == [k |-> "inst", cls |-> c, fields |-> fields]      \* fields: Seq([n |-> prop src, v |-> value]) in AllProps order
VList(items) == [k |-> "list", items |-> items]
Reject == [k |-> "reject"]

RECURSIVE WellTyped(_, _, _)
WellTypedInst(m, v, ps) ==
    /\ Len(v.fields) = Len(ps)
    /\ \A i \in 1..Len(ps) :
        /\ v.fields[i].n = ps[i].src
        /\ IF v.fields[i].v.k = "none" THEN ps[i].opt ELSE WellTyped(m, v.fields[i].v, ps[i].type)
WellTyped(m, v, t) ==
    CASE t.t = "bool" -> v.k = "bool"
      [] t.t = "int" -> v.k = "int"
      [] t.t = "float" -> v.k = "float"
      [] t.t = "str" -> v.k = "str"
      [] t.t = "bytes" -> v.k = "bytes" /\ \A i \in 1..Len(v.bs) : v.bs[i] \in 0..255
      [] t.t = "enum" -> v.k = "enum" /\ v.enum = t.name /\ \E i \in 1..Len(EnumOf(m, t.name).lits) : EnumOf(m, t.name).lits[i].name.src = v.lit
      [] t.t = "list" -> v.k = "list" /\ \A i \in 1..Len(v.items) : WellTyped(m, v.items[i], t.item)
      [] t.t = "cls" -> v.k = "inst" /\ v.cls \in ConcreteOf(m, t.name) /\ WellTypedInst(m, v, AllProps(m, v.cls))

FieldValue(x, n) == x.fields[CHOOSE i \in 1..Len(x.fields) : x.fields[i].n = n].v

-----------------------------------------------------------------------------
(* 3. traversal, dispatch, accessors  [C29]                                                        *)
(* A node of an instance graph is named by its path from the root: a sequence of steps <<prop, i>>, *)
(* i = 0 for a property holding an instance, i >= 1 for the i-th item of a list.                   *)

ChildrenOfField(n, v) ==
    CASE v.k = "inst" -> << [step |-> <<n, 0>>, v |-> v] >>
      [] v.k = "list" -> SelectSeq([j \in 1..Len(v.items) |-> [step |-> <<n, j>>, v |-> v.items[j]]], LAMBDA e : e.v.k = "inst")
      [] OTHER -> <<>>
Children(x) == Flat(T([i \in 1..Len(x.fields) |-> ChildrenOfField(x.fields[i].n, x.fields[i].v)]))

\* directly nested instances, in property order and list order
DescendOncePaths1(ch) == T([i \in 1..Len(ch) |-> <<ch[i].step>>])
DescendOncePaths(x) == DescendOncePaths1(Children(x))

\* all transitively nested instances, pre-order
RECURSIVE DescendPaths(_)
Prefixed(p, paths) == T([i \in 1..Len(paths) |-> p \o paths[i]])
DescendPaths1(ch) == Flat(T([i \in 1..Len(ch) |-> << <<ch[i].step>> >> \o Prefixed(<<ch[i].step>>, DescendPaths(ch[i].v))]))
DescendPaths(x) == DescendPaths1(Children(x))

RECURSIVE NodeAt(_, _)
NodeAtStep(v, i, rest) == NodeAt(IF i = 0 THEN v ELSE v.items[i], rest)
NodeAt(x, path) == IF Len(path) = 0 THEN x ELSE NodeAtStep(FieldValue(x, path[1][1]), path[1][2], Tail(path))

AllNodePaths(x) == << <<>> >> \o DescendPaths(x)

\* accessors
OverOrEmpty1(v) == IF v.k = "none" THEN <<>> ELSE v.items
OverOrEmpty(x, n) == OverOrEmpty1(FieldValue(x, n))
OrDefault1(v, d) == IF v.k = "none" THEN VEnum(d.enum, d.lit) ELSE v
OrDefault(x, d) == OrDefault1(FieldValue(x, d.prop), d)

-----------------------------------------------------------------------------
(* 4. base64 (RFC 4648, standard alphabet)                                                         *)

B64Char(i) == IF i < 26 THEN 65 + i ELSE IF i < 52 THEN 97 + (i - 26) ELSE IF i < 62 THEN 48 + (i - 52) ELSE IF i = 62 THEN 43 ELSE 47
B64Val(c) == IF c \in 65..90 THEN c - 65 ELSE IF c \in 97..122 THEN c - 97 + 26 ELSE IF c \in 48..57 THEN c - 48 + 52
             ELSE IF c = 43 THEN 62 ELSE IF c = 47 THEN 63 ELSE 0 - 1
PAD == 61

RECURSIVE B64Enc(_)
B64Enc(bs) ==
    IF Len(bs) = 0 THEN <<>>
    ELSE IF Len(bs) = 1 THEN <<B64Char(bs[1] \div 4), B64Char((bs[1] % 4) * 16), PAD, PAD>>
    ELSE IF Len(bs) = 2 THEN <<B64Char(bs[1] \div 4), B64Char((bs[1] % 4) * 16 + bs[2] \div 16), B64Char((bs[2] % 16) * 4), PAD>>
    ELSE <<B64Char(bs[1] \div 4), B64Char((bs[1] % 4) * 16 + bs[2] \div 16), B64Char((bs[2] % 16) * 4 + bs[3] \div 64), B64Char(bs[3] % 64)>>
         \o B64Enc(SubSeq(bs, 4, Len(bs)))

RECURSIVE B64DecQuads(_)
Quad(a, b, c, d) == <<a * 4 + b \div 16, (b % 16) * 16 + c \div 4, (c % 4) * 64 + d>>
B64DecQuads(cs) ==    \* cs: multiple of 4 long, alphabet characters only
    IF Len(cs) = 0 THEN <<>>
    ELSE Quad(B64Val(cs[1]), B64Val(cs[2]), B64Val(cs[3]), B64Val(cs[4])) \o B64DecQuads(SubSeq(cs, 5, Len(cs)))

\* strict decoder: length a multiple of 4, alphabet only, padding only at the very end, unused bits zero
B64Bad == [ok |-> FALSE, bs |-> <<>>]
B64Last1(body, a, b, c) == IF c % 4 # 0 THEN B64Bad ELSE [ok |-> TRUE, bs |-> B64DecQuads(body) \o <<a * 4 + b \div 16, (b % 16) * 16 + c \div 4>>]
B64Last2(body, a, b) == IF b % 16 # 0 THEN B64Bad ELSE [ok |-> TRUE, bs |-> B64DecQuads(body) \o <<a * 4 + b \div 16>>]
B64Dec1(cs, n, npad) ==
    IF \E i \in 1..(n - npad) : B64Val(cs[i]) < 0 THEN B64Bad
    ELSE IF npad = 0 THEN [ok |-> TRUE, bs |-> B64DecQuads(cs)]
    ELSE IF npad = 1 THEN B64Last1(SubSeq(cs, 1, n - 4), B64Val(cs[n - 3]), B64Val(cs[n - 2]), B64Val(cs[n - 1]))
    ELSE B64Last2(SubSeq(cs, 1, n - 4), B64Val(cs[n - 3]), B64Val(cs[n - 2]))
B64DecStrict(cs) ==
    IF Len(cs) % 4 # 0 THEN B64Bad
    ELSE IF Len(cs) = 0 THEN [ok |-> TRUE, bs |-> <<>>]
    ELSE B64Dec1(cs, Len(cs), IF cs[Len(cs)] = PAD THEN (IF cs[Len(cs) - 1] = PAD THEN 2 ELSE 1) ELSE 0)

\* Lenient decoders exist that drop characters outside the alphabet (MIME), do not insist on padding, and ignore
\* non-zero unused bits.  A text is "tolerable" when some such decoder could take it (the number of alphabet
\* characters is not 1 modulo 4); the decoded value is then not prescribed.
B64Tolerable(cs) == Len(SelectSeq(cs, LAMBDA c : B64Val(c) >= 0)) % 4 # 1

BytesFrom1(d, cps, lenient) == IF d.ok THEN VBytes(d.bs) ELSE IF lenient /\ B64Tolerable(cps) THEN VBytes(<<>>) ELSE Reject
BytesFrom(cps, lenient) == BytesFrom1(B64DecStrict(cps), cps, lenient)

-----------------------------------------------------------------------------
(* 5. JSON wire format  [C10]                                                                      *)

JNull == [j |-> "null"]
JBool(b) == [j |-> "bool", b |-> b]
JNum(isint, tok) == [j |-> "num", isint |-> isint, tok |-> tok]
JStr(cps) == [j |-> "str", cps |-> cps]
JName(s) == [j |-> "name", s |-> s]            \* a JSON string whose text is the (ASCII) name s; only ever used for modelType
JArr(items) == [j |-> "arr", items |-> items]
JObj(members) == [j |-> "obj", members |-> members]     \* Seq([key |-> string, val |-> json]), keys distinct
JAbsent == [j |-> "absent"]
MODELTYPE == "modelType"

RECURSIVE ToJ(_, _)
ToJInst(m, v, ps) ==
    JObj(Flat(T([i \in 1..Len(ps) |-> IF v.fields[i].v.k = "none" THEN <<>> ELSE << [key |-> ps[i].key, val |-> ToJ(m, v.fields[i].v)] >>]))
         \o (IF Wmt(m, v.cls) THEN << [key |-> MODELTYPE, val |-> JName(m.info[v.cls].mt)] >> ELSE <<>>))
ToJ(m, v) ==
    CASE v.k = "bool" -> JBool(v.b)
      [] v.k = "int" -> JNum(TRUE, v.tok)
      [] v.k = "float" -> JNum(FALSE, v.tok)
      [] v.k = "str" -> JStr(v.cps)
      [] v.k = "bytes" -> JStr(B64Enc(v.bs))
      [] v.k = "enum" -> JStr(LitOf(m, v.enum, v.lit).val)
      [] v.k = "list" -> JArr(T([i \in 1..Len(v.items) |-> ToJ(m, v.items[i])]))
      [] v.k = "inst" -> ToJInst(m, v, AllProps(m, v.cls))

HasKey(doc, key) == \E i \in 1..Len(doc.members) : doc.members[i].key = key
Member(doc, key) == doc.members[CHOOSE i \in 1..Len(doc.members) : doc.members[i].key = key].val
MemberOrAbsent(doc, key) == IF HasKey(doc, key) THEN Member(doc, key) ELSE JAbsent

(* The reference de-serializer.  lenient = FALSE: accepts exactly the documents of the wire format *)
(* (what ToJ produces, in any member order).  lenient = TRUE: additionally tolerates what the      *)
(* property's sentence does not call malformed or mistyped: unknown extra members, null for an      *)
(* optional property, an integral JSON number for a float, a missing / redundant / wrong           *)
(* modelType where no dispatch depends on it, base64 text a lenient decoder would take.            *)
RECURSIVE FromJ(_, _, _, _)
FinishInst(target, fields) == IF \E i \in 1..Len(fields) : fields[i].v = Reject THEN Reject ELSE VInst(target, fields)
FinishList(items) == IF \E i \in 1..Len(items) : items[i] = Reject THEN Reject ELSE VList(items)
EnumFrom2(e, lits, hits) == IF hits = {} THEN Reject ELSE VEnum(e, lits[AnyOf(hits)].name.src)
EnumFrom1(e, lits, cps) == EnumFrom2(e, lits, {i \in 1..Len(lits) : lits[i].val = cps})
EnumFrom(m, e, cps) == EnumFrom1(e, EnumOf(m, e).lits, cps)

FromJMember(m, val, p, lenient) ==
    IF val.j = "absent" THEN (IF p.opt THEN VNone ELSE Reject)
    ELSE IF val.j = "null" THEN (IF p.opt /\ lenient THEN VNone ELSE Reject)
    ELSE FromJ(m, val, p.type, lenient)
FromJObj3(m, doc, target, lenient, ps) ==
    IF ~lenient /\ \E i \in 1..Len(doc.members) : doc.members[i].key # MODELTYPE /\ \A q \in 1..Len(ps) : ps[q].key # doc.members[i].key
    THEN Reject
    ELSE FinishInst(target, T([i \in 1..Len(ps) |-> [n |-> ps[i].src, v |-> FromJMember(m, MemberOrAbsent(doc, ps[i].key), ps[i], lenient)]]))
FromJObj2(m, doc, n, lenient, mt, named) ==
    IF NeedsDispatch(m, n) THEN (IF named = {} THEN Reject ELSE FromJObj3(m, doc, AnyOf(named), lenient, AllProps(m, AnyOf(named))))
    ELSE IF lenient \/ (IF Wmt(m, n) THEN named = {n} ELSE mt.j = "absent") THEN FromJObj3(m, doc, n, lenient, AllProps(m, n))
    ELSE Reject
FromJObj1(m, doc, n, lenient, mt) == FromJObj2(m, doc, n, lenient, mt, {c \in ConcreteOf(m, n) : mt = JName(m.info[c].mt)})
FromJ(m, doc, t, lenient) ==
    CASE t.t = "bool" -> IF doc.j = "bool" THEN VBool(doc.b) ELSE Reject
      [] t.t = "int" -> IF doc.j = "num" /\ doc.isint THEN VInt(doc.tok) ELSE Reject
      [] t.t = "float" -> IF doc.j = "num" /\ (~doc.isint \/ lenient) THEN VFloat(doc.tok) ELSE Reject
      [] t.t = "str" -> IF doc.j = "str" THEN VStr(doc.cps) ELSE Reject
      [] t.t = "bytes" -> IF doc.j = "str" THEN BytesFrom(doc.cps, lenient) ELSE Reject
      [] t.t = "enum" -> IF doc.j = "str" THEN EnumFrom(m, t.name, doc.cps) ELSE Reject
      [] t.t = "list" -> IF doc.j = "arr" THEN FinishList(T([i \in 1..Len(doc.items) |-> FromJ(m, doc.items[i], t.item, lenient)])) ELSE Reject
      [] t.t = "cls" -> IF doc.j = "obj" THEN FromJObj1(m, doc, t.name, lenient, MemberOrAbsent(doc, MODELTYPE)) ELSE Reject

(* the three-valued verdict *)
MustReject == [verdict |-> "MustReject", x |-> VNone]
MustAcceptWith(x) == [verdict |-> "MustAcceptWith", x |-> x]
Either == [verdict |-> "Either", x |-> VNone]

VerdictOf(strict, lenient) ==
    IF strict # Reject THEN MustAcceptWith(strict)
    ELSE IF lenient = Reject THEN MustReject ELSE Either
JsonVerdict(m, doc, t) == VerdictOf(FromJ(m, doc, t, FALSE), FromJ(m, doc, t, TRUE))

(* outcome of the SDK: [o |-> "accepted", v |-> value] | [o |-> "rejected", v |-> VNone] (the SDK's own *)
(* DeserializationException) | [o |-> "exception", v |-> VNone] (anything else)                       *)
Compatible(verdict, outcome) ==
    CASE verdict.verdict = "MustReject" -> outcome.o = "rejected"
      [] verdict.verdict = "MustAcceptWith" -> outcome.o = "accepted" /\ outcome.v = verdict.x
      [] verdict.verdict = "Either" -> outcome.o \in {"accepted", "rejected"}

-----------------------------------------------------------------------------
(* 6. XML wire format  [C10]                                                                       *)
(* node: [tag, ns \in {"ok","other","none"}, text, kids]; text: XNoText | XCps(cps) | XTok(class, tok) *)

XNoText == [x |-> "none"]
XCps(cps) == [x |-> "cps", cps |-> cps]
XTok(cls, tok) == [x |-> "tok", cls |-> cls, tok |-> tok]      \* cls \in {"bool","int","float"}: number / boolean texts are opaque tokens
XNode(tag, text, kids) == [tag |-> tag, ns |-> "ok", text |-> text, kids |-> kids]
ITEM == "v"
CpsText(cps) == IF cps = <<>> THEN XNoText ELSE XCps(cps)

XText(m, v) ==
    CASE v.k = "bool" -> XTok("bool", IF v.b THEN "true" ELSE "false")
      [] v.k = "int" -> XTok("int", v.tok)
      [] v.k = "float" -> XTok("float", v.tok)
      [] v.k = "str" -> CpsText(v.cps)
      [] v.k = "bytes" -> CpsText(B64Enc(v.bs))
      [] v.k = "enum" -> CpsText(LitOf(m, v.enum, v.lit).val)

RECURSIVE XSeq(_, _)
XAsInst(m, v) == XNode(m.info[v.cls].tag, XNoText, XSeq(m, v))
XProp(m, p, v) ==
    CASE v.k = "inst" -> IF NeedsDispatch(m, p.type.name) THEN XNode(p.key, XNoText, <<XAsInst(m, v)>>) ELSE XNode(p.key, XNoText, XSeq(m, v))
      [] v.k = "list" -> XNode(p.key, XNoText, T([j \in 1..Len(v.items) |-> IF v.items[j].k = "inst" THEN XAsInst(m, v.items[j]) ELSE XNode(ITEM, XText(m, v.items[j]), <<>>)]))
      [] OTHER -> XNode(p.key, XText(m, v), <<>>)
XSeq1(m, x, ps) == Flat(T([i \in 1..Len(ps) |-> IF x.fields[i].v.k = "none" THEN <<>> ELSE <<XProp(m, ps[i], x.fields[i].v)>>]))
\* the sequence of property elements of an instance
XSeq(m, x) == XSeq1(m, x, AllProps(m, x.cls))
ToX(m, x) == XAsInst(m, x)

IsWs(c) == c \in {32, 9, 10, 13}
BlankText(text) == text.x = "none" \/ (text.x = "cps" /\ \A i \in 1..Len(text.cps) : IsWs(text.cps[i]))

\* text of a primitive / enumeration element
FromXText(m, node, t, lenient) ==
    IF node.kids # <<>> \/ node.ns # "ok" THEN Reject
    ELSE
    CASE t.t = "bool" -> IF node.text.x = "tok" /\ node.text.tok \in {"true", "false", "1", "0"} THEN VBool(node.text.tok \in {"true", "1"}) ELSE Reject
      [] t.t = "int" -> IF node.text.x = "tok" /\ node.text.cls = "int" THEN VInt(node.text.tok) ELSE Reject
      [] t.t = "float" -> IF node.text.x = "tok" /\ node.text.cls \in {"int", "float"} THEN VFloat(node.text.tok) ELSE Reject
      [] t.t = "str" -> IF node.text.x = "none" THEN VStr(<<>>) ELSE IF node.text.x = "cps" THEN VStr(node.text.cps) ELSE Reject
      [] t.t = "bytes" -> IF node.text.x = "none" THEN VBytes(<<>>) ELSE IF node.text.x = "cps" THEN BytesFrom(node.text.cps, lenient) ELSE Reject
      [] t.t = "enum" -> IF node.text.x = "none" THEN EnumFrom(m, t.name, <<>>) ELSE IF node.text.x = "cps" THEN EnumFrom(m, t.name, node.text.cps) ELSE Reject

RECURSIVE FromXSeq(_, _, _, _)
NamesConcrete(m, tag, n) == \E d \in ConcreteOf(m, n) : m.info[d].tag = tag
ConcreteNamed(m, tag, n) == CHOOSE d \in ConcreteOf(m, n) : m.info[d].tag = tag
\* e is an element whose tag names the concrete class
FromXAsInst(m, e, n, lenient) ==
    IF e.ns # "ok" \/ ~NamesConcrete(m, e.tag, n) THEN Reject ELSE FromXSeq(m, e, ConcreteNamed(m, e.tag, n), lenient)
FromXValue(m, e, t, lenient) ==
    CASE t.t = "cls" ->
            IF e.ns # "ok" THEN Reject
            ELSE IF NeedsDispatch(m, t.name) THEN (IF Len(e.kids) = 1 /\ BlankText(e.text) THEN FromXAsInst(m, e.kids[1], t.name, lenient) ELSE Reject)
            ELSE FromXSeq(m, e, t.name, lenient)
      [] t.t = "list" ->
            IF e.ns # "ok" \/ ~BlankText(e.text) THEN Reject
            ELSE FinishList(T([j \in 1..Len(e.kids) |->
                    IF t.item.t = "cls" THEN FromXAsInst(m, e.kids[j], t.item.name, lenient)
                    \* items of primitive type: <v> in the document's namespace; a lenient reader does not look at the tag
                    ELSE IF lenient THEN FromXText(m, [e.kids[j] EXCEPT !.ns = "ok"], t.item, lenient)
                    ELSE IF e.kids[j].tag = ITEM THEN FromXText(m, e.kids[j], t.item, lenient) ELSE Reject]))
      [] OTHER -> FromXText(m, e, t, lenient)
\* the last element with the tag of property p (a lenient reader lets the last one win), or none
FromXField1(m, mine, kids, p, lenient) ==
    IF mine = <<>> THEN (IF p.opt THEN VNone ELSE Reject) ELSE FromXValue(m, kids[mine[Len(mine)]], p.type, lenient)
FromXField(m, kids, p, lenient) == FromXField1(m, SelectSeq([k \in 1..Len(kids) |-> k], LAMBDA k : kids[k].tag = p.key), kids, p, lenient)
\* position of the property a child element stands for (0: none)
PropIndex1(hits) == IF hits = {} THEN 0 ELSE AnyOf(hits)
PropIndex(ps, tag) == PropIndex1({i \in 1..Len(ps) : ps[i].key = tag})
FromXSeq2(m, node, c, lenient, ps, idx) ==      \* idx[k]: PropIndex of the k-th child
    IF ~BlankText(node.text) THEN Reject
    ELSE IF \E k \in 1..Len(node.kids) : node.kids[k].ns # "ok" THEN Reject
    \* strict: known elements only, in schema order (xs:sequence), hence no duplicates
    ELSE IF ~lenient /\ (\E k \in 1..Len(idx) : idx[k] = 0 \/ (k > 1 /\ idx[k - 1] >= idx[k])) THEN Reject
    ELSE FinishInst(c, T([i \in 1..Len(ps) |-> [n |-> ps[i].src, v |-> FromXField(m, node.kids, ps[i], lenient)]]))
FromXSeq1(m, node, c, lenient, ps) == FromXSeq2(m, node, c, lenient, ps, T([k \in 1..Len(node.kids) |-> PropIndex(ps, node.kids[k].tag)]))
\* node holds the property elements of an instance of the concrete class c
FromXSeq(m, node, c, lenient) == FromXSeq1(m, node, c, lenient, AllProps(m, c))

\* a document whose root element is an instance of (a concrete descendant of) class n
FromX(m, node, n, lenient) == FromXAsInst(m, node, n, lenient)
XmlVerdict(m, node, n) == VerdictOf(FromX(m, node, n, FALSE), FromX(m, node, n, TRUE))

\* which text XML 1.0 can carry at all
XmlChar(c) == c \in {9, 10, 13} \/ c \in 32..55295 \/ c \in 57344..65533 \/ c \in 65536..1114111
XmlText(cps) == \A i \in 1..Len(cps) : XmlChar(cps[i])
RECURSIVE XmlRepresentable(_, _)
XmlRepresentable(m, v) ==
    CASE v.k = "str" -> XmlText(v.cps)
      [] v.k = "enum" -> XmlText(LitOf(m, v.enum, v.lit).val)
      [] v.k = "list" -> \A i \in 1..Len(v.items) : XmlRepresentable(m, v.items[i])
      [] v.k = "inst" -> \A i \in 1..Len(v.fields) : XmlRepresentable(m, v.fields[i].v)
      [] OTHER -> TRUE

-----------------------------------------------------------------------------
(* 8. constants and enumerations  [C30]                                                            *)
(* sets: Seq([own: set of literal ids, supersetOf: set of indices of other sets])                   *)

RECURSIVE Reach(_, _, _)
Reach1(sets, seen, next) == IF next = {} THEN seen ELSE UNION {Reach(sets, j, seen \cup next) : j \in next}
Reach(sets, i, seen) == Reach1(sets, seen, {j \in sets[i].supersetOf : j \notin seen})    \* the sets reachable from i through superset_of

\* the literals a constant set has to contain: its own plus those of every set it is (transitively) a superset of
ConstantSetClosure(sets, i) == UNION {sets[j].own : j \in Reach(sets, i, {i})}
\* the front end insists that the declaration lists them all
Conforming(sets) == \A i \in 1..Len(sets) : ConstantSetClosure(sets, i) = sets[i].own

\* enumeration <-> text
EnumToText(e, l) == LitIn(e.lits, l).val
EnumFromText1(e, hits) == IF hits = {} THEN "" ELSE e.lits[AnyOf(hits)].name.src
EnumFromText(e, cps) == EnumFromText1(e, {i \in 1..Len(e.lits) : e.lits[i].val = cps})
=============================================================================
