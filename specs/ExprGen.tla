------------------------------- MODULE ExprGen -------------------------------
(* G phase of C07: the invariant trees of the grammar in ExprSchema (Wide = FALSE: quick tier,  *)
(* TRUE: thorough tier), each with the properties it mentions, the domain used for its         *)
(* instances, the number of instances and its stratum under the reference typing; plus the     *)
(* value domains themselves. Written as JSON.                                                   *)
EXTENDS ExprSchema, Json, IOUtils, SequencesExt
CONSTANT Wide

Cases == {[e |-> e, ms |-> MSeq(e), dom |-> DomName(e), ninst |-> ProdSize(MSeq(e), 1, DomOf(e)),
           wt |-> SubjectWellTyped(e), depth |-> Depth(e)] : e \in Trees(Wide)}

Out == [cases |-> SetToSeq(Cases), domains |-> [full |-> DomFull, small |-> DomSmall], default |-> Default, props |-> PropOrder,
        schema |-> Schema, classdefs |-> ClassDefs, globals |-> G0]

ASSUME JsonSerialize(IOEnv.VERIF_OUT, Out)
ASSUME PrintT(<<"@@PRINT@@ cases", Cardinality(Cases), Cardinality({c \in Cases : c.wt})>>)
VARIABLE dummy
Init == dummy = 0
Next == UNCHANGED dummy
=============================================================================
