INIT Init
NEXT Next
CONSTANTS
  MaxParts = 5
  MaxWidth = 9
