\* the pinned revm.cpp thread list (Pop clears the flag): correct and terminating without nested empty loops ...
SPECIFICATION Spec
CONSTANTS
  Trees <- TreesWithoutNestedLoops
  Alphabet <- ABC
  MaxLen = 3
  PopClearsMark = TRUE
INVARIANT ThreadsInProgram
INVARIANT VerdictIsFullMatch
PROPERTY Termination
