INIT Init
NEXT Next
ALIAS Explain
INVARIANT S_WellFormed
INVARIANT S_ValueOk
INVARIANT S_ReAgrees
INVARIANT S_Shape
INVARIANT S_Verdicts
INVARIANT Inv_Generated
INVARIANT Inv_SchemaLoads10
INVARIANT Inv_SchemaLoads11
INVARIANT Inv_PatternGrammar
INVARIANT Inv_ValidAdmitted
INVARIANT Inv_PatternAccepts
