INIT Init
NEXT Next
CONSTANTS
  MaxSets = 4
  NPerK = 400
