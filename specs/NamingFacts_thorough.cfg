INIT Init
NEXT Next
CONSTANTS
  MaxParts = 2
