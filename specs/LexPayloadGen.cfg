INIT Init
NEXT Next
CONSTANTS
  MaxFragments = 2
  MaxPatternFragments = 1
