INIT Init
NEXT Next
CONSTANT MaxFragments = 2
