------------------------------ MODULE XsdRegex ------------------------------
(* C13 / C14 - the pattern dimension.                                                           *)
(*                                                                                              *)
(* A small, self-contained model of the regular expressions a meta-model author can write in    *)
(* a pattern verification function (the fragment parse/retree accepts):                         *)
(*   - regex TREES (records), each literal carrying the way it is WRITTEN in the pattern text   *)
(*     ("raw" a, "esc" \*, "x" \x2a, "X" \x2A, "u" \u00e9, "U" \U0001F600);                     *)
(*   - the declarative language of a tree: Ends / FullMatch (set-of-end-positions semantics);   *)
(*   - PatternText(tree): the pattern text as code points ( ^ ... $ );                          *)
(*   - Boundary(trees): the alphabet over which candidate strings are enumerated;               *)
(*   - Features(tree): structural fingerprints of what the XSD generator has to re-write;       *)
(*   - the lexical grammar of XSD patterns (W3C XML Schema Part 2, appendix F): which escapes   *)
(*     may appear in the value of xs:pattern (XsdPatternWellFormed), as a character-level       *)
(*     scanner.                                                                                 *)
(* Strings are sequences of code points.  No variables here: XsdConstraints / XsdGen / XsdTrace *)
(* / XsdDesign extend this module.                                                              *)
EXTENDS Naturals, Integers, Sequences, FiniteSets, TLC

Inf == 0 - 1    \* "no upper bound" of a quantifier

---------------------------------------------------------------------------
(* Trees. Every node has the same fields so that sets/sequences of nodes stay homogeneous.     *)
Node(k, c, e, neg, rs, xs, lo, hi) ==
    [k |-> k, c |-> c, e |-> e, neg |-> neg, rs |-> rs, xs |-> xs, lo |-> lo, hi |-> hi]
Lit(c, e)      == Node("lit", c, e, FALSE, <<>>, <<>>, 0, 0)
Dot            == Node("dot", 0, "raw", FALSE, <<>>, <<>>, 0, 0)
\* an item of a character set: a single character (rng = FALSE) or a range lo..hi
One(c, e)          == [lo |-> c, le |-> e, hi |-> c, he |-> e, rng |-> FALSE]
Rng(lo, le, hi, he) == [lo |-> lo, le |-> le, hi |-> hi, he |-> he, rng |-> TRUE]
CSet(neg, rs)  == Node("set", 0, "raw", neg, rs, <<>>, 0, 0)
Cat(xs)        == Node("cat", 0, "raw", FALSE, <<>>, xs, 0, 0)
Alt(xs)        == Node("alt", 0, "raw", FALSE, <<>>, xs, 0, 0)
Rep(x, lo, hi) == Node("rep", 0, "raw", FALSE, <<>>, <<x>>, lo, hi)

---------------------------------------------------------------------------
(* Language: Ends(n, s, i) = all j such that n matches s[i+1 .. j]  (i, j = number of code     *)
(* points consumed).                                                                            *)
InItem(r, ch) == r.lo <= ch /\ ch <= r.hi
InSet(n, ch)  == LET hit == \E q \in 1..Len(n.rs) : InItem(n.rs[q], ch)
                 IN  IF n.neg THEN ~hit ELSE hit

RECURSIVE Ends(_, _, _)
RECURSIVE CatEnds(_, _, _, _)
RECURSIVE RepEnds(_, _, _, _, _, _)

\* positions after matching xs[q..] starting from every position in P
CatEnds(xs, q, s, P) ==
    IF q > Len(xs) \/ P = {} THEN P
    ELSE CatEnds(xs, q + 1, s, UNION {Ends(xs[q], s, p) : p \in P})

\* P = positions reachable after exactly k iterations; acc = positions reachable after lo..k
\* iterations (k >= lo).  Unbounded: iterate until nothing new (positions are bounded by Len(s)).
RepEnds(x, s, P, k, lo, hi) ==
    LET here == IF k >= lo THEN P ELSE {}
    IN  IF P = {} \/ (hi # Inf /\ k = hi) \/ (hi = Inf /\ k > lo + Len(s)) THEN here
        ELSE here \cup RepEnds(x, s, UNION {Ends(x, s, p) : p \in P}, k + 1, lo, hi)

Ends(n, s, i) ==
    CASE n.k = "lit" -> IF i < Len(s) /\ s[i + 1] = n.c THEN {i + 1} ELSE {}
      [] n.k = "dot" -> IF i < Len(s) /\ s[i + 1] # 10 THEN {i + 1} ELSE {}
      [] n.k = "set" -> IF i < Len(s) /\ InSet(n, s[i + 1]) THEN {i + 1} ELSE {}
      [] n.k = "cat" -> CatEnds(n.xs, 1, s, {i})
      [] n.k = "alt" -> UNION {Ends(n.xs[q], s, i) : q \in 1..Len(n.xs)}
      [] n.k = "rep" -> RepEnds(n.xs[1], s, {i}, 0, n.lo, n.hi)

\* the meta-model pattern ^ tree $ accepts s (s has no line break)
FullMatch(tree, s) == Len(s) \in Ends(tree, s, 0)

---------------------------------------------------------------------------
(* Concrete syntax: the text the meta-model author writes.                                      *)
HexDigit(d, upper) == IF d < 10 THEN 48 + d ELSE (IF upper THEN 55 ELSE 87) + d
RECURSIVE Hex(_, _, _)
Hex(n, w, upper) == IF w = 0 THEN <<>> ELSE Append(Hex(n \div 16, w - 1, upper), HexDigit(n % 16, upper))

Enc(c, e) ==
    CASE e = "raw" -> <<c>>
      [] e = "esc" -> <<92, c>>
      [] e = "x"   -> <<92, 120>> \o Hex(c, 2, FALSE)
      [] e = "X"   -> <<92, 120>> \o Hex(c, 2, TRUE)
      [] e = "u"   -> <<92, 117>> \o Hex(c, 4, FALSE)
      [] e = "U"   -> <<92, 85>> \o Hex(c, 8, TRUE)

Digits(n) == IF n < 10 THEN <<48 + n>> ELSE <<48 + (n \div 10), 48 + (n % 10)>>
Quant(lo, hi) ==
    CASE lo = 0 /\ hi = 1   -> <<63>>
      [] lo = 0 /\ hi = Inf -> <<42>>
      [] lo = 1 /\ hi = Inf -> <<43>>
      [] hi = Inf           -> <<123>> \o Digits(lo) \o <<44, 125>>
      [] lo = hi            -> <<123>> \o Digits(lo) \o <<125>>
      [] OTHER              -> <<123>> \o Digits(lo) \o <<44>> \o Digits(hi) \o <<125>>

RECURSIVE Render(_)
RECURSIVE RenderSeq(_, _, _)
RECURSIVE RenderItems(_, _)
RenderItems(rs, q) ==
    IF q > Len(rs) THEN <<>>
    ELSE (IF rs[q].rng THEN Enc(rs[q].lo, rs[q].le) \o <<45>> \o Enc(rs[q].hi, rs[q].he)
                       ELSE Enc(rs[q].lo, rs[q].le)) \o RenderItems(rs, q + 1)
\* concatenate the renderings of xs[q..], separated by sep
RenderSeq(xs, q, sep) ==
    IF q > Len(xs) THEN <<>>
    ELSE Render(xs[q]) \o (IF q < Len(xs) THEN sep ELSE <<>>) \o RenderSeq(xs, q + 1, sep)
Paren(t) == <<40>> \o t \o <<41>>
Render(n) ==
    CASE n.k = "lit" -> Enc(n.c, n.e)
      [] n.k = "dot" -> <<46>>
      [] n.k = "set" -> <<91>> \o (IF n.neg THEN <<94>> ELSE <<>>) \o RenderItems(n.rs, 1) \o <<93>>
      [] n.k = "cat" -> RenderSeq(n.xs, 1, <<>>)
      [] n.k = "alt" -> Paren(RenderSeq(n.xs, 1, <<124>>))
      [] n.k = "rep" -> (IF n.xs[1].k \in {"lit", "dot", "set", "alt"} THEN Render(n.xs[1])
                         ELSE Paren(Render(n.xs[1]))) \o Quant(n.lo, n.hi)

PatternText(tree) == <<94>> \o Render(tree) \o <<36>>

---------------------------------------------------------------------------
(* Characters.                                                                                  *)
\* XML 1.0 Char without the line breaks and the tab (the property's domain restriction)
XmlChar(c) == (c >= 32 /\ c <= 55295) \/ (c >= 57344 /\ c <= 65533) \/ (c >= 65536 /\ c <= 1114111)

\* $ ( ) * + . ? [ \ ] ^ { | }  : characters that are syntax outside a character set
MetaOutside == {36, 40, 41, 42, 43, 46, 63, 91, 92, 93, 94, 123, 124, 125}
\* - [ \ ] ^ : characters that are syntax inside a character set
MetaInside == {45, 91, 92, 93, 94}

RECURSIVE Lits(_)
RECURSIVE SetItems(_)
\* all literal occurrences outside sets, as <<c, e>>
Lits(n) ==
    CASE n.k = "lit" -> {<<n.c, n.e>>}
      [] n.k \in {"cat", "alt", "rep"} -> UNION {Lits(n.xs[q]) : q \in 1..Len(n.xs)}
      [] OTHER -> {}
\* all characters written inside sets, as <<c, e>>
SetItems(n) ==
    CASE n.k = "set" -> UNION {{<<n.rs[q].lo, n.rs[q].le>>, <<n.rs[q].hi, n.rs[q].he>>} : q \in 1..Len(n.rs)}
      [] n.k \in {"cat", "alt", "rep"} -> UNION {SetItems(n.xs[q]) : q \in 1..Len(n.xs)}
      [] OTHER -> {}
RECURSIVE HasUnboundedDot(_)
HasUnboundedDot(n) ==
    CASE n.k = "rep" -> (n.hi = Inf /\ n.xs[1].k = "dot") \/ HasUnboundedDot(n.xs[1])
      [] n.k \in {"cat", "alt"} -> \E q \in 1..Len(n.xs) : HasUnboundedDot(n.xs[q])
      [] OTHER -> FALSE
RECURSIVE HasNegSet(_)
HasNegSet(n) ==
    CASE n.k = "set" -> n.neg
      [] n.k \in {"cat", "alt", "rep"} -> \E q \in 1..Len(n.xs) : HasNegSet(n.xs[q])
      [] OTHER -> FALSE

\* the alphabet over which strings are enumerated for a set of trees: every character that is
\* mentioned, the neighbours of range ends, and one neutral character (q)
RECURSIVE RangeEdges(_)
RangeEdges(n) ==
    CASE n.k = "set" -> UNION {IF n.rs[q].rng THEN {n.rs[q].lo - 1, n.rs[q].lo + 1, n.rs[q].hi - 1, n.rs[q].hi + 1} ELSE {} : q \in 1..Len(n.rs)}
      [] n.k \in {"cat", "alt", "rep"} -> UNION {RangeEdges(n.xs[q]) : q \in 1..Len(n.xs)}
      [] OTHER -> {}
Mentioned(n) == {p[1] : p \in Lits(n) \cup SetItems(n)}
Boundary(trees) ==
    {c \in (UNION {Mentioned(t) \cup RangeEdges(t) : t \in trees}) \cup {113} : XmlChar(c)}

(* Structural fingerprints of what the XSD generator must re-write (used for the keys of        *)
(* findings, never for the verdict).                                                            *)
TreeFeatures(n) ==
    (IF \E p \in Lits(n) : p[2] \in {"x", "X"} /\ p[1] \in MetaOutside THEN {"enc_meta"} ELSE {})
    \cup (IF \E p \in SetItems(n) : p[2] \in {"x", "X"} /\ p[1] \in MetaInside THEN {"enc_set_meta"} ELSE {})
    \cup (IF \E p \in Lits(n) \cup SetItems(n) : p[2] \in {"u", "U"} THEN {"uni_esc"} ELSE {})
    \cup (IF \E p \in Lits(n) : p[2] = "esc" /\ p[1] = 36 THEN {"esc_dollar"} ELSE {})
    \* a literal backslash written \\ (in front of a letter it looks like a class shorthand to a careless re-writer)
    \cup (IF \E p \in Lits(n) : p[2] = "esc" /\ p[1] = 92 THEN {"lit_bs"} ELSE {})
    \* the control character DEL (U+007F) is mentioned (re-writers tend to print it as an escape)
    \cup (IF \E p \in Lits(n) \cup SetItems(n) : p[1] = 127 THEN {"del_char"} ELSE {})

---------------------------------------------------------------------------
(* The lexical grammar of an XSD pattern (XML Schema Part 2, F: SingleCharEsc, MultiCharEsc,    *)
(* catEsc/complEsc).  After a backslash only these may follow:                                  *)
\*   n r t \ | . ? * + ( ) { } - [ ] ^
XsdSingleEsc == {110, 114, 116, 92, 124, 46, 63, 42, 43, 40, 41, 123, 125, 45, 91, 93, 94}
\*   s S i I c C d D w W   and   p{..} P{..}
XsdMultiEsc == {115, 83, 105, 73, 99, 67, 100, 68, 119, 87}
RECURSIVE XsdEscapesFrom(_, _)
XsdEscapesFrom(t, i) ==
    IF i > Len(t) THEN TRUE
    ELSE IF t[i] # 92 THEN XsdEscapesFrom(t, i + 1)
    ELSE IF i = Len(t) THEN FALSE
    ELSE IF t[i + 1] \in XsdSingleEsc \cup XsdMultiEsc THEN XsdEscapesFrom(t, i + 2)
    ELSE IF t[i + 1] \in {112, 80} THEN i + 2 <= Len(t) /\ t[i + 2] = 123 /\ XsdEscapesFrom(t, i + 3)
    ELSE FALSE
\* every backslash in the text starts an escape that the XSD pattern grammar knows
XsdPatternWellFormed(t) == XsdEscapesFrom(t, 1)
\* the first offending escape, for messages: <<position, character>> or <<0, 0>>
RECURSIVE XsdBadEscape(_, _)
XsdBadEscape(t, i) ==
    IF i > Len(t) THEN <<0, 0>>
    ELSE IF t[i] # 92 THEN XsdBadEscape(t, i + 1)
    ELSE IF i = Len(t) THEN <<i, 0>>
    ELSE IF t[i + 1] \in XsdSingleEsc \cup XsdMultiEsc \cup {112, 80} THEN XsdBadEscape(t, i + 2)
    ELSE <<i, t[i + 1]>>
=============================================================================
