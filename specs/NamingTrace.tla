---- MODULE NamingTrace ----
(* V phase of C21: one observation per (pair of identifiers in one scope, target).                               *)
(*   names_a / names_b : the names the target's own naming functions give to the two entities in the shared      *)
(*                       scope (a class has a class name and an interface name, a property its accessor ...);    *)
(*                       empty when the target does not generate a name for that kind of entity                   *)
(*   outcome           : "ok" | "reported" (non-zero status and something on stderr) | "exception" |              *)
(*                       "silent_nonzero" | "not_run" (the front end did not accept the model)                    *)
(*   declared          : the names declared in that scope of the generated output (with multiplicity), where a    *)
(*                       parser exists (has_declared)                                                             *)
(*   dup_paths         : output files that were opened for writing more than once in the run                      *)
(*   names_found       : (outcome ok) every one of the names occurs as a word in the files the run wrote -- a name  *)
(*                       the generator never emits (e.g. of a method whose code comes from a snippet) collides     *)
(*                       with nothing in the generated code                                                        *)
EXTENDS Naturals, Sequences, FiniteSets, Json, IOUtils, TLC
Obs == JsonDeserialize(IOEnv.VERIF_OBS)
VARIABLE i
Init == i \in 1..Len(Obs)
Next == UNCHANGED i

Ran(s) == {s[k] : k \in DOMAIN s}
Accepted(o) == o.front = "accepted"
\* the two entities receive the same generated name in the scope they share
Collides(o) == Ran(o.names_a) \cap Ran(o.names_b) # {}
NoDuplicates(s) == \A j, k \in DOMAIN s : j # k => s[j] # s[k]

\* "If name conversion would make them equal, that target reports a collision error instead of generating code."
Inv_CollisionReported ==
    LET o == Obs[i] IN
    Accepted(o) /\ o.same_scope /\ Collides(o) /\ (o.outcome = "ok" => o.names_found) => o.outcome = "reported"
\* "two different entities that share a scope never receive the same generated name": seen in the output itself
Inv_DeclaredDistinct == LET o == Obs[i] IN Accepted(o) /\ o.outcome = "ok" /\ o.has_declared => NoDuplicates(o.declared)
\* ... including the names the generator *derives* from the entities (a generated Python module binds no top-level
\* name twice: two enumerations Ab / AB have different class names but one look-up table _AB_FROM_STR)
Inv_NoDuplicateModuleNames == LET o == Obs[i] IN Accepted(o) /\ o.outcome = "ok" => Len(o.module_dups) = 0
\* files are names in the scope of the output directory
Inv_NoFileWrittenTwice == LET o == Obs[i] IN Accepted(o) /\ o.outcome = "ok" => Len(o.dup_paths) = 0

\* self-check of the binding (a violation is a machinery failure, not a finding): when generation succeeded and the two
\* names differ, the parser must find both of them among the declarations -- otherwise the naming table or the
\* extraction of declarations does not describe what the generator does
Chk_BothDeclared ==
    LET o == Obs[i] IN
    Accepted(o) /\ o.outcome = "ok" /\ o.has_declared /\ ~Collides(o) => (Ran(o.names_a) \cup Ran(o.names_b)) \subseteq Ran(o.declared)

NColliding == Cardinality({n \in 1..Len(Obs) : Accepted(Obs[n]) /\ Obs[n].same_scope /\ Collides(Obs[n]) /\ (Obs[n].outcome = "ok" => Obs[n].names_found)})
NDeclared == Cardinality({n \in 1..Len(Obs) : Accepted(Obs[n]) /\ Obs[n].outcome = "ok" /\ Obs[n].has_declared})
ASSUME PrintT(<<"@@PRINT@@ obs", Len(Obs), NColliding, NDeclared>>)
====
