INIT GInit
NEXT GNext
CONSTANTS
  Which = "thorough"
