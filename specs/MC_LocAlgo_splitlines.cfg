SPECIFICATION Spec
CONSTANTS
  MaxLen = 5
  Design = "splitlines"
  Alphabet = {"x", "n", "f"}
INVARIANT Refines
