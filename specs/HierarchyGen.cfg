INIT Init
NEXT Next
CONSTANTS
  N = 4
  Full = FALSE
  Fifth = FALSE
