INIT Init
NEXT Next
CONSTANTS
  N = 4
