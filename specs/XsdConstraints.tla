--------------------------- MODULE XsdConstraints ---------------------------
(* C13 / C14 - what an XML document of a generated SDK must satisfy, declaratively.             *)
(*                                                                                              *)
(* A SCENARIO is one property "x" in a chain of L <= 3 classes  K1 <- K2 <- K3  (K2 inherits    *)
(* from K1, ...).  The property is declared in class number pa ("the property's own class").    *)
(* Its kind says what it holds:                                                                 *)
(*     str | bytes | int            a primitive                                                 *)
(*     cprim_str | cprim_bytes      a constrained primitive Cp (optionally Cp <- Cp0)           *)
(*     list_str | list_cls | list_acls | list_cprim                                             *)
(*                                  a list of str / of a concrete class / of an abstract class  *)
(*                                  with one concrete descendant / of constrained primitives    *)
(* Constraints are attached at a SOURCE:                                                        *)
(*     own        an invariant of class pa              ( len(self.x) op c , matches_p(self.x) )*)
(*     desc       an invariant of class pa + 1, i.e. a descendant tightening an inherited x     *)
(*     cprim      an invariant of the constrained primitive Cp  ( len(self) op c, matches_p(self))*)
(*     cprim_anc  an invariant of Cp0, the parent of Cp                                         *)
(*     cprim_anc2 an invariant of Cp00, the parent of Cp0 (chain Cp00 <- Cp0 <- Cp); the three   *)
(*                primitives may be DECLARED in any order (shape field cpo: 0 parents first,    *)
(*                1 Cp between its ancestors, 2 children first) - the meta-model is only parsed  *)
(* Whenever a constrained primitive is used, another class (Twin, declared before the chain)   *)
(* has a property of the same primitive type without class-level constraints.                   *)
(* and at a TARGET: "val" (the value of x itself: its length / its text / its number of items)  *)
(* or "item" (every item of the list x; only constrained primitives constrain items).           *)
(*                                                                                              *)
(* A VALUE says which class is instantiated (inst, pa <= inst <= L), whether x is None, the     *)
(* number of items (lists), and the string / byte length.                                       *)
(*                                                                                              *)
(* The module defines                                                                           *)
(*   Holds / Broken / Valid    the conjunction of the invariants (what SDK `verify` enforces),  *)
(*   MustReject                the sentence of C14: a broken recognised constraint of the       *)
(*                             property's own class or of a constrained primitive it uses,      *)
(*   DocShape / Mutations      the element sequence the SDK writes and its single mutations,    *)
(*   ScenarioFeatures          structural fingerprints (keys of findings).                      *)
EXTENDS XsdRegex

Sources  == {"own", "desc", "cprim", "cprim_anc", "cprim_anc2"}
\* C14: "... inferred for the property's own class, or for a constrained primitive it uses";
\* "Tightenings that descendants apply to inherited properties are excluded by design."
Enforced == {"own", "cprim", "cprim_anc", "cprim_anc2"}

Kinds       == {"str", "bytes", "int", "cprim_str", "cprim_bytes", "list_str", "list_cls", "list_acls", "list_ccls", "list_cprim",
                "stub", "list_stub", "cstub"}
\* stub / list_stub: x is (a list of) an ABSTRACT class WITHOUT concrete descendants; cstub: x is a concrete class whose only
\* descendant is such an abstract stub (classes with an interface but nothing to choose from).  No instance of a stub can be
\* written (and the SDK generator is not asked): only the scenario-level clauses (Generated, SchemaLoads) are judged.
\* list_ccls: a list of a CONCRETE class that has a concrete descendant; the items alternate between the two classes
ListKinds   == {"list_str", "list_cls", "list_acls", "list_ccls", "list_cprim"}
StubKinds   == {"stub", "list_stub", "cstub"}
CprimKinds  == {"cprim_str", "cprim_bytes", "list_cprim"}
StringKinds == {"str", "cprim_str", "list_cprim"}     \* kinds with a string somewhere (pattern-able)
Ops         == {"<", "<=", "==", ">", ">=", "!="}

Atom(src, tgt, op, c, side) == [src |-> src, tgt |-> tgt, op |-> op, c |-> c, side |-> side]
Pat(src, tgt, tree)          == [src |-> src, tgt |-> tgt, tree |-> tree]
Scenario(fam, kind, L, pa, opt, atoms, pats) ==
    [fam |-> fam, kind |-> kind, L |-> L, pa |-> pa, opt |-> opt, atoms |-> atoms, pats |-> pats]
Value(inst, none, cnt, len, usestr, str) ==
    [inst |-> inst, none |-> none, cnt |-> cnt, len |-> len, usestr |-> usestr, str |-> str]

---------------------------------------------------------------------------
(* Semantics of the invariants.                                                                 *)
Cmp(op, a, b) ==
    CASE op = "<" -> a < b [] op = "<=" -> a <= b [] op = "==" -> a = b
      [] op = ">" -> a > b [] op = ">=" -> a >= b [] op = "!=" -> a # b
\* side "L":  len(..) op c      side "R":  c op len(..)
Holds(a, n) == IF a.side = "L" THEN Cmp(a.op, n, a.c) ELSE Cmp(a.op, a.c, n)
\* forms from which a schema constraint is inferred at all (`!=` is understood by nobody)
Recognised(a) == a.op # "!="

StrLen(v) == IF v.usestr THEN Len(v.str) ELSE v.len
StrOf(v)  == IF v.usestr THEN v.str ELSE [q \in 1..v.len |-> 113]
\* the quantity a "val" constraint speaks about
ValLen(sc, v) == IF sc.kind \in ListKinds THEN v.cnt ELSE StrLen(v)

\* a desc constraint sits in class pa + 1: it concerns instances of that class and below
Applies(sc, k, v) == k.src # "desc" \/ v.inst > sc.pa

AtomBroken(sc, a, v) ==
    /\ ~v.none
    /\ Applies(sc, a, v)
    /\ IF a.tgt = "val" THEN ~Holds(a, ValLen(sc, v)) ELSE v.cnt > 0 /\ ~Holds(a, StrLen(v))
PatBroken(sc, p, v) ==
    /\ ~v.none
    /\ Applies(sc, p, v)
    /\ IF p.tgt = "val" THEN ~FullMatch(p.tree, StrOf(v)) ELSE v.cnt > 0 /\ ~FullMatch(p.tree, StrOf(v))
BrokenAtoms(sc, v) == {q \in 1..Len(sc.atoms) : AtomBroken(sc, sc.atoms[q], v)}
BrokenPats(sc, v)  == {q \in 1..Len(sc.pats) : PatBroken(sc, sc.pats[q], v)}

\* the instance satisfies all invariants (C13's antecedent)
Valid(sc, v) == BrokenAtoms(sc, v) = {} /\ BrokenPats(sc, v) = {}
\* C14's antecedent
MustReject(sc, v) ==
    \/ \E q \in BrokenAtoms(sc, v) : sc.atoms[q].src \in Enforced /\ Recognised(sc.atoms[q])
    \/ \E q \in BrokenPats(sc, v) : sc.pats[q].src \in Enforced
\* broken, but only by constraints the sentence excludes (descendant tightenings, `!=`)
OnlyExcluded(sc, v) == ~Valid(sc, v) /\ ~MustReject(sc, v)
\* the sources of what is broken (for keys / statistics)
BrokenSources(sc, v) ==
    {sc.atoms[q].src : q \in BrokenAtoms(sc, v)} \cup {sc.pats[q].src : q \in BrokenPats(sc, v)}

\* some length 0..n is admitted by all atoms on the target (used to keep scenarios instantiable)
SatisfiableOn(sc, tgt, n) ==
    \E m \in 0..n : \A q \in 1..Len(sc.atoms) : sc.atoms[q].tgt = tgt => Holds(sc.atoms[q], m)

---------------------------------------------------------------------------
(* Well-formedness of a scenario (what the family contains).                                    *)
SrcOk(sc, k) ==
    /\ k.src \in Sources
    /\ (k.src = "desc" => sc.pa < sc.L)
    /\ (k.src \in {"cprim", "cprim_anc", "cprim_anc2"} => sc.kind \in CprimKinds)
    /\ (k.tgt = "item" <=> (sc.kind = "list_cprim" /\ k.src \in {"cprim", "cprim_anc", "cprim_anc2"}))
WellFormed(sc) ==
    /\ sc.kind \in Kinds /\ sc.L \in 1..3 /\ sc.pa \in 1..sc.L /\ sc.opt \in BOOLEAN
    /\ \A q \in 1..Len(sc.atoms) : SrcOk(sc, sc.atoms[q]) /\ sc.atoms[q].op \in Ops /\ sc.kind \notin {"int"} \cup StubKinds
    /\ \A q \in 1..Len(sc.pats) : SrcOk(sc, sc.pats[q]) /\ sc.kind \in StringKinds
ValueOk(sc, v) ==
    /\ v.inst \in sc.pa..sc.L
    /\ (v.none => sc.opt)
    /\ (sc.kind \notin ListKinds => v.cnt = 0)

---------------------------------------------------------------------------
(* The document: the children of the root element, in order.  Class number q declares the       *)
(* required filler p<q>; class pa declares  p<pa>, x, t  in this order.  Ancestors come first.  *)
PName(q) == <<"pa", "pb", "pc">>[q]
RECURSIVE ShapeUpTo(_, _, _)
ShapeUpTo(sc, v, q) ==
    IF q = 0 THEN <<>>
    ELSE ShapeUpTo(sc, v, q - 1) \o <<PName(q)>>
         \o (IF q = sc.pa THEN (IF v.none THEN <<>> ELSE <<"x">>) \o <<"t">> ELSE <<>>)
DocShape(sc, v) == ShapeUpTo(sc, v, v.inst)
RootName(v) == <<"ka", "kb", "kc">>[v.inst]
Required(sc, name) == ~(name = "x" /\ sc.opt)

(* Single mutations of a valid document: [kind, at, in].  `at` indexes the children of the root *)
(* (0 = before the first / the root itself); in = "x": inside the list element x.               *)
Mut(kind, at, in) == [kind |-> kind, at |-> at, in |-> in]
Mutations(sc, v) ==
    LET sh == DocShape(sc, v) n == Len(sh) IN
    {Mut("Unknown_element", a, "root") : a \in 0..n}
    \cup {Mut("Misplaced_element", a, "root") : a \in 1..(n - 1)}
    \cup {Mut("Missing_required_element", a, "root") : a \in {b \in 1..n : Required(sc, sh[b])}}
    \cup {Mut("Duplicate_element", a, "root") : a \in 1..n}
    \cup {Mut("Wrong_namespace", a, "root") : a \in 0..n}
    \cup (IF sc.kind \in ListKinds /\ ~v.none
          THEN {Mut("Unknown_element", a, "x") : a \in 0..v.cnt}
               \cup {Mut("Wrong_namespace", a, "x") : a \in 1..v.cnt}
          ELSE {})
\* an XML Schema sequence of distinct element declarations admits exactly the declared order,
\* every required element once, no foreign element, and only names of the target namespace:
\* every single mutation above leaves that language (XsdDesign model-checks this).
MutationMustReject(sc, v, m) == TRUE

---------------------------------------------------------------------------
(* Structural fingerprints (keys of findings; never part of a verdict).                         *)
\* the patterns the schema of class pa has to conjoin on the value / on the items
EnforcedTrees(sc, tgt) == {sc.pats[q].tree : q \in {r \in 1..Len(sc.pats) : sc.pats[r].src \in Enforced /\ sc.pats[r].tgt = tgt}}
AllTrees(sc) == {sc.pats[q].tree : q \in 1..Len(sc.pats)}
\* two or more pattern OCCURRENCES are conjoined on one target (equal texts included: the generator hands each of them
\* to greenery; only patterns merged from different classes are de-duplicated)
Multi(sc) == \E tgt \in {"val", "item"} :
    Cardinality({q \in 1..Len(sc.pats) : sc.pats[q].src \in Enforced /\ sc.pats[q].tgt = tgt}) >= 2
ScenarioFeatures(sc) ==
    (UNION {TreeFeatures(t) : t \in AllTrees(sc)})
    \cup (IF Multi(sc) THEN {"multi"} ELSE {})
    \cup (IF Multi(sc) /\ \E t \in AllTrees(sc) : HasUnboundedDot(t) THEN {"multi_dotrep"} ELSE {})
    \cup (IF Multi(sc) /\ \E t \in AllTrees(sc) : HasNegSet(t) THEN {"multi_negset"} ELSE {})
    \cup (IF Multi(sc) /\ \E t \in AllTrees(sc) : \E p \in Lits(t) : p[2] = "esc" THEN {"multi_esc"} ELSE {})
FeatureOrder == <<"enc_meta", "enc_set_meta", "uni_esc", "esc_dollar", "lit_bs", "del_char", "multi", "multi_dotrep", "multi_negset", "multi_esc">>
FeatureSeq(sc) == SelectSeq(FeatureOrder, LAMBDA f : f \in ScenarioFeatures(sc))
=============================================================================
