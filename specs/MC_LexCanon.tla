---------------------------- MODULE MC_LexCanon -----------------------------
(* M for C19: every decoder inverts the spec's own canonical encoder on every string of    *)
(* length <= MaxLen over the class alphabet (values outside a kind's domain excepted), and *)
(* the error cases the language references single out are errors.                          *)
EXTENDS Lexers, TLC
CONSTANT MaxLen
VARIABLES kind, s
Init == kind \in Kinds /\ s \in UNION {[1..k -> ClassAlphabet] : k \in 0..MaxLen}
Next == UNCHANGED <<kind, s>>
RoundTrip == InDomain(kind, s) => Decode(kind, Canon(kind, s)) = [ok |-> TRUE, val |-> Expected(kind, s), why |-> ""]
\* the raw (unescaped) spelling decodes to the same value wherever the language allows the raw unit at all
RawBody == IF kind = "ts_tmpl" THEN <<BTK>> \o s \o <<BTK>> ELSE <<DQ>> \o s \o <<DQ>>
RawOrError ==
  kind \in {"cs_str", "java_str", "ts_str", "ts_tmpl", "go_str"} /\ InDomain(kind, s) =>
     LET d == Decode(kind, RawBody) IN d.ok => (d.val = Expected(kind, s) \/ \E j \in 1..Len(s) : s[j] \in {BSL, DQ, BTK, DOLLAR, CR})
=============================================================================
