---- MODULE RegexGen ----
(***************************************************************************************************)
(* G phase of C16 (and the tree source of C17 / C18): the case space of regex trees, enumerated by   *)
(* TLC family by family and written as JSON together with the canonical / alternative concrete      *)
(* syntax (RenderSpec) and the boundary alphabet of every tree.                                      *)
(*                                                                                                 *)
(* Families (each is an exhaustive cross product over the listed components):                       *)
(*   F1  one term: every atom (plain / encoded literals incl. meta characters, dot, sets) x every    *)
(*       quantifier                                                                                 *)
(*   F2  two terms: reduced atoms and anchors x reduced quantifiers, all ordered pairs               *)
(*   F3  alternations of up to three small concatenations (top level), groups of alternations under *)
(*       a quantifier, alone and followed by a literal                                              *)
(*   F4  nested quantified groups (nested empty loops)                                              *)
(*   F5  character sets: all lists of one / two ranges over the set alphabet, both polarities       *)
(*   F6  (Deep = TRUE) three-term concatenations and two-level groups                               *)
(* Wide = FALSE shrinks the component sets of F2, F3 and F5 (quick tier).                           *)
(* Every tree is written in the styles of Styles.                                                   *)
(***************************************************************************************************)
EXTENDS Regex, Json, IOUtils, TLC, SequencesExt
CONSTANTS Deep, Wide, AlphaCap, LenCap, Budget

\* code points
cA == 97   cB == 98   cC == 99   cDash == 45   cCaret == 94   cRBr == 93   cLBr == 91   cBsl == 92
cLBrace == 123   cRBrace == 125   cPipe == 124   cEacute == 233   cAstral == 128512   cAstral2 == 128513
cDotCh == 46   cDollar == 36   cTab == 9   cLf == 10   cSpace == 32   cHash == 35   cLPar == 40   cRPar == 41
cStar == 42   cPlus == 43   cQuest == 63   cZero == 48   cLatinExt == 256   cBmpLast == 65535   cAstralFirst == 65536

PlainChars == {cA, cDash, cCaret, cRBr, cLBr, cBsl, cRBrace, cEacute, cAstral, cDotCh, cDollar, cTab, cLf, cSpace,
               cHash, cLPar, cRPar, cStar, cPlus, cQuest, cZero}
EncodedChars == {cA, cLBrace, cPipe, cEacute, cLatinExt, cAstral, cLf, cBmpLast, cAstralFirst}
Literals == {Chr(c, FALSE) : c \in PlainChars} \cup {Chr(c, TRUE) : c \in EncodedChars}

Quantifiers == {NoQ, Q(0, 1, FALSE), Q(0, Unbounded, FALSE), Q(1, Unbounded, FALSE), Q(2, 2, FALSE), Q(1, 2, FALSE),
                Q(2, Unbounded, FALSE), Q(0, 0, FALSE), Q(0, 2, FALSE), Q(1, 1, FALSE), Q(10, 11, FALSE),
                Q(0, 1, TRUE), Q(0, Unbounded, TRUE), Q(1, Unbounded, TRUE), Q(1, 2, TRUE)}
FewQuantifiers == {NoQ, Q(0, Unbounded, FALSE), Q(1, 2, TRUE)} \cup (IF Wide THEN {Q(1, 2, FALSE), Q(1, Unbounded, TRUE)} ELSE {})
LoopQuantifiers == {Q(0, Unbounded, FALSE), Q(1, Unbounded, FALSE), Q(0, 1, FALSE), Q(2, 2, FALSE), Q(1, 2, FALSE)}

\* F5: sets
SetChars == {cA, cC, cDash, cCaret, cRBr, cBsl, cEacute}
SetRanges == {Single(Chr(c, FALSE)) : c \in (IF Wide THEN SetChars \cup {cLBr, cAstral} ELSE {cA, cDash, cCaret, cRBr, cAstral})}
             \cup (IF Wide THEN {Single(Chr(cRBr, TRUE)), Single(Chr(cAstral, TRUE))} ELSE {})
             \cup {Rng(Chr(cA, FALSE), Chr(cC, FALSE)), Rng(Chr(cDash, FALSE), Chr(cA, FALSE)), Rng(Chr(cPlus, FALSE), Chr(cDash, FALSE)),
                   Rng(Chr(cA, FALSE), Chr(cA, FALSE)), Rng(Chr(cCaret, FALSE), Chr(cA, FALSE)), Rng(Chr(cBsl, FALSE), Chr(cRBr, FALSE)),
                   Rng(Chr(cEacute, TRUE), Chr(cLatinExt, TRUE)), Rng(Chr(cAstral, FALSE), Chr(cAstral2, FALSE)),
                   Rng(Chr(cAstralFirst, TRUE), Chr(cAstral, TRUE)), Rng(Chr(cBmpLast, TRUE), Chr(cAstralFirst, TRUE)),
                   Rng(Chr(cEacute, FALSE), Chr(cAstral, FALSE))}
Lo(r) == r.lo.c
Hi(r) == r.hi.c
Disjoint(r1, r2) == Hi(r1) < Lo(r2) \/ Hi(r2) < Lo(r1)
RangeLists == {<<r>> : r \in SetRanges} \cup {<<p[1], p[2]>> : p \in {x \in SetRanges \X SetRanges : Disjoint(x[1], x[2])}}
Sets == {CSet(neg, rs) : neg \in BOOLEAN, rs \in RangeLists}
FewSets == {CSet(FALSE, <<Rng(Chr(cA, FALSE), Chr(cC, FALSE))>>), CSet(TRUE, <<Single(Chr(cA, FALSE))>>),
            CSet(FALSE, <<Single(Chr(cDash, FALSE)), Rng(Chr(cEacute, TRUE), Chr(cLatinExt, TRUE))>>)}

F1 == {OneTerm(Term(v, q)) : v \in Literals \cup {Dot} \cup FewSets, q \in Quantifiers}
F5 == {OneTerm(Term(v, q)) : v \in Sets, q \in {NoQ} \cup (IF Wide THEN {Q(1, Unbounded, FALSE)} ELSE {})}

\* F2: pairs
FewAtoms == {Chr(cA, FALSE), Chr(cAstral, FALSE), Chr(cRBrace, FALSE), Chr(cLBrace, TRUE), Dot}
            \cup (IF Wide THEN {Chr(cEacute, FALSE), Chr(cDash, FALSE), Chr(cZero, FALSE)} \cup FewSets
                  ELSE {CSet(FALSE, <<Rng(Chr(cA, FALSE), Chr(cC, FALSE))>>), CSet(TRUE, <<Single(Chr(cA, FALSE))>>)})
FewTerms == {Term(v, q) : v \in FewAtoms, q \in FewQuantifiers} \cup {Term(Start, NoQ), Term(End, NoQ)}
F2 == {OneCat(<<t1, t2>>) : t1 \in FewTerms, t2 \in FewTerms}

\* F3: alternations and groups
tA == Term(Chr(cA, FALSE), NoQ)
tB == Term(Chr(cB, FALSE), NoQ)
tAstar == Term(Chr(cA, FALSE), Q(0, Unbounded, FALSE))
SmallCats == {Cat(<<>>), Cat(<<tA>>), Cat(<<tA, tB>>), Cat(<<tAstar>>), Cat(<<Term(Start, NoQ), tA>>)}
             \cup (IF Wide THEN {Cat(<<tB>>), Cat(<<tA, Term(End, NoQ)>>)} ELSE {})
SmallAlts(n) == UNION {{Alt(cs) : cs \in [1..m -> SmallCats]} : m \in 1..n}
F3top == SmallAlts(3) \cup {Alt(<<>>)}
F3grp == {OneTerm(Term(Group(a), q)) : a \in SmallAlts(2), q \in {NoQ} \cup LoopQuantifiers}
         \cup {OneCat(<<Term(Group(a), q), tB>>) : a \in SmallAlts(2), q \in LoopQuantifiers}

\* F4: nested loops
Inner == {OneCat(<<tA>>), OneCat(<<tAstar>>), Alt(<<Cat(<<tA>>), Cat(<<>>)>>), Alt(<<Cat(<<>>), Cat(<<>>)>>), Alt(<<Cat(<<>>)>>)}
F4 == {OneCat(<<Term(Start, NoQ), Term(Group(OneTerm(Term(Group(x), q1))), q2), Term(End, NoQ)>>) :
          x \in Inner, q1 \in LoopQuantifiers, q2 \in LoopQuantifiers}

\* F6: deeper
MidTerms == {Term(v, q) : v \in {Chr(cA, FALSE), Chr(cAstral, FALSE), Dot, CSet(FALSE, <<Rng(Chr(cA, FALSE), Chr(cC, FALSE))>>),
                                  CSet(TRUE, <<Single(Chr(cA, FALSE))>>)},
                          q \in {NoQ, Q(0, Unbounded, FALSE), Q(1, 2, FALSE)}} \cup {Term(Start, NoQ), Term(End, NoQ)}
F6 == IF Deep
      THEN {OneCat(<<t1, t2, t3>>) : t1 \in MidTerms, t2 \in MidTerms, t3 \in MidTerms}
           \cup {OneCat(<<Term(Group(a), q), t>>) : a \in SmallAlts(3), q \in LoopQuantifiers, t \in {tB, Term(End, NoQ)}}
      ELSE {}

Families == <<F1, F2, F3top \cup F3grp, F4, F5, F6>>
FamilyNames == <<"F1", "F2", "F3", "F4", "F5", "F6">>
Styles == {[braces |-> FALSE, raw |-> FALSE], [braces |-> TRUE, raw |-> TRUE]}

CaseOf(fam, tree, style) ==
  LET A == BoundaryCapped(tree, AlphaCap)
  IN [fam |-> FamilyNames[fam], tree |-> tree, style |-> style, text |-> RenderSpec(tree, style),
      alpha |-> SetToSeq(A), maxlen |-> LengthFor(A, LenCap, Budget)]
AllCases == UNION {{CaseOf(f, t, st) : t \in {x \in Families[f] : WritableAlt(x)}, st \in Styles} : f \in 1..Len(Families)}
\* two styles often give the same text: keep one case per (tree, text)
Cases == {c \in AllCases : c.style.braces = FALSE \/ c.text # RenderSpec(c.tree, Canonical)}

ASSUME JsonSerialize(IOEnv.VERIF_OUT, SetToSeq(Cases))
ASSUME PrintT(<<"@@PRINT@@ cases", Cardinality(Cases), [f \in 1..Len(Families) |-> Cardinality(Families[f])]>>)
VARIABLE dummy
Init == dummy = 0
Next == UNCHANGED dummy
====
