------------------------------ MODULE MC_CrossSdk ------------------------------
(***************************************************************************************************)
(* M phase of C09: design-level model checking of the reference semantics itself (no repo code).   *)
(* TLC visits one state per instance and per mutated document of every family (as enumerated by    *)
(* CrossSdkGen) and checks                                                                         *)
(*   RoundTrip        FromJsonable(ToJsonable(x)) accepts and yields x  (the wire format is a      *)
(*                    bijection on its image; modelType dispatch picks the concrete class)         *)
(*   WireShape        ToJsonable(x) is an object whose keys are distinct wire names                *)
(*   ErrorsAnchored   every reference error names an invariant of the class (or constrained        *)
(*                    primitive) found at its path, and the evaluator is total on the instance     *)
(*   VerdictCoherent  per mutation kind the verdict of the three-valued de-serialiser is the       *)
(*                    expected one (unmutated => accept; dropped / null-ed required member =>      *)
(*                    reject; extra member on an otherwise fine document => either; ...)           *)
(*   Base64Inverse    B64Dec inverts Base64 on all byte strings of the alphabets                   *)
(*   SupersetsWell    declared superset_of relations hold                                          *)
(***************************************************************************************************)
EXTENDS CrossSdkModels, Json, IOUtils

\* The cases are the ones CrossSdkGen wrote (G runs first).  They are read back from the file because TLC
\* pre-computes and caches only constant definitions that involve no RECURSIVE operator: a definition of the
\* case sequence inside this module would be re-evaluated at every state.
G == JsonDeserialize(IOEnv.VERIF_CASES)
Fs == G.families
ModelNamed(n) == G.models[CHOOSE a \in 1..Len(G.models) : G.models[a].model.name = n].model

\* thorough tier: every Stride-th instance of the large families (the design check involves no repo code; the
\* quick tier visits all of its, far fewer, instances)
Stride == IF IOEnv.VERIF_TIER = "quick" THEN 1 ELSE 4
VARIABLES fi, kind, ci
vars == <<fi, kind, ci>>
Init ==
  \E a \in 1..Len(Fs) :
     /\ fi = a
     /\ \/ kind = "inst" /\ ci \in {n \in 1..Len(Fs[a].instances) : n % Stride = 0 \/ Len(Fs[a].instances) < 100}
        \/ kind = "doc" /\ ci \in 1..Len(Fs[a].docs)
Next == UNCHANGED vars

M == ModelNamed(Fs[fi].model)
Root == Fs[fi].root
c == IF kind = "inst" THEN Fs[fi].instances[ci].x ELSE Fs[fi].docs[ci]

\* the spec's own meta-models and the ones read back are the same values
ModelsFaithful == \A a \in 1..Len(G.models) : G.models[a].model = ModelByName(G.models[a].model.name)

RoundTrip ==
  kind = "inst" =>
     LET r == FromJsonable(M, Root, ToJsonable(M, c)) IN r.r = "ok" /\ DeepEq(r.x, c)

WireShape ==
  kind = "inst" =>
     LET j == ToJsonable(M, c) IN
     /\ j.k = "obj"
     /\ \A a, b \in 1..Len(j.v) : a # b => j.v[a].key # j.v[b].key
     /\ JsonEq(j, j)

AllDescs(m) ==
  UNION {{m.classes[a].invs[q].desc : q \in 1..Len(m.classes[a].invs)} : a \in 1..Len(m.classes)}
  \cup UNION {{m.cprims[a].invs[q].desc : q \in 1..Len(m.cprims[a].invs)} : a \in 1..Len(m.cprims)}
ErrorsAnchored ==
  kind = "inst" =>
     \A e \in RefErrors(M, c) : e.cause \in AllDescs(M) /\ Len(e.path) <= 4

\* the declared type at a location of a document of the root class (by wire names), or "none"
IsRequiredMember(loc) ==
  /\ Len(loc) = 1
  /\ \E a \in 1..Len(AllProps(M, Root)) : AllProps(M, Root)[a].json = loc[1] /\ ~IsOpt(AllProps(M, Root)[a].type)
IsOptionalMember(loc) ==
  /\ Len(loc) = 1
  /\ \E a \in 1..Len(AllProps(M, Root)) : AllProps(M, Root)[a].json = loc[1] /\ IsOpt(AllProps(M, Root)[a].type)
VerdictCoherent ==
  kind = "doc" =>
     LET v == FromJsonable(M, Root, c.doc).r IN
     /\ v \in {"ok", "rej", "either"}
     /\ c.mut = "none" => v = "ok"
     /\ (c.mut = "drop" /\ IsRequiredMember(c.loc)) => v = "rej"
     /\ (c.mut = "drop" /\ IsOptionalMember(c.loc)) => v = "ok"
     /\ (c.mut = "replace_null" /\ IsRequiredMember(c.loc)) => v = "rej"
     /\ (c.mut = "replace_null" /\ IsOptionalMember(c.loc)) => v = "either"
     /\ (c.mut = "extra_member" /\ c.loc = <<>>) => v = "either"
     /\ (Len(c.loc) = 0 /\ c.mut \notin {"none", "extra_member", "replace_obj_empty"}) => v = "rej"
     /\ (c.mut \in {"replace_arr_empty", "replace_obj_empty"} /\ IsRequiredMember(c.loc) /\ c.at \in {"num", "str", "bool", "float"}) => v = "rej"
     /\ (v = "ok") => LET r == FromJsonable(M, Root, c.doc) IN JsonEq(ToJsonable(M, r.x), ToJsonable(M, r.x))

ByteStrings == {<<>>, <<0>>, <<255>>, <<255, 1>>, <<1, 2, 250>>, <<104, 105, 33, 63>>, <<0, 0, 0, 0, 0>>}
Base64Inverse ==
  \A bs \in ByteStrings : B64Canonical(Base64(bs)) /\ B64Dec(Base64(bs)) = bs
NotCanonical == ~B64Canonical(<<120>>) /\ ~B64Canonical(<<47, 119, 69>>) /\ ~B64Canonical(<<47, 119, 70, 61>>)
SupersetsWell == \A q \in 1..Len(ModelNames) : SupersetsDeclaredWell(ModelByName(ModelNames[q]))

\* integer comparison is a total order consistent with the few values whose order is known
IntOrder ==
  LET xs == <<Int64Min, Neg(2), Neg(1), Pos(0), Pos(1), Pos(2), Pos(10), Int64Max>> IN
  \A a, b \in 1..Len(xs) : CmpInt(xs[a], xs[b]) = (IF a < b THEN -1 ELSE IF a = b THEN 0 ELSE 1)

\* the pattern matcher on a few known verdicts (Python: re.match with ^...$)
PatternFacts ==
  /\ FullMatch(PatCode, s_ac) /\ FullMatch(PatCode, s_abdc) /\ ~FullMatch(PatCode, s_ab) /\ ~FullMatch(PatCode, s_empty)
  /\ FullMatch(PatCode, s_ac_lf) /\ ~FullMatch(PatCode, <<97, 99, 10, 10>>) /\ ~FullMatch(PatCode, s_aec)
  /\ FullMatch(PatAstral, s_astral) /\ FullMatch(PatAstral, <<97, 128512>>) /\ ~FullMatch(PatAstral, <<97, 98, 99>>) /\ ~FullMatch(PatAstral, s_empty)
  /\ FullMatch(PatNotX, s_empty) /\ FullMatch(PatNotX, s_astral) /\ ~FullMatch(PatNotX, s_x) /\ ~FullMatch(PatNotX, s_ab)
ASSUME Base64Inverse /\ NotCanonical /\ SupersetsWell /\ IntOrder /\ PatternFacts /\ ModelsFaithful
=============================================================================
