INIT Init
NEXT Next
INVARIANT Inv_AncestorsAreClosure
INVARIANT Inv_AncestorsNoDup
INVARIANT Inv_DescendantsAreInverse
INVARIANT Inv_DescendantsNoDup
INVARIANT Inv_ConcreteDescendantsRight
INVARIANT Inv_ConcreteDescendantsNoDup
INVARIANT Inv_PropertiesAreHeritage
INVARIANT Inv_PropertiesOrdered
INVARIANT Inv_InvariantsAreHeritage
INVARIANT Inv_InvariantsOrdered
INVARIANT Inv_MethodsAreHeritage
INVARIANT Inv_MethodsOrdered
INVARIANT Inv_CtorAssignsEvery
INVARIANT Inv_CtorAssignsAtMostOnce
INVARIANT Inv_CtorNoSuperCalls
INVARIANT Inv_InterfacesExact
INVARIANT Inv_Topological
INVARIANT Inv_ModelTypeDown
