INIT Init
NEXT Next
INVARIANT Inv_AncestorsAreClosure
INVARIANT Inv_AncestorsNoDup__multiple_inheritance_paths
INVARIANT Inv_AncestorsNoDup__none
INVARIANT Inv_DescendantsAreInverse
INVARIANT Inv_DescendantsNoDup__multiple_inheritance_paths
INVARIANT Inv_DescendantsNoDup__none
INVARIANT Inv_ConcreteDescendantsRight
INVARIANT Inv_ConcreteDescendantsNoDup__multiple_inheritance_paths
INVARIANT Inv_ConcreteDescendantsNoDup__none
INVARIANT Inv_PropertiesAreHeritage
INVARIANT Inv_PropertiesOrdered
INVARIANT Inv_InvariantsAreHeritage
INVARIANT Inv_InvariantsOrdered
INVARIANT Inv_MethodsAreHeritage
INVARIANT Inv_MethodsOrdered
INVARIANT Inv_CtorAssignsEvery
INVARIANT Inv_CtorAssignsAtMostOnce__written_twice
INVARIANT Inv_CtorAssignsAtMostOnce__multiple_inheritance_paths
INVARIANT Inv_CtorAssignsAtMostOnce__none
INVARIANT Inv_CtorNoSuperCalls
INVARIANT Inv_InterfacesExact
INVARIANT Inv_Topological
INVARIANT Inv_ModelTypeDown
