-------------------------- MODULE ConstraintsDocGen --------------------------
(* G phase of C11 / C12: scenarios (a sub-space of ConstraintsGen's, restricted to what has documents)   *)
(* together with the document cases the spec yields for each: valid boundary documents (C11) and         *)
(* single-constraint violations + structural mutations (C12).                                            *)
EXTENDS ConstraintsDocs, Json, IOUtils, TLC, SequencesExt

CONSTANTS MaxC,       \* length constants 0..MaxC in the one-atom family
          ChainCs     \* constants of the two-atom families

RecOps == LenOps \ {"!="}
NeedsOpt(cls) == \E j \in 1..Len(cls) : \E a \in Range(cls[j]) : a.g \in SameGuards \cup ChainedGuards
Scn(kind, wmt, cls, prim) == [kind |-> kind, opt |-> NeedsOpt(cls), wmt |-> wmt, shape |-> "chain", porder |-> <<>>, impl |-> 0, twin |-> FALSE, cls |-> cls, prim |-> prim]
Dia(kind, shape, cls, prim) == [kind |-> kind, opt |-> NeedsOpt(cls), wmt |-> TRUE, shape |-> shape, porder |-> <<>>, impl |-> 0, twin |-> FALSE, cls |-> cls, prim |-> prim]
LenU(ops, cs, sides, gs) == {LenAtom(op, c, sd, g, "const") : op \in ops, c \in cs, sd \in sides, g \in gs}
Small(cs) == LenU({"<=", ">=", "=="}, cs, {"L"}, {"none"})

\* D1: one length atom on every kind of value
D1 == {Scn("str", FALSE, <<<<a>>>>, <<>>) : a \in LenU(LenOps, 0..MaxC, Sides, {"none", "isnone", "other"}) \cup LenU(RecOps, {1, 3}, {"L"}, {"isnone3"})}
      \cup {Scn("list", FALSE, <<<<a>>>>, <<>>) : a \in LenU({">=", "<="}, {2}, {"L"}, {"isnone3"})}
      \cup {Scn(kind, FALSE, <<<<a>>>>, <<>>) : kind \in {"bytes", "list"}, a \in LenU(LenOps, 0..MaxC, Sides, {"none"})}
      \cup {Scn(kind, FALSE, <<<<>>>>, <<<<a>>>>) : kind \in {"cprim", "listcprim"}, a \in LenU(RecOps, 0..MaxC, Sides, {"none"})}
\* D2: two length atoms at different places of the chains (tightening, in-lining, list size vs items)
D2 == UNION {
        { Scn("str", TRUE, <<<<a>>, <<b>>>>, <<>>),
          Scn("bytes", TRUE, <<<<a>>, <<b>>>>, <<>>),
          Scn("list", TRUE, <<<<a>>, <<>>, <<b>>>>, <<>>),
          Scn("cprim", FALSE, <<<<b>>>>, <<<<a>>>>),
          Scn("cprim", TRUE, <<<<>>, <<b>>>>, <<<<>>, <<a>>>>),
          Scn("listcprim", TRUE, <<<<b>>, <<>>>>, <<<<a>>>>) }
        : a \in Small(ChainCs), b \in Small(ChainCs) }
\* D3: patterns (own class, ancestor, constrained primitive, items), with and without a length bound
PatIdSeqs == {<<"ab">>, <<"bc">>, <<"b">>, <<"ab", "bc">>, <<"bmpx">>, <<"astral">>}
D3 == {Scn("str", w, <<<<PatAtom(ids, g)>>>>, <<>>) : ids \in PatIdSeqs, g \in {"none", "isnone", "other"}, w \in BOOLEAN}
      \cup UNION {
        { Scn("str", TRUE, <<<<PatAtom(p, "none")>>, <<PatAtom(q, "none")>>>>, <<>>),
          Scn("str", TRUE, <<<<PatAtom(p, "none"), LenAtom("<=", 3, "L", "none", "const")>>, <<>>, <<PatAtom(q, "isnone"), LenAtom(">=", 1, "R", "isnone", "const")>>>>, <<>>),
          Scn("cprim", FALSE, <<<<PatAtom(q, "none")>>>>, <<<<PatAtom(p, "none")>>>>),
          Scn("cprim", TRUE, <<<<>>, <<LenAtom("<=", 2, "L", "none", "const")>>>>, <<<<PatAtom(p, "none")>>, <<PatAtom(q, "none"), LenAtom(">=", 1, "L", "none", "const")>>>>),
          Scn("listcprim", FALSE, <<<<LenAtom(">=", 1, "L", "none", "const")>>>>, <<<<PatAtom(p, "none"), PatAtom(q, "none"), LenAtom("<=", 2, "L", "none", "const")>>>>) }
        : p \in {<<"ab">>, <<"bc">>, <<"bmpx">>}, q \in {<<"ab">>, <<"bc">>, <<"ab", "bc">>} }
\* D4: no constraints at all, for every kind, depth and model-type setting (structure only)
D4 == {Scn(kind, w, cls, IF kind \in {"cprim", "listcprim"} THEN <<<<>>>> ELSE <<>>) :
          kind \in {"str", "bytes", "list", "cprim", "listcprim"}, w \in BOOLEAN, cls \in {<<<<>>>>, <<<<>>, <<>>>>, <<<<>>, <<>>, <<>>>>}}

\* D5: diamond C1 <- C2, C1 <- C3, C4(C2, C3) / C4(C3, C2): both parents constrain the inherited property
D5 == UNION {
        { Dia("str", sh, <<<<>>, <<a>>, <<b>>, <<>>>>, <<>>) : a \in Small(ChainCs), b \in Small(ChainCs) }
        \cup { Dia("list", sh, <<<<>>, <<a>>, <<b>>, <<LenAtom("<=", 2, "L", "none", "const")>>>>, <<>>) : a \in Small({1}), b \in Small({3}) }
        \cup { Dia("str", sh, <<<<>>, <<PatAtom(<<"ab">>, "none")>>, <<PatAtom(<<"bc">>, "none"), LenAtom("<=", 3, "L", "none", "const")>>, <<>>>>, <<>>) }
        : sh \in {"dia_ab", "dia_ba"} }

\* D6: three constrained primitives P1 <- P2 <- P3 declared in every order (see F9 of ConstraintsGen)
Perms3 == {<<1, 2, 3>>, <<1, 3, 2>>, <<2, 1, 3>>, <<2, 3, 1>>, <<3, 1, 2>>, <<3, 2, 1>>}
D6 == { [Scn(kind, FALSE, <<<<>>>>, <<<<a>>, <<>>, p3>>) EXCEPT !.porder = po] :
          kind \in {"cprim", "listcprim"}, po \in Perms3,
          a \in Small({3}) \cup {PatAtom(<<"ab">>, "none")},
          p3 \in {<<>>, <<LenAtom(">=", 1, "L", "none", "const")>>} }
\* D7: the leaf class of a model-typed chain is @implementation_specific (impl = its level): its definition comes
\* from a snippet, everything else (ModelType, the choice, the parents) is generated
D7 == { [Scn(kind, TRUE, cls, IF kind = "cprim" THEN <<<<LenAtom("<=", 4, "L", "none", "const")>>>> ELSE <<>>) EXCEPT !.impl = Len(cls)] :
          kind \in {"str", "list", "cprim"},
          cls \in UNION { {<<<<a>>, leaf>>, <<<<a>>, <<>>, leaf>>} :
                             a \in Small({3}), leaf \in {<<>>, <<LenAtom("<=", 2, "L", "none", "const")>>} } }
\* D8: astral ranges spanning 1 / 2 / exactly 3 / 8 high surrogates (strings made of the code points at the block edges)
ArIds == {"ar1", "ar2", "ar3", "ar8"}
D8 == {Scn("str", FALSE, <<<<PatAtom(<<p>>, "none")>>>>, <<>>) : p \in ArIds}
      \cup {Scn(kind, FALSE, <<<<>>>>, <<<<PatAtom(<<p>>, "none")>>>>) : kind \in {"cprim", "listcprim"}, p \in ArIds}
      \cup {Scn("str", TRUE, <<<<PatAtom(<<"ar8">>, "none")>>, <<PatAtom(<<p>>, "none")>>>>, <<>>) : p \in {"ar2", "ar3"}}

\* D9: the constrained primitive of x is also the type of another property z declared BEFORE x (twin): what the class
\* says about x must still be enforced although the primitive was already in-lined once
D9 == { [Scn("cprim", FALSE, cls, <<p>>) EXCEPT !.twin = TRUE] :
          p \in {<<>>, <<LenAtom("<=", 4, "L", "none", "const")>>},
          cls \in UNION { {<<<<a>>>>, <<<<>>, <<a>>>>} : a \in Small({1, 3}) \cup {PatAtom(<<"ab">>, "none")} } }
\* D10: a pattern function written with several statements that re-assigns a building-block variable after using it
D10 == {Scn("str", FALSE, <<<<PatAtom(<<"abc_re">>, "none")>>>>, <<>>), Scn("cprim", FALSE, <<<<>>>>, <<<<PatAtom(<<"abc_re">>, "none")>>>>),
        Scn("str", TRUE, <<<<PatAtom(<<"abc_re">>, "none")>>, <<PatAtom(<<"ab">>, "none")>>>>, <<>>)}

Families == <<D1, D2, D3, D4, D5, D6, D7, D8, D9, D10>>
Scenarios == {S \in UNION {Families[j] : j \in DOMAIN Families} : WellGuarded(S)}

WithCases(S) == LET valid == ValidCases(S)
                IN  [scn |-> S, valid |-> SetToSeq(valid), viol |-> SetToSeq(ViolationCasesOf(S, BaseCasesOf(S, valid)))]

ASSUME JsonSerialize(IOEnv.VERIF_OUT, SetToSeq({WithCases(S) : S \in Scenarios}))
ASSUME PrintT(<<"@@PRINT@@ docscenarios", Cardinality(Scenarios), [j \in DOMAIN Families |-> Cardinality(Families[j])]>>)
VARIABLE dummy
Init == dummy = 0
Next == UNCHANGED dummy
=============================================================================
