----------------------------- MODULE XsdTrace13 -----------------------------
(* V phase of C13: the clauses of XsdTrace that C13 is about (see XsdTrace13.cfg) + its non-vacuity counters. *)
EXTENDS XsdTrace
ASSUME PrintT(Counts13)
=============================================================================
