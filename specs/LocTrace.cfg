INIT Init
NEXT Next
INVARIANT Inv_OneBased
INVARIANT Inv_Line
INVARIANT Inv_NoShift
INVARIANT Inv_Column
INVARIANT Inv_TableRefines
INVARIANT Inv_NoLocationWithoutConstruct
INVARIANT Inv_LocationComputed
