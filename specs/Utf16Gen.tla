---- MODULE Utf16Gen ----
(***************************************************************************************************)
(* G phase of C17: anchored regex trees whose literals and ranges touch the edges of the UTF-16       *)
(* encoding (end of the BMP, first astral code point, the ends of a block of 1024 code points that    *)
(* share a high surrogate, the last code point), alone, in ranges, under quantifiers, next to BMP     *)
(* ranges, in alternations; plus the constructs that are matched per code *unit* by UTF-16 engines    *)
(* (".", complemented sets, BMP ranges that span the surrogate block).                               *)
(* Every case carries its own string alphabet: the mentioned code points, their neighbours, the       *)
(* block edges inside astral ranges and a point in the middle; strings are sequences of scalar       *)
(* values (never lone surrogates).                                                                   *)
(***************************************************************************************************)
EXTENDS Regex, Json, IOUtils, TLC, SequencesExt
CONSTANTS Wide, AlphaCap, LenCap, Budget

cA == 97   cC == 99   cEacute == 233   cBeforeSurr == 55295   cAfterSurr == 57344   cBmpLast == 65535
cFirst == 65536   cSecond == 65537   cBlockEnd == 66559   cBlock2 == 66560   cBlock2End == 67583   cBlock3 == 67584
cSmile == 128512   cSmile2 == 128513   cPenult == 1114110   cLast == 1114111

EdgePoints == {cBmpLast, cFirst, cSecond, cBlockEnd, cBlock2, cSmile, cPenult, cLast}
LiteralPoints == EdgePoints \cup {cA, cEacute}
Quantifiers == {NoQ, Q(0, Unbounded, FALSE), Q(2, 2, FALSE), Q(1, 2, FALSE), Q(1, Unbounded, TRUE)}
FewQ == {NoQ, Q(1, Unbounded, FALSE)}

E(c) == Chr(c, c > 127)
Anch(ts) == OneCat(<<Term(Start, NoQ)>> \o ts \o <<Term(End, NoQ)>>)

\* U1: one literal under every quantifier, plain and explicitly encoded
U1 == {Anch(<<Term(Chr(c, enc), q)>>) : c \in LiteralPoints, enc \in BOOLEAN, q \in Quantifiers}

\* U2: one range with both ends astral or straddling the end of the BMP, under a quantifier, alone / next to a BMP range
AstralRangePairs ==
  {<<cFirst, cFirst>>, <<cFirst, cSecond>>, <<cFirst, cBlockEnd>>, <<cSecond, cBlock2>>, <<cFirst, cBlock2>>, <<cBlockEnd, cBlock2>>,
   <<cFirst, cBlock2End>>, <<cSecond, cBlock3>>, <<cFirst, cSmile>>, <<cSmile, cSmile2>>, <<cSmile, cPenult>>, <<cFirst, cLast>>,
   <<cBlock2, cLast>>, <<cPenult, cLast>>}
  \cup (IF Wide THEN {<<cSecond, cBlockEnd>>, <<cBlock2, cBlock2End>>, <<cBlock2, cBlock3>>, <<cBlockEnd, cBlock3>>, <<cSmile2, cLast>>, <<cBlock3, cSmile>>} ELSE {})
StraddlingPairs == {<<cBmpLast, cFirst>>, <<cAfterSurr, cSecond>>, <<cA, cSmile>>, <<cEacute, cLast>>, <<cBeforeSurr, cFirst>>}
RangeOf(p) == Rng(E(p[1]), E(p[2]))
BmpRange == Rng(Chr(cA, FALSE), Chr(cC, FALSE))
U2 == {Anch(<<Term(CSet(FALSE, rs), q)>>) :
         rs \in {<<RangeOf(p)>> : p \in AstralRangePairs \cup StraddlingPairs}
                \cup {<<BmpRange, RangeOf(p)>> : p \in AstralRangePairs}
                \cup {<<RangeOf(p), BmpRange>> : p \in {<<cFirst, cBlock2>>, <<cSmile, cSmile2>>, <<cBmpLast, cFirst>>}},
         q \in FewQ}
\* two astral ranges in one set, singles
U2b == {Anch(<<Term(CSet(FALSE, rs), q)>>) :
          rs \in {<<Single(E(cSmile)), RangeOf(<<cFirst, cSecond>>)>>, <<RangeOf(<<cFirst, cBlockEnd>>), RangeOf(<<cSmile, cSmile2>>)>>,
                  <<Single(E(cFirst))>>, <<Single(Chr(cSmile, FALSE)), Single(Chr(cA, FALSE))>>, <<Single(E(cLast)), Single(E(cBmpLast))>>},
          q \in FewQ}

\* U3: matched per code unit by UTF-16 engines: ".", complemented sets, BMP ranges spanning the surrogate block
UnitWise == {Dot, CSet(TRUE, <<Single(Chr(cA, FALSE))>>), CSet(TRUE, <<BmpRange>>), CSet(TRUE, <<Single(E(cFirst))>>),
             CSet(TRUE, <<RangeOf(<<cFirst, cSmile>>)>>), CSet(TRUE, <<Single(E(cSmile))>>),
             CSet(FALSE, <<Rng(Chr(cA, FALSE), E(cBmpLast))>>), CSet(FALSE, <<Rng(E(cBeforeSurr), E(cAfterSurr))>>)}
U3 == {Anch(<<Term(v, q)>>) : v \in UnitWise, q \in Quantifiers}
      \cup {Anch(<<Term(v, NoQ), Term(E(cSmile), NoQ)>>) : v \in UnitWise}
      \cup {Anch(<<Term(E(cSmile), NoQ), Term(v, Q(0, Unbounded, FALSE))>>) : v \in UnitWise}

\* U4: concatenations, groups and alternations around astral literals and ranges
tSmile == Term(E(cSmile), NoQ)
tA == Term(Chr(cA, FALSE), NoQ)
tRange == Term(CSet(FALSE, <<RangeOf(<<cFirst, cBlock2>>)>>), NoQ)
Cats4 == {Cat(<<tSmile>>), Cat(<<tA, tSmile>>), Cat(<<tSmile, tA>>), Cat(<<tRange>>), Cat(<<tA>>), Cat(<<>>),
          Cat(<<Term(E(cSmile), Q(1, 2, FALSE)), tA>>), Cat(<<tRange, tSmile>>)}
U4 == {Anch(<<Term(Group(Alt(<<c1, c2>>)), q)>>) : c1 \in Cats4, c2 \in Cats4, q \in (IF Wide THEN FewQ \cup {Q(2, 2, FALSE)} ELSE {Q(1, Unbounded, FALSE)})}
      \cup {Anch(<<Term(Group(Alt(<<c1>>)), Q(0, Unbounded, FALSE)), tSmile>>) : c1 \in Cats4}

\* U2c: a mixed set whose BMP part is exactly one character, for every character that is special somewhere in the
\* concrete syntax (outside a set the rewriting has to spell it as a literal), next to an astral single / range
MetaChars == {124, 40, 41, 42, 43, 63, 46, 36, 94, 123, 125, 92, 45, 93, 91}
U2c == {Anch(<<Term(CSet(FALSE, rs), q)>>) :
          rs \in UNION {{<<Single(Chr(c, FALSE)), Single(E(cSmile))>>, <<RangeOf(<<cFirst, cSecond>>), Single(Chr(c, FALSE))>>} : c \in MetaChars},
          q \in {NoQ} \cup (IF Wide THEN {Q(1, Unbounded, FALSE)} ELSE {})}

\* U5: runs of adjacent astral terms (two and three literals, a literal run followed by an astral set / quantified
\* literal), at top level, between BMP literals, inside groups and alternatives
tFirst == Term(E(cFirst), NoQ)
Runs == {<<tSmile, tFirst>>, <<tSmile, tFirst, tSmile>>, <<tSmile, tFirst, tRange>>, <<tA, tSmile, tFirst, tA>>,
         <<tSmile, tFirst, Term(E(cSmile), Q(0, Unbounded, FALSE))>>, <<tSmile, tSmile, tSmile>>, <<tRange, tSmile, tFirst>>}
U5 == {Anch(r) : r \in Runs}
      \cup {Anch(<<Term(Group(OneCat(r)), q)>>) : r \in Runs, q \in {NoQ, Q(1, 2, FALSE)}}
      \cup {Anch(<<Term(Group(Alt(<<Cat(r), Cat(<<tA>>)>>)), NoQ)>>) : r \in Runs}
      \cup {Anch(<<tA, Term(Group(OneCat(r)), NoQ), tSmile>>) : r \in {<<tSmile, tFirst>>, <<tSmile, tFirst, tSmile>>}}

Families == <<U1, U2 \cup U2b \cup U2c, U3, U4, U5>>
FamilyNames == <<"U1", "U2", "U3", "U4", "U5">>

\* string alphabet: code points of the tree, their neighbours, and for every range the ends of the 1024-blocks at
\* its borders, one point in the middle; scalar values only
BlockStart(c) == 65536 + ((c - 65536) \div 1024) * 1024
RangePoints(lo, hi) ==
  {lo - 1, lo, lo + 1, hi - 1, hi, hi + 1, (lo + hi) \div 2}
  \cup (IF IsAstral(hi) THEN {BlockStart(hi) - 1, BlockStart(hi)} ELSE {})
  \cup (IF IsAstral(lo) THEN {BlockStart(lo) + 1023, BlockStart(lo) + 1024} ELSE {})
RECURSIVE PointsV(_), PointsAlt(_)
PointsV(v) ==
  CASE v.k = "char" -> {v.c - 1, v.c, v.c + 1}
    [] v.k = "set" -> UNION {RangePoints(v.ranges[r].lo.c, v.ranges[r].hi.c) : r \in 1..Len(v.ranges)}
    [] v.k = "group" -> PointsAlt(v.alt)
    [] OTHER -> {}
PointsAlt(a) == UNION {UNION {PointsV(a.cats[c].terms[t].v) : t \in 1..Len(a.cats[c].terms)} : c \in 1..Len(a.cats)}
\* n elements of S taken alternately from its lower and its upper end
RECURSIVE TakeEnds(_, _, _)
TakeEnds(S, n, low) ==
  IF n = 0 \/ S = {} THEN {}
  ELSE LET m == IF low THEN CHOOSE x \in S : \A y \in S : x <= y ELSE CHOOSE x \in S : \A y \in S : x >= y
       IN {m} \cup TakeEnds(S \ {m}, n - 1, ~low)
\* preference: the mentioned points, then astral points (they are what the rewriting is about), then BMP ones, then fillers
Alphabet(tree) ==
  LET P == {c \in PointsAlt(tree) : IsScalar(c)}
      M == {c \in Mentioned(tree) : IsScalar(c)}
      a == TakeMin(M, AlphaCap - 2)
      b == TakeEnds({c \in P \ a : IsAstral(c)}, AlphaCap - 2 - Cardinality(a), TRUE)
      d == TakeEnds(P \ (a \cup b), AlphaCap - 2 - Cardinality(a) - Cardinality(b), FALSE)
  IN a \cup b \cup d \cup {Neutral, cSmile2 + 7}

\* runs of literals need strings of three characters: a small alphabet (the mentioned points and the two fillers)
SmallAlphabet(tree) == TakeMin({c \in Mentioned(tree) : IsScalar(c)}, 3) \cup {Neutral, cSmile2 + 7}
CaseOf(f, tree) ==
  LET A == IF FamilyNames[f] = "U5" THEN SmallAlphabet(tree) ELSE Alphabet(tree)
  IN [fam |-> FamilyNames[f], tree |-> tree, text |-> RenderSpec(tree, Canonical), alpha |-> SetToSeq(A),
      maxlen |-> LengthFor(A, LenCap, Budget)]
Cases == UNION {{CaseOf(f, t) : t \in {x \in Families[f] : WritableAlt(x)}} : f \in 1..Len(Families)}

ASSUME JsonSerialize(IOEnv.VERIF_OUT, SetToSeq(Cases))
ASSUME PrintT(<<"@@PRINT@@ cases", Cardinality(Cases), [f \in 1..Len(Families) |-> Cardinality(Families[f])]>>)
VARIABLE dummy
Init == dummy = 0
Next == UNCHANGED dummy
====
