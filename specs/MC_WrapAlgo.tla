---- MODULE MC_WrapAlgo ----
EXTENDS WrapAlgo
\* parts: "", "a", "the", "at", "x", "xyz"   (article-like prefix "at" is not an article)
VocabularyDef == {<<>>, <<97>>, <<116,104,101>>, <<97,116>>, <<120>>, <<120,121,122>>}
====
