------------------------------ MODULE Hierarchy ------------------------------
(* C05 -- what it means for the intermediate model to "faithfully resolve inheritance".          *)
(*                                                                                               *)
(* Variable-free, declarative module.  A hierarchy h is the *source-level* view of a meta-model  *)
(* (what a reader of the Python text sees), an observation o is the projection of the            *)
(* intermediate symbol table computed by the implementation.  Every clause of the property is a  *)
(* named operator Clause(h, o) over the two; HierarchyTrace.tla evaluates them on observations    *)
(* of the real front end, HierarchyAlgo.tla model-checks the front end's algorithm (topological  *)
(* DFS, ancestor accumulation, stacking passes) against the very same operators.                 *)
(*                                                                                               *)
(* h == [ n        : number of hierarchy members (classes and constrained primitives);           *)
(*                   they are identified by 1..n in *declaration order*                          *)
(*        kind     : <<"class" | "cprim", ...>>                                                  *)
(*        bases    : << <<ids of declared bases, in the order written>>, ... >>                   *)
(*        abstract : <<BOOLEAN, ...>>                                                            *)
(*        props    : << <<own property names in textual order>>, ... >>                           *)
(*        invs     : << <<own invariant descriptions in textual (top-down) order>>, ... >>       *)
(*        methods  : << <<own method names in textual order, without __init__>>, ... >>         *)
(*        wmt      : <<"none" | "true" | "false" | "bare", ...>>   declared @serialization(...):    *)
(*                   with_model_type=True / False, "bare" = the decorator without the argument      *)
(*                   (a serialization setting that says nothing about the model type)               *)
(*        ctor     : << <<statements of the written __init__>>, ... >>; a statement is              *)
(*                   [t |-> "super", b |-> id of the base, p |-> ""] or                            *)
(*                   [t |-> "assign", b |-> 0, p |-> property name]                                *)
(*      ]                                                                                        *)
(* o == [ anc, desc, cdesc : << <<ids>>, ... >>     sequences as stored (duplicates visible)      *)
(*        props, invs, methods : << << [name |-> str, owner |-> id], ... >>, ... >>              *)
(*        ctor     : << <<property names assigned by the in-lined constructor, in order>>, ...>> *)
(*        super    : << number of residual super-constructor calls, ... >>                       *)
(*        iface    : <<BOOLEAN, ...>>      interface is not None                                 *)
(*        wmt      : <<BOOLEAN, ...>>      resolved serialization.with_model_type                *)
(*        topo     : <<ids>>               our_types_topologically_sorted                        *)
(*      ]                                                                                        *)
EXTENDS Naturals, Sequences, FiniteSets, TLC

Ids(h) == 1..h.n
Elems(s) == {s[k] : k \in DOMAIN s}
NoDup(s) == \A i, j \in DOMAIN s : i < j => s[i] # s[j]
IsClass(h, c) == h.kind[c] = "class"

---------------------------------------------------------------------------------
(* The source relation and its closure                                            *)

Parents(h, c) == Elems(h.bases[c])

RECURSIVE UpClosure(_, _, _)
UpClosure(h, S, k) ==
    LET S2 == S \cup UNION {Parents(h, x) : x \in S}
    IN  IF k = 0 \/ S2 = S THEN S2 ELSE UpClosure(h, S2, k - 1)

\* strict ancestors: the transitive closure of "declared base of"
Ancestors(h, c) == UpClosure(h, Parents(h, c), h.n)
Lineage(h, c) == Ancestors(h, c) \cup {c}
\* the whole closure at once (clauses bind it with LET so that it is computed once per evaluation)
AncMap(h) == [c \in Ids(h) |-> Ancestors(h, c)]
\* the inverse relation
Descendants(h, c) == {d \in Ids(h) : c \in Ancestors(h, d)}
ConcreteDescendants(h, c) == {d \in Descendants(h, c) : ~h.abstract[d]}

Acyclic(h) == \A c \in Ids(h) : c \notin Ancestors(h, c)

\* a class reaches one of its ancestors along two different edges out of itself or of an ancestor
\* (the classical "diamond"); used for structural fingerprints and to stratify the case space
HasDiamond(h) ==
    \E c \in Ids(h) : \E p, q \in Parents(h, c) :
        p # q /\ (Lineage(h, p) \cap Lineage(h, q)) # {}
HasDiamondBelow(h, c) ==
    \E d \in Lineage(h, c) : \E p, q \in Parents(h, d) :
        p # q /\ (Lineage(h, p) \cap Lineage(h, q)) # {}
Depth(h) ==
    LET RECURSIVE D(_)
        D(c) == IF Parents(h, c) = {} THEN 0
                ELSE 1 + (CHOOSE m \in {D(p) : p \in Parents(h, c)} : \A p \in Parents(h, c) : D(p) <= m)
    IN  IF h.n = 0 THEN 0 ELSE CHOOSE m \in {D(c) : c \in Ids(h)} : \A c \in Ids(h) : D(c) <= m

---------------------------------------------------------------------------------
(* Clause 1/2: ancestors = closure, descendants = inverse (as sets, and stored without repeats)  *)

AncestorsAreClosure(h, o) == LET A == AncMap(h) IN \A c \in Ids(h) : Elems(o.anc[c]) = A[c]
AncestorsNoDup(h, o) == \A c \in Ids(h) : NoDup(o.anc[c])
DescendantsAreInverse(h, o) ==
    LET A == AncMap(h) IN \A c \in Ids(h) : Elems(o.desc[c]) = {d \in Ids(h) : c \in A[d]}
DescendantsNoDup(h, o) == \A c \in Ids(h) : NoDup(o.desc[c])
ConcreteDescendantsRight(h, o) ==
    LET A == AncMap(h)
    IN  \A c \in Ids(h) : IsClass(h, c) => Elems(o.cdesc[c]) = {d \in Ids(h) : c \in A[d] /\ ~h.abstract[d]}
ConcreteDescendantsNoDup(h, o) == \A c \in Ids(h) : NoDup(o.cdesc[c])

---------------------------------------------------------------------------------
(* Clause 3: heritage.  The members of c are the own members of every class in Lineage(c), each  *)
(* exactly once, such that a member of an ancestor comes before every member of its descendant   *)
(* (hence "inherited first, own last"), and the own members of one class keep their order.        *)
(* For invariants the order "as declared" is either the textual top-down order of the decorators *)
(* or the order in which Python applies them (bottom-up): both readings are accepted, uniformly  *)
(* per observed sequence.                                                                        *)

Pairs(h, own, c) == UNION {{<<a, own[a][k]>> : k \in DOMAIN own[a]} : a \in Lineage(h, c)}
ObsPairs(s) == {<<s[k].owner, s[k].name>> : k \in DOMAIN s}
Pos(seq, x) == CHOOSE k \in DOMAIN seq : seq[k] = x

HeritageSet(h, own, obs) ==
    LET A == AncMap(h)
    IN  \A c \in Ids(h) :
            ObsPairs(obs[c]) = UNION {{<<a, own[a][k]>> : k \in DOMAIN own[a]} : a \in A[c] \cup {c}}
HeritageNoDup(h, obs) ==
    \A c \in Ids(h) : NoDup([k \in DOMAIN obs[c] |-> <<obs[c][k].owner, obs[c][k].name>>])
\* nothing that comes later belongs to a strict ancestor of the owner of something earlier
AncestorsFirst(h, obs) ==
    LET A == AncMap(h)
    IN  \A c \in Ids(h) : \A i, j \in DOMAIN obs[c] :
            (i < j /\ obs[c][i].owner \in Ids(h) /\ obs[c][j].owner \in Ids(h))
                => obs[c][j].owner \notin A[obs[c][i].owner]
OwnOrderKept(h, own, s, dir) ==
    \A i, j \in DOMAIN s :
        (i < j /\ s[i].owner = s[j].owner /\ s[i].owner \in Ids(h)
         /\ s[i].name \in Elems(own[s[i].owner]) /\ s[j].name \in Elems(own[s[i].owner]))
            => IF dir = "textual"
               THEN Pos(own[s[i].owner], s[i].name) < Pos(own[s[i].owner], s[j].name)
               ELSE Pos(own[s[i].owner], s[i].name) > Pos(own[s[i].owner], s[j].name)
OwnOrder(h, own, obs) == \A c \in Ids(h) : OwnOrderKept(h, own, obs[c], "textual")
OwnOrderEitherWay(h, own, obs) ==
    \A c \in Ids(h) : OwnOrderKept(h, own, obs[c], "textual") \/ OwnOrderKept(h, own, obs[c], "applied")

ClassOnly(h, f) == [c \in Ids(h) |-> IF IsClass(h, c) THEN f[c] ELSE <<>>]

PropertiesAreHeritage(h, o) == HeritageSet(h, ClassOnly(h, h.props), o.props) /\ HeritageNoDup(h, o.props)
PropertiesOrdered(h, o) == AncestorsFirst(h, o.props) /\ OwnOrder(h, h.props, o.props)
InvariantsAreHeritage(h, o) == HeritageSet(h, h.invs, o.invs) /\ HeritageNoDup(h, o.invs)
InvariantsOrdered(h, o) == AncestorsFirst(h, o.invs) /\ OwnOrderEitherWay(h, h.invs, o.invs)
MethodsAreHeritage(h, o) == HeritageSet(h, ClassOnly(h, h.methods), o.methods) /\ HeritageNoDup(h, o.methods)
MethodsOrdered(h, o) == AncestorsFirst(h, o.methods) /\ OwnOrder(h, h.methods, o.methods)

---------------------------------------------------------------------------------
(* Clause 4: the in-lined constructor assigns every property (own or inherited) exactly once and *)
(* contains no call to a super-constructor any more.                                             *)

AllPropNames(h, c) == {pr[2] : pr \in Pairs(h, ClassOnly(h, h.props), c)}
CtorAssignsEvery(h, o) ==
    LET A == AncMap(h)
    IN  \A c \in Ids(h) : IsClass(h, c) =>
            Elems(o.ctor[c]) = UNION {Elems(h.props[a]) : a \in {x \in A[c] \cup {c} : IsClass(h, x)}}
CtorAssignsAtMostOnce(h, o) == \A c \in Ids(h) : NoDup(o.ctor[c])
CtorNoSuperCalls(h, o) == \A c \in Ids(h) : o.super[c] = 0

---------------------------------------------------------------------------------
(* Clause 5: interfaces exactly for abstract classes and for concrete classes with descendants  *)

WantsInterface(h, c) == h.abstract[c] \/ Descendants(h, c) # {}
InterfacesExact(h, o) ==
    LET A == AncMap(h)
    IN  \A c \in Ids(h) : IsClass(h, c) => (o.iface[c] <=> (h.abstract[c] \/ \E d \in Ids(h) : c \in A[d]))

---------------------------------------------------------------------------------
(* Clause 6: the type order is topological: every class and constrained primitive exactly once,  *)
(* after all of its declared bases.                                                              *)

Topological(h, o) ==
    /\ Elems(o.topo) = Ids(h)
    /\ NoDup(o.topo)
    /\ \A c \in Ids(h) : \A p \in Parents(h, c) :
          (c \in Elems(o.topo) /\ p \in Elems(o.topo)) => Pos(o.topo, p) < Pos(o.topo, c)

---------------------------------------------------------------------------------
(* Clause 7: the model-type setting goes down the hierarchy: a class serializes its model type   *)
(* exactly if it or one of its ancestors declares with_model_type=True.  (A model where a class  *)
(* declares False below an ancestor with True is inconsistent and is not accepted.)              *)

DeclaresModelType(h, c) == \E a \in Lineage(h, c) : h.wmt[a] = "true"
ModelTypeDown(h, o) ==
    LET A == AncMap(h)
    IN  \A c \in Ids(h) : IsClass(h, c) => (o.wmt[c] <=> \E a \in A[c] \cup {c} : h.wmt[a] = "true")
\* the source is consistent if no class sees both a True and a False declaration in its lineage
ModelTypeConsistentSource(h) ==
    \A c \in Ids(h) : ~(\E a, b \in Lineage(h, c) : h.wmt[a] = "true" /\ h.wmt[b] = "false")

---------------------------------------------------------------------------------
(* Source-level reasons for which heritage is undefined and the front end must refuse the model *)
(* (used to state when the algorithm may reject; C05 itself only speaks about accepted models)   *)
MethodNames(h, S) == UNION {Elems(h.methods[a]) : a \in S}
MethodClash(h) ==
    \E d \in Ids(h) : IsClass(h, d) /\
        \/ \E p, q \in Parents(h, d) : p # q /\ (MethodNames(h, Lineage(h, p)) \cap MethodNames(h, Lineage(h, q))) # {}
        \/ (Elems(h.methods[d]) \cap MethodNames(h, Ancestors(h, d))) # {}

---------------------------------------------------------------------------------
(* Structural fingerprints of violations (known-findings keys are computed here, by the spec).   *)
(* A repeat in a stored sequence can have a source-level explanation:                            *)
(*   "multiple_inheritance_paths"  the repeated class is reached along >= 2 inheritance paths    *)
(*   "written_twice"               the written constructor itself assigns the property twice     *)
Repeats(s) == {s[j] : j \in {jj \in DOMAIN s : \E ii \in 1..(jj - 1) : s[ii] = s[jj]}}

RECURSIVE PathCount(_, _, _), PathSum(_, _, _, _)
PathSum(h, bs, k, a) == IF k > Len(bs) THEN 0 ELSE PathCount(h, bs[k], a) + PathSum(h, bs, k + 1, a)
\* number of inheritance paths from c up to a (only meaningful for acyclic h)
PathCount(h, c, a) == IF c = a THEN 1 ELSE PathSum(h, h.bases[c], 1, a)

OwnerOfProp(h, c, p) == {a \in Lineage(h, c) : IsClass(h, a) /\ p \in Elems(h.props[a])}
AssignCount(h, a, p) == Cardinality({k \in DOMAIN h.ctor[a] : h.ctor[a][k].t = "assign" /\ h.ctor[a][k].p = p})
WrittenTwice(h) == \E a \in Ids(h) : IsClass(h, a) /\ \E p \in Elems(h.props[a]) : AssignCount(h, a, p) >= 2

AncRepeatsByPaths(h, o) ==
    \A c \in Ids(h) : \A a \in Repeats(o.anc[c]) : a \in Ids(h) /\ PathCount(h, c, a) >= 2
DescRepeatsByPaths(h, s) ==
    \A c \in Ids(h) : \A d \in Repeats(s[c]) : d \in Ids(h) /\ PathCount(h, d, c) >= 2
CtorRepeatsByPaths(h, o) ==
    \A c \in Ids(h) : \A p \in Repeats(o.ctor[c]) : \E a \in OwnerOfProp(h, c, p) : PathCount(h, c, a) >= 2
CtorRepeatsWritten(h, o) ==
    \A c \in Ids(h) : \A p \in Repeats(o.ctor[c]) : \E a \in OwnerOfProp(h, c, p) : AssignCount(h, a, p) >= 2

Explanation(name, h, o) ==
    IF ~Acyclic(h) THEN "none"
    ELSE CASE name = "AncestorsNoDup" -> IF AncRepeatsByPaths(h, o) THEN "multiple_inheritance_paths" ELSE "none"
           [] name = "DescendantsNoDup" -> IF DescRepeatsByPaths(h, o.desc) THEN "multiple_inheritance_paths" ELSE "none"
           [] name = "ConcreteDescendantsNoDup" -> IF DescRepeatsByPaths(h, o.cdesc) THEN "multiple_inheritance_paths" ELSE "none"
           [] name = "CtorAssignsAtMostOnce" ->
                (IF CtorRepeatsWritten(h, o) THEN "written_twice"
                 ELSE IF CtorRepeatsByPaths(h, o) THEN "multiple_inheritance_paths" ELSE "none")
           [] OTHER -> "none"

---------------------------------------------------------------------------------
ClauseNames ==
    {"AncestorsAreClosure", "AncestorsNoDup", "DescendantsAreInverse", "DescendantsNoDup",
     "ConcreteDescendantsRight", "ConcreteDescendantsNoDup",
     "PropertiesAreHeritage", "PropertiesOrdered", "InvariantsAreHeritage", "InvariantsOrdered",
     "MethodsAreHeritage", "MethodsOrdered",
     "CtorAssignsEvery", "CtorAssignsAtMostOnce", "CtorNoSuperCalls",
     "InterfacesExact", "Topological", "ModelTypeDown"}

Holds(name, h, o) ==
    CASE name = "AncestorsAreClosure" -> AncestorsAreClosure(h, o)
      [] name = "AncestorsNoDup" -> AncestorsNoDup(h, o)
      [] name = "DescendantsAreInverse" -> DescendantsAreInverse(h, o)
      [] name = "DescendantsNoDup" -> DescendantsNoDup(h, o)
      [] name = "ConcreteDescendantsRight" -> ConcreteDescendantsRight(h, o)
      [] name = "ConcreteDescendantsNoDup" -> ConcreteDescendantsNoDup(h, o)
      [] name = "PropertiesAreHeritage" -> PropertiesAreHeritage(h, o)
      [] name = "PropertiesOrdered" -> PropertiesOrdered(h, o)
      [] name = "InvariantsAreHeritage" -> InvariantsAreHeritage(h, o)
      [] name = "InvariantsOrdered" -> InvariantsOrdered(h, o)
      [] name = "MethodsAreHeritage" -> MethodsAreHeritage(h, o)
      [] name = "MethodsOrdered" -> MethodsOrdered(h, o)
      [] name = "CtorAssignsEvery" -> CtorAssignsEvery(h, o)
      [] name = "CtorAssignsAtMostOnce" -> CtorAssignsAtMostOnce(h, o)
      [] name = "CtorNoSuperCalls" -> CtorNoSuperCalls(h, o)
      [] name = "InterfacesExact" -> InterfacesExact(h, o)
      [] name = "Topological" -> Topological(h, o)
      [] name = "ModelTypeDown" -> ModelTypeDown(h, o)

ViolatedClauses(h, o) == {name \in ClauseNames : ~Holds(name, h, o)}
=============================================================================
