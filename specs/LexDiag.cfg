INIT Init
NEXT Next
