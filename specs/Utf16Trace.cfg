INIT Init
NEXT Next
CONSTANTS
  BlockSize = 20
INVARIANT Inv_RewriteYieldsPattern
INVARIANT Inv_SameLanguageUtf16
INVARIANT Inv_SchemaTextSameLanguage
INVARIANT S_OriginalAgreesWithRe
INVARIANT S_Utf16AgreesWithRe
