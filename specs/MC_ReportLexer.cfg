SPECIFICATION Spec
CONSTANTS
  MaxLines = 5
INVARIANT TypeOK
INVARIANT AcceptsExactlyReports
INVARIANT FoldAgrees
INVARIANT PrefixFoldAgrees
INVARIANT BadIsTrap
INVARIANT NoSecondHeadline
