------------------------------- MODULE Lexers -------------------------------
(***************************************************************************)
(* Lexical machines of the six target languages of aas-core-codegen,       *)
(* transcribed from the language references (not from the generator):      *)
(*   py   - Python 3 (Lexical analysis 2.1-2.4: comments, string and bytes *)
(*          literals, prefixes, triple quotes, escapes, f-string braces)   *)
(*   cpp  - C++17 [lex.phases] line splicing, [lex.comment], [lex.ccon],   *)
(*          [lex.string] (narrow / wide, raw strings, greedy \x, octal<=3) *)
(*   cs   - C# 6 (ECMA-334 7.3-7.4: new-line characters, regular /        *)
(*          verbatim / interpolated strings, \x with 1..4 digits)          *)
(*   java - JLS 17 (3.3 Unicode escapes translated BEFORE lexing, 3.7      *)
(*          comments, 3.10.4-3.10.7 literals, text blocks)                 *)
(*   ts   - ECMAScript 2019+ / TypeScript (11.8.4 string literals, 11.8.6  *)
(*          templates with CR/CRLF normalisation and nested ${ }, regular  *)
(*          expression literals by the usual previous-token rule)          *)
(*   go   - Go spec (comments, rune / interpreted / raw string literals,   *)
(*          exactly-2-digit \x, exactly-3-digit octal, \u \U)              *)
(*                                                                         *)
(* Every machine is a function  Step(L, s, c)  from a state record and ONE *)
(* input unit (a code point; a UTF-16 code unit for java / cs / ts) to the *)
(* next state. The same function serves                                    *)
(*   - decoding a literal (C19):  Decode(kind, text) runs the machine over *)
(*     the literal with value accumulation switched on;                    *)
(*   - streaming a whole generated file (C20): the lexical skeleton of a   *)
(*     file (its code units, with every comment / literal replaced by one  *)
(*     token) is accumulated as a pair of rolling hashes.                  *)
(* This module is variable-free; MC_Lexers explores the machines as a      *)
(* transition system, LexTrace / LexFileTrace bind them to observations.   *)
(***************************************************************************)
EXTENDS Integers, Sequences, FiniteSets

Langs == {"py", "cpp", "cs", "java", "ts", "go"}

-----------------------------------------------------------------------------
(* Units and character classes *)

LF == 10
CR == 13
DQ == 34        \* "
SQ == 39        \* '
BSL == 92       \* \
BTK == 96       \* `
DOLLAR == 36
LBR == 123      \* {
RBR == 125      \* }
SLASH == 47
STAR == 42
HASH == 35
LPAR == 40
RPAR == 41
AT == 64

IsDigit(c) == c \in 48..57
IsOct(c) == c \in 48..55
IsHex(c) == (c \in 48..57) \/ (c \in 65..70) \/ (c \in 97..102)
HexVal(c) == IF c \in 48..57 THEN c - 48 ELSE IF c \in 65..70 THEN c - 55 ELSE c - 87
IsLetter(c) == (c \in 65..90) \/ (c \in 97..122) \/ c = 95
IdChar(c) == IsLetter(c) \/ IsDigit(c)
White(c) == c \in {32, 9, 10, 11, 12, 13}
IsSurrogate(c) == c \in 55296..57343
MaxCp == 1114111

Utf8(cp) ==
  IF cp < 128 THEN <<cp>>
  ELSE IF cp < 2048 THEN <<192 + (cp \div 64), 128 + (cp % 64)>>
  ELSE IF cp < 65536 THEN <<224 + (cp \div 4096), 128 + ((cp \div 64) % 64), 128 + (cp % 64)>>
  ELSE <<240 + (cp \div 262144), 128 + ((cp \div 4096) % 64), 128 + ((cp \div 64) % 64), 128 + (cp % 64)>>

Utf16(cp) ==
  IF cp < 65536 THEN <<cp>>
  ELSE <<55296 + ((cp - 65536) \div 1024), 56320 + ((cp - 65536) % 1024)>>

RECURSIVE Utf8Seq(_)
Utf8Seq(s) == IF s = <<>> THEN <<>> ELSE Utf8(Head(s)) \o Utf8Seq(Tail(s))
RECURSIVE Utf16Seq(_)
Utf16Seq(s) == IF s = <<>> THEN <<>> ELSE Utf16(Head(s)) \o Utf16Seq(Tail(s))

-----------------------------------------------------------------------------
(* The state record (one shape for all languages).                         *)
(*  m    mode                                                              *)
(*  q    closing quote of the literal being read                           *)
(*  sk   kind of that literal ("reg","wide","narrow","bytes","raw","verb", *)
(*       "tmpl","chr","wchr","fstr","interp","tri...")                     *)
(*  ret  mode to return to after an escape                                 *)
(*  k,n,v  escape in progress: kind, digits read, value                    *)
(*  tq   quote / delimiter counter (py triple quotes, cs verbatim, raw)    *)
(*  dl   C++ raw-string delimiter                                          *)
(*  stk,bd  stack of saved brace depths / current brace depth (ts ${ },    *)
(*       cs interpolation holes)                                           *)
(*  pfx  identifier characters immediately before the current position     *)
(*       (literal prefixes L, R, b, f, @, $ ...), saturating at 4          *)
(*  sig  last significant code unit (ts regex-vs-division rule)            *)
(*  bol  only white space so far on this line (cs / directives)            *)
(*  u1,un,uv,bs  java stage 1 (Unicode escape translation)                 *)
(*  keep  accumulate values (decoding) or not (file streaming)             *)
(*  acc  decoded units of all literal tokens so far (adjacent literals     *)
(*       concatenate, as in Python and C++)                                *)
(*  tl   units in the current character literal (saturating at 2)           *)
(*  ntok number of completed literal tokens (saturating at 1 unless keep)  *)
(*  pre  code units seen while keep (prefix check of the decoders)         *)
(*  h1,h2  rolling hashes of the lexical skeleton; tk pending token kind   *)
(*  why  reason of the error mode                                          *)

S0(keep) ==
  [m |-> "code", q |-> 0, sk |-> "", ret |-> "", k |-> "", n |-> 0, v |-> 0, tq |-> 0,
   dl |-> <<>>, stk |-> <<>>, bd |-> 0, pfx |-> <<>>, sig |-> 0, bol |-> TRUE,
   u1 |-> "", un |-> 0, uv |-> 0, bs |-> FALSE,
   keep |-> keep, acc |-> <<>>, tl |-> 0, ntok |-> 0, pre |-> <<>>,
   h1 |-> 7, h2 |-> 11, tk |-> 0, why |-> ""]

Err(s, why) == [s EXCEPT !.m = "err", !.why = why]

(* skeleton tokens: a code unit is itself; literals and comments are one token each;   *)
(* consecutive comments (and the white space between them) merge into one token.       *)
TokStr == 2000001
TokComment == 2000002
M1 == 1000003
M2 == 998244
Mix(s, t) == [s EXCEPT !.h1 = (@ * 31 + t) % M1, !.h2 = (@ * 37 + t + 1) % M2, !.tk = t]
\* a comment token is hashed once per run of comments
MixComment(s) == IF s.tk = TokComment THEN s ELSE Mix(s, TokComment)

CharKinds == {"chr", "wchr", "gorune"}
Out(s, u) == IF s.keep \/ s.sk \in CharKinds
             THEN [s EXCEPT !.acc = IF s.keep THEN Append(@, u) ELSE @, !.tl = IF s.sk \in CharKinds /\ @ < 2 THEN @ + 1 ELSE @]
             ELSE s
RECURSIVE OutSeq(_, _)
OutSeq(s, us) == IF us = <<>> THEN s ELSE OutSeq(Out(s, Head(us)), Tail(us))

\* an ordinary code unit; isPfx tells which units may form a literal prefix
CodeUnit(s, c, isPfx) ==
  IF c = 32 \/ (c >= 9 /\ c <= 13) THEN        \* white space: not part of the skeleton
      (IF s.pfx = <<>> /\ (s.bol \/ c # LF) THEN s
       ELSE [s EXCEPT !.pfx = <<>>, !.bol = (c = LF) \/ @])
  ELSE [s EXCEPT !.pfx = IF isPfx THEN (IF Len(@) < 4 THEN Append(@, c) ELSE @) ELSE <<>>,
                 !.sig = c,
                 !.pre = IF s.keep THEN Append(@, c) ELSE @,
                 !.bol = FALSE,
                 !.h1 = (@ * 31 + c) % M1, !.h2 = (@ * 37 + c + 1) % M2, !.tk = c]

OpenLit(s, mode, q, sk) ==
  [s EXCEPT !.m = mode, !.q = q, !.sk = sk, !.tl = 0, !.tq = 0, !.pfx = <<>>, !.bol = FALSE]

CloseLit(s) ==
  Mix([s EXCEPT !.m = "code", !.ntok = IF s.keep \/ @ < 1 THEN @ + 1 ELSE @, !.sig = DQ, !.sk = "", !.q = 0, !.tq = 0, !.ret = "",
                !.k = "", !.n = 0, !.v = 0, !.tl = 0], TokStr)

OpenComment(s, mode) == MixComment([s EXCEPT !.m = mode, !.pfx = <<>>])

\* the value of one raw character / of an escape inside a literal of kind sk
RawUnits(sk, c) == IF sk \in {"narrow", "gostr", "gorune"} THEN Utf8(c) ELSE <<c>>
CpUnits(sk, cp) ==
  IF sk \in {"narrow", "gostr"} THEN Utf8(cp)
  ELSE IF sk \in {"u16"} THEN Utf16(cp)
  ELSE <<cp>>

-----------------------------------------------------------------------------
(* Escapes shared by the C family: after the backslash.                      *)
SimpleEsc(c) ==   \* a b f n r t v
  CASE c = 97 -> 7 [] c = 98 -> 8 [] c = 102 -> 12 [] c = 110 -> 10
    [] c = 114 -> 13 [] c = 116 -> 9 [] c = 118 -> 11 [] OTHER -> -1

StartNum(s, kind, n, v) == [s EXCEPT !.m = "escn", !.k = kind, !.n = n, !.v = v]

-----------------------------------------------------------------------------
(* C++ *)
CppStrKind(pfx) ==
  IF pfx = <<>> THEN "narrow"
  ELSE IF pfx = <<76>> THEN "wide"                              \* L
  ELSE IF pfx \in {<<117, 56>>} THEN "narrow"                   \* u8
  ELSE IF pfx \in {<<117>>, <<85>>} THEN "wide"                 \* u U
  ELSE "narrow"
CppIsRawPfx(pfx) == pfx \in {<<82>>, <<76, 82>>, <<117, 82>>, <<85, 82>>, <<117, 56, 82>>}

RECURSIVE CppStep(_, _)
CppStep(s, c) ==
  CASE s.m = "code" ->
        (IF c = SLASH THEN [s EXCEPT !.m = "slash"]
         ELSE IF c = DQ THEN
                (IF CppIsRawPfx(s.pfx) THEN [OpenLit(s, "rawd", DQ, "raw") EXCEPT !.dl = <<>>]
                 ELSE OpenLit(s, "str", DQ, CppStrKind(s.pfx)))
         ELSE IF c = SQ THEN
                (IF s.pfx # <<>> /\ IsDigit(s.pfx[Len(s.pfx)]) THEN CodeUnit(s, c, FALSE)   \* digit separator
                 ELSE OpenLit(s, "str", SQ, IF s.pfx = <<76>> THEN "wchr" ELSE "chr"))
         ELSE CodeUnit(s, c, IdChar(c)))
    [] s.m = "slash" ->
        (IF c = SLASH THEN OpenComment(s, "lc")
         ELSE IF c = STAR THEN OpenComment(s, "bc")
         ELSE CppStep(CodeUnit([s EXCEPT !.m = "code"], SLASH, FALSE), c))
    [] s.m = "lc" -> (IF c = LF THEN [s EXCEPT !.m = "code", !.bol = TRUE]
                      ELSE IF c = BSL THEN [s EXCEPT !.m = "lcb"] ELSE s)
    [] s.m = "lcb" -> (IF c = LF THEN [s EXCEPT !.m = "lc"]          \* spliced: the comment goes on
                       ELSE IF c = CR \/ c = BSL THEN s ELSE [s EXCEPT !.m = "lc"])
    [] s.m = "bc" -> (IF c = STAR THEN [s EXCEPT !.m = "bcs"] ELSE s)
    [] s.m = "bcs" -> (IF c = SLASH THEN [s EXCEPT !.m = "code"]
                       ELSE IF c = STAR THEN s ELSE [s EXCEPT !.m = "bc"])
    [] s.m = "str" ->
        (IF c = s.q THEN
            (IF s.sk \in {"chr", "wchr"} /\ s.tl # 1 THEN Err(s, "character literal must hold one character")
             ELSE CloseLit(s))
         ELSE IF c = BSL THEN [s EXCEPT !.m = "esc"]
         ELSE IF c = LF THEN Err(s, "newline in literal")
         ELSE OutSeq(s, RawUnits(IF s.sk = "chr" THEN "narrow" ELSE s.sk, c)))
    [] s.m = "esc" ->
        (IF SimpleEsc(c) >= 0 THEN Out([s EXCEPT !.m = "str"], SimpleEsc(c))
         ELSE IF c \in {BSL, SQ, DQ, 63} THEN Out([s EXCEPT !.m = "str"], c)
         ELSE IF c = 120 THEN StartNum(s, "x", 0, 0)
         ELSE IF IsOct(c) THEN StartNum(s, "o", 1, c - 48)
         ELSE IF c = 117 THEN StartNum(s, "u", 0, 0)
         ELSE IF c = 85 THEN StartNum(s, "U", 0, 0)
         ELSE IF c = LF THEN [s EXCEPT !.m = "str"]                  \* line splice
         ELSE Err(s, "unknown escape sequence"))
    [] s.m = "escn" ->
        (IF s.k = "x" THEN
            (IF IsHex(c) THEN
                (IF s.n >= 7 THEN Err(s, "hex escape sequence out of range")
                 ELSE LET v == s.v * 16 + HexVal(c) IN
                      IF s.sk \in {"narrow", "chr"} /\ v > 255 THEN Err(s, "hex escape sequence out of range")
                      ELSE [s EXCEPT !.n = @ + 1, !.v = v])
             ELSE IF s.n = 0 THEN Err(s, "\\x used with no following hex digits")
             ELSE CppStep(Out([s EXCEPT !.m = "str"], s.v), c))
         ELSE IF s.k = "o" THEN
            (IF IsOct(c) /\ s.n < 3 THEN
                (LET v == s.v * 8 + (c - 48) IN
                 IF s.sk \in {"narrow", "chr"} /\ v > 255 THEN Err(s, "octal escape sequence out of range")
                 ELSE [s EXCEPT !.n = @ + 1, !.v = v])
             ELSE CppStep(Out([s EXCEPT !.m = "str"], s.v), c))
         ELSE \* u (4 digits) / U (8 digits): universal character names
            (IF ~IsHex(c) THEN Err(s, "incomplete universal character name")
             ELSE LET v == s.v * 16 + HexVal(c)
                      n == s.n + 1
                      want == IF s.k = "u" THEN 4 ELSE 8 IN
                  IF v > MaxCp THEN Err(s, "universal character name out of range")
                  ELSE IF n < want THEN [s EXCEPT !.n = n, !.v = v]
                  ELSE IF IsSurrogate(v) THEN Err(s, "universal character name is a surrogate")
                  ELSE OutSeq([s EXCEPT !.m = "str"], CpUnits(IF s.sk = "chr" THEN "narrow" ELSE s.sk, v))))
    [] s.m = "rawd" ->
        (IF c = LPAR THEN [s EXCEPT !.m = "raw"]
         ELSE IF c \in {32, RPAR, BSL, DQ, LF} \/ Len(s.dl) >= 16 THEN Err(s, "invalid raw string delimiter")
         ELSE [s EXCEPT !.dl = Append(@, c)])
    [] s.m = "raw" -> (IF c = RPAR THEN [s EXCEPT !.m = "rawe", !.tq = 0] ELSE Out(s, c))
    [] s.m = "rawe" ->
        (IF s.tq = Len(s.dl) /\ c = DQ THEN CloseLit(s)
         ELSE IF s.tq < Len(s.dl) /\ c = s.dl[s.tq + 1] THEN [s EXCEPT !.tq = @ + 1]
         ELSE CppStep(OutSeq([s EXCEPT !.m = "raw", !.tq = 0], <<RPAR>> \o SubSeq(s.dl, 1, s.tq)), c))

-----------------------------------------------------------------------------
(* Go *)
RECURSIVE GoStep(_, _)
GoStep(s, c) ==
  CASE s.m = "code" ->
        (IF c = SLASH THEN [s EXCEPT !.m = "slash"]
         ELSE IF c = DQ THEN OpenLit(s, "str", DQ, "gostr")
         ELSE IF c = SQ THEN OpenLit(s, "str", SQ, "gorune")
         ELSE IF c = BTK THEN OpenLit(s, "raw", BTK, "gostr")
         ELSE CodeUnit(s, c, FALSE))
    [] s.m = "slash" ->
        (IF c = SLASH THEN OpenComment(s, "lc")
         ELSE IF c = STAR THEN OpenComment(s, "bc")
         ELSE GoStep(CodeUnit([s EXCEPT !.m = "code"], SLASH, FALSE), c))
    [] s.m = "lc" -> (IF c = LF THEN [s EXCEPT !.m = "code", !.bol = TRUE] ELSE s)
    [] s.m = "bc" -> (IF c = STAR THEN [s EXCEPT !.m = "bcs"] ELSE s)
    [] s.m = "bcs" -> (IF c = SLASH THEN [s EXCEPT !.m = "code"] ELSE IF c = STAR THEN s ELSE [s EXCEPT !.m = "bc"])
    [] s.m = "raw" -> (IF c = BTK THEN CloseLit(s) ELSE IF c = CR THEN s ELSE OutSeq(s, Utf8(c)))
    [] s.m = "str" ->
        (IF c = s.q THEN
            (IF s.sk = "gorune" /\ s.tl # 1 THEN Err(s, "rune literal must hold one character") ELSE CloseLit(s))
         ELSE IF c = BSL THEN [s EXCEPT !.m = "esc"]
         ELSE IF c = LF THEN Err(s, "newline in string")
         ELSE IF c = 0 THEN Err(s, "NUL in source")
         ELSE IF IsSurrogate(c) \/ c > MaxCp THEN Err(s, "source is not valid UTF-8")
         ELSE IF s.sk = "gorune" THEN Out(s, c) ELSE OutSeq(s, Utf8(c)))
    [] s.m = "esc" ->
        (IF SimpleEsc(c) >= 0 THEN Out([s EXCEPT !.m = "str"], SimpleEsc(c))
         ELSE IF c = BSL THEN Out([s EXCEPT !.m = "str"], c)
         ELSE IF c = DQ /\ s.q = DQ THEN Out([s EXCEPT !.m = "str"], c)
         ELSE IF c = SQ /\ s.q = SQ THEN Out([s EXCEPT !.m = "str"], c)
         ELSE IF c = 120 THEN StartNum(s, "x", 0, 0)
         ELSE IF IsOct(c) THEN StartNum(s, "o", 1, c - 48)
         ELSE IF c = 117 THEN StartNum(s, "u", 0, 0)
         ELSE IF c = 85 THEN StartNum(s, "U", 0, 0)
         ELSE Err(s, "unknown escape sequence"))
    [] s.m = "escn" ->
        (LET want == (CASE s.k = "x" -> 2 [] s.k = "o" -> 3 [] s.k = "u" -> 4 [] OTHER -> 8)
             isd == IF s.k = "o" THEN IsOct(c) ELSE IsHex(c)
             v == s.v * (IF s.k = "o" THEN 8 ELSE 16) + (IF s.k = "o" THEN c - 48 ELSE HexVal(c))
             n == s.n + 1 IN
         IF ~isd THEN Err(s, IF s.k = "x" THEN "\\x needs exactly two hex digits"
                             ELSE IF s.k = "o" THEN "octal escape needs exactly three digits"
                             ELSE "\\u / \\U escape is too short")
         ELSE IF v > MaxCp THEN Err(s, "escape is an invalid Unicode code point")
         ELSE IF n < want THEN [s EXCEPT !.n = n, !.v = v]
         ELSE IF s.k \in {"x", "o"} THEN
                (IF v > 255 THEN Err(s, "octal escape value > 255") ELSE Out([s EXCEPT !.m = "str"], v))
         ELSE IF IsSurrogate(v) THEN Err(s, "escape is an invalid Unicode code point")
         ELSE IF s.sk = "gorune" THEN Out([s EXCEPT !.m = "str"], v)
         ELSE OutSeq([s EXCEPT !.m = "str"], Utf8(v)))

-----------------------------------------------------------------------------
(* C# *)
CsNewline(c) == c \in {10, 13, 133, 8232, 8233}
CsPfxChar(c) == c = AT \/ c = DOLLAR

\* a "{" or "}" inside an interpolated string / its hole
RECURSIVE CsStep(_, _)
CsStep(s, c) ==
  CASE s.m = "code" ->
        (IF c = SLASH THEN [s EXCEPT !.m = "slash"]
         ELSE IF c = HASH /\ s.bol THEN OpenComment(s, "lc")      \* pre-processing directive: to end of line
         ELSE IF c = DQ THEN
                (LET verb == AT \in {s.pfx[i] : i \in 1..Len(s.pfx)}
                     intp == DOLLAR \in {s.pfx[i] : i \in 1..Len(s.pfx)}
                 IN OpenLit(s, IF verb THEN "vstr" ELSE "str", DQ,
                            IF intp THEN "interp" ELSE IF verb THEN "verb" ELSE "u16"))
         ELSE IF c = SQ THEN OpenLit(s, "str", SQ, "chr")
         ELSE IF c = LBR /\ s.stk # <<>> THEN [CodeUnit(s, c, FALSE) EXCEPT !.bd = @ + 1]
         ELSE IF c = RBR /\ s.stk # <<>> THEN
                (IF s.bd > 0 THEN [CodeUnit(s, c, FALSE) EXCEPT !.bd = @ - 1]
                 ELSE \* the hole ends: back into the interpolated string
                   [s EXCEPT !.m = IF s.stk[Len(s.stk)][2] = 1 THEN "vstr" ELSE "str", !.q = DQ, !.sk = "interp",
                             !.bd = s.stk[Len(s.stk)][1], !.stk = SubSeq(@, 1, Len(@) - 1), !.pfx = <<>>])
         ELSE CodeUnit(s, c, CsPfxChar(c)))
    [] s.m = "slash" ->
        (IF c = SLASH THEN OpenComment(s, "lc")
         ELSE IF c = STAR THEN OpenComment(s, "bc")
         ELSE CsStep(CodeUnit([s EXCEPT !.m = "code"], SLASH, FALSE), c))
    [] s.m = "lc" -> (IF CsNewline(c) THEN [s EXCEPT !.m = "code", !.bol = TRUE] ELSE s)
    [] s.m = "bc" -> (IF c = STAR THEN [s EXCEPT !.m = "bcs"] ELSE s)
    [] s.m = "bcs" -> (IF c = SLASH THEN [s EXCEPT !.m = "code"] ELSE IF c = STAR THEN s ELSE [s EXCEPT !.m = "bc"])
    [] s.m = "str" ->
        (IF c = s.q THEN
            (IF s.sk = "chr" /\ s.tl # 1 THEN Err(s, "character literal must hold one character") ELSE CloseLit(s))
         ELSE IF c = BSL THEN [s EXCEPT !.m = "esc", !.ret = "str"]
         ELSE IF CsNewline(c) THEN Err(s, "new-line character in a regular string literal")
         ELSE IF s.sk = "interp" /\ c = LBR THEN [s EXCEPT !.m = "ibr", !.ret = "str"]
         ELSE IF s.sk = "interp" /\ c = RBR THEN [s EXCEPT !.m = "ibc", !.ret = "str"]
         ELSE Out(s, c))
    [] s.m = "vstr" ->
        (IF c = DQ THEN [s EXCEPT !.m = "vq"]
         ELSE IF s.sk = "interp" /\ c = LBR THEN [s EXCEPT !.m = "ibr", !.ret = "vstr"]
         ELSE IF s.sk = "interp" /\ c = RBR THEN [s EXCEPT !.m = "ibc", !.ret = "vstr"]
         ELSE Out(s, c))
    [] s.m = "vq" ->       \* a quote inside a verbatim string: "" is a quote, otherwise the literal is over
        (IF c = DQ THEN Out([s EXCEPT !.m = "vstr"], DQ)
         ELSE CsStep(CloseLit(s), c))
    [] s.m = "ibr" ->      \* "{" in an interpolated string: "{{" is a brace, otherwise a hole opens
        (IF c = LBR THEN Out([s EXCEPT !.m = s.ret], LBR)
         ELSE IF s.keep THEN Err(s, "interpolation hole: not a constant")
         ELSE CsStep([s EXCEPT !.m = "code", !.q = 0, !.sk = "", !.ret = "", !.stk = Append(@, <<s.bd, IF s.ret = "vstr" THEN 1 ELSE 0>>), !.bd = 0, !.pfx = <<>>], c))
    [] s.m = "ibc" ->
        (IF c = RBR THEN Out([s EXCEPT !.m = s.ret], RBR) ELSE Err(s, "single closing brace in an interpolated string"))
    [] s.m = "esc" ->
        (IF SimpleEsc(c) >= 0 THEN Out([s EXCEPT !.m = "str"], SimpleEsc(c))
         ELSE IF c \in {BSL, SQ, DQ} THEN Out([s EXCEPT !.m = "str"], c)
         ELSE IF c = 48 THEN Out([s EXCEPT !.m = "str"], 0)
         ELSE IF c = 120 THEN StartNum(s, "x", 0, 0)
         ELSE IF c = 117 THEN StartNum(s, "u", 0, 0)
         ELSE IF c = 85 THEN StartNum(s, "U", 0, 0)
         ELSE Err(s, "unrecognized escape sequence"))
    [] s.m = "escn" ->
        (IF s.k = "x" THEN        \* one to four hex digits, greedy
            (IF IsHex(c) /\ s.n < 4 THEN
                (LET v == s.v * 16 + HexVal(c) IN
                 IF s.n = 3 THEN Out([s EXCEPT !.m = "str"], v) ELSE [s EXCEPT !.n = @ + 1, !.v = v])
             ELSE IF s.n = 0 THEN Err(s, "\\x needs at least one hex digit")
             ELSE CsStep(Out([s EXCEPT !.m = "str"], s.v), c))
         ELSE
            (IF ~IsHex(c) THEN Err(s, "unicode escape is too short")
             ELSE LET v == s.v * 16 + HexVal(c)
                      n == s.n + 1
                      want == IF s.k = "u" THEN 4 ELSE 8 IN
                  IF v > MaxCp THEN Err(s, "\\U escape out of range")
                  ELSE IF n < want THEN [s EXCEPT !.n = n, !.v = v]
                  ELSE OutSeq([s EXCEPT !.m = "str"], Utf16(v))))

-----------------------------------------------------------------------------
(* TypeScript / JavaScript *)
JsLineTerm(c) == c \in {10, 13, 8232, 8233}
\* after these units (or at the start) a "/" starts a regular expression literal
JsRegexMayFollow(sig) == sig = 0 \/ sig \in {40, 44, 61, 58, 91, 33, 38, 124, 63, 123, 125, 59, 43, 45, 42, 37, 60, 62, 126, 94}

RECURSIVE TsStep(_, _)
TsStep(s, c) ==
  CASE s.m = "code" ->
        (IF c = SLASH THEN [s EXCEPT !.m = "slash"]
         ELSE IF c = DQ \/ c = SQ THEN OpenLit(s, "str", c, "u16")
         ELSE IF c = BTK THEN OpenLit(s, "tmpl", BTK, "tmpl")
         ELSE IF c = LBR /\ s.stk # <<>> THEN [CodeUnit(s, c, FALSE) EXCEPT !.bd = @ + 1]
         ELSE IF c = RBR /\ s.stk # <<>> THEN
                (IF s.bd > 0 THEN [CodeUnit(s, c, FALSE) EXCEPT !.bd = @ - 1]
                 ELSE [s EXCEPT !.m = "tmpl", !.q = BTK, !.sk = "tmpl", !.bd = s.stk[Len(s.stk)][1],
                                !.stk = SubSeq(@, 1, Len(@) - 1), !.pfx = <<>>])
         ELSE CodeUnit(s, c, FALSE))
    [] s.m = "slash" ->
        (IF c = SLASH THEN OpenComment(s, "lc")
         ELSE IF c = STAR THEN OpenComment(s, "bc")
         ELSE IF JsRegexMayFollow(s.sig) THEN TsStep(OpenLit(s, "rx", SLASH, "rx"), c)
         ELSE TsStep(CodeUnit([s EXCEPT !.m = "code"], SLASH, FALSE), c))
    [] s.m = "lc" -> (IF JsLineTerm(c) THEN [s EXCEPT !.m = "code", !.bol = TRUE] ELSE s)
    [] s.m = "bc" -> (IF c = STAR THEN [s EXCEPT !.m = "bcs"] ELSE s)
    [] s.m = "bcs" -> (IF c = SLASH THEN [s EXCEPT !.m = "code"] ELSE IF c = STAR THEN s ELSE [s EXCEPT !.m = "bc"])
    [] s.m = "rx" -> (IF c = SLASH THEN CloseLit(s) ELSE IF c = BSL THEN [s EXCEPT !.m = "rxe", !.ret = "rx"]
                      ELSE IF c = 91 THEN [s EXCEPT !.m = "rxc"]
                      ELSE IF JsLineTerm(c) THEN Err(s, "line terminator in a regular expression literal") ELSE s)
    [] s.m = "rxc" -> (IF c = 93 THEN [s EXCEPT !.m = "rx"] ELSE IF c = BSL THEN [s EXCEPT !.m = "rxe", !.ret = "rxc"]
                       ELSE IF JsLineTerm(c) THEN Err(s, "line terminator in a regular expression literal") ELSE s)
    [] s.m = "rxe" -> (IF JsLineTerm(c) THEN Err(s, "line terminator in a regular expression literal") ELSE [s EXCEPT !.m = s.ret])
    [] s.m = "str" ->
        (IF s.tq = 1 /\ c = LF THEN [s EXCEPT !.tq = 0]               \* LF of a CR LF line continuation
         ELSE LET t == [s EXCEPT !.tq = 0] IN
         IF c = t.q THEN CloseLit(t)
         ELSE IF c = BSL THEN [t EXCEPT !.m = "esc", !.ret = "str"]
         ELSE IF c = LF \/ c = CR THEN Err(t, "line terminator in a string literal")
         ELSE Out(t, c))
    [] s.m = "tmpl" ->
        (IF s.tq = 1 /\ c = LF THEN [s EXCEPT !.tq = 0]               \* CR LF was already cooked to LF
         ELSE LET t == [s EXCEPT !.tq = 0] IN
         IF c = BTK THEN CloseLit(t)
         ELSE IF c = BSL THEN [t EXCEPT !.m = "esc", !.ret = "tmpl"]
         ELSE IF c = DOLLAR THEN [t EXCEPT !.m = "tdl"]
         ELSE IF c = CR THEN Out([t EXCEPT !.tq = 1], LF)
         ELSE Out(t, c))
    [] s.m = "tdl" ->
        (IF c = LBR THEN
            (IF s.keep THEN Err(s, "template substitution: not a constant")
             ELSE [s EXCEPT !.m = "code", !.q = 0, !.sk = "", !.stk = Append(@, <<s.bd, 0>>), !.bd = 0, !.pfx = <<>>, !.sig = 0])
         ELSE TsStep(Out([s EXCEPT !.m = "tmpl"], DOLLAR), c))
    [] s.m = "esc" ->
        (IF SimpleEsc(c) >= 0 /\ c # 97 THEN Out([s EXCEPT !.m = s.ret], SimpleEsc(c))
         ELSE IF c = 48 THEN [s EXCEPT !.m = "escz"]
         ELSE IF c \in 49..57 THEN Err(s, "octal / \\8 \\9 escape is not allowed")
         ELSE IF c = 120 THEN StartNum(s, "x", 0, 0)
         ELSE IF c = 117 THEN StartNum(s, "u", 0, 0)
         ELSE IF c = CR THEN [s EXCEPT !.m = s.ret, !.tq = 1]        \* line continuation
         ELSE IF JsLineTerm(c) THEN [s EXCEPT !.m = s.ret]
         ELSE Out([s EXCEPT !.m = s.ret], c))                         \* NonEscapeCharacter stands for itself
    [] s.m = "escz" ->     \* \0 must not be followed by a decimal digit
        (IF IsDigit(c) THEN Err(s, "octal escape is not allowed")
         ELSE TsStep(Out([s EXCEPT !.m = s.ret], 0), c))
    [] s.m = "escn" ->
        (IF s.k = "x" THEN
            (IF ~IsHex(c) THEN Err(s, "\\x needs exactly two hex digits")
             ELSE IF s.n = 1 THEN Out([s EXCEPT !.m = s.ret], s.v * 16 + HexVal(c))
             ELSE [s EXCEPT !.n = 1, !.v = HexVal(c)])
         ELSE IF s.k = "u" THEN
            (IF c = LBR /\ s.n = 0 THEN [s EXCEPT !.k = "ub"]
             ELSE IF ~IsHex(c) THEN Err(s, "\\u needs four hex digits")
             ELSE IF s.n = 3 THEN Out([s EXCEPT !.m = s.ret], s.v * 16 + HexVal(c))
             ELSE [s EXCEPT !.n = @ + 1, !.v = s.v * 16 + HexVal(c)])
         ELSE \* \u{ H+ }
            (IF c = RBR THEN (IF s.n = 0 THEN Err(s, "empty \\u{}") ELSE OutSeq([s EXCEPT !.m = s.ret], Utf16(s.v)))
             ELSE IF ~IsHex(c) THEN Err(s, "bad digit in \\u{}")
             ELSE LET v == s.v * 16 + HexVal(c) IN
                  IF v > MaxCp THEN Err(s, "\\u{} out of range") ELSE [s EXCEPT !.n = 1, !.v = v]))

-----------------------------------------------------------------------------
(* Java: stage 2 works on the units that stage 1 (Unicode escapes) delivers. *)
RECURSIVE Java2(_, _)
Java2(s, c) ==
  CASE s.m = "code" ->
        (IF c = SLASH THEN [s EXCEPT !.m = "slash"]
         ELSE IF c = DQ THEN OpenLit(s, "q1", DQ, "u16")
         ELSE IF c = SQ THEN OpenLit(s, "str", SQ, "chr")
         ELSE CodeUnit(s, c, FALSE))
    [] s.m = "slash" ->
        (IF c = SLASH THEN OpenComment(s, "lc")
         ELSE IF c = STAR THEN OpenComment(s, "bc")
         ELSE Java2(CodeUnit([s EXCEPT !.m = "code"], SLASH, FALSE), c))
    [] s.m = "lc" -> (IF c = LF \/ c = CR THEN [s EXCEPT !.m = "code", !.bol = TRUE] ELSE s)
    [] s.m = "bc" -> (IF c = STAR THEN [s EXCEPT !.m = "bcs"] ELSE s)
    [] s.m = "bcs" -> (IF c = SLASH THEN [s EXCEPT !.m = "code"] ELSE IF c = STAR THEN s ELSE [s EXCEPT !.m = "bc"])
    [] s.m = "q1" ->       \* after one ": an empty string, a text block, or the body
        (IF c = DQ THEN [s EXCEPT !.m = "q2"] ELSE Java2([s EXCEPT !.m = "str"], c))
    [] s.m = "q2" ->
        (IF c = DQ THEN (IF s.keep THEN Err(s, "text block: not decoded here") ELSE [s EXCEPT !.m = "tb", !.tq = 0])
         ELSE Java2(CloseLit(s), c))
    [] s.m = "tb" ->
        (IF c = DQ THEN (IF s.tq = 2 THEN CloseLit(s) ELSE [s EXCEPT !.tq = @ + 1])
         ELSE IF c = BSL THEN [s EXCEPT !.m = "tbe", !.tq = 0] ELSE [s EXCEPT !.tq = 0])
    [] s.m = "tbe" -> [s EXCEPT !.m = "tb"]
    [] s.m = "str" ->
        (IF c = s.q THEN
            (IF s.sk = "chr" /\ s.tl # 1 THEN Err(s, "character literal must hold one character") ELSE CloseLit(s))
         ELSE IF c = BSL THEN [s EXCEPT !.m = "esc"]
         ELSE IF c = LF \/ c = CR THEN Err(s, "line terminator in a string literal")
         ELSE Out(s, c))
    [] s.m = "esc" ->
        (IF c = 98 THEN Out([s EXCEPT !.m = "str"], 8)
         ELSE IF c = 115 THEN Out([s EXCEPT !.m = "str"], 32)
         ELSE IF c = 116 THEN Out([s EXCEPT !.m = "str"], 9)
         ELSE IF c = 110 THEN Out([s EXCEPT !.m = "str"], 10)
         ELSE IF c = 102 THEN Out([s EXCEPT !.m = "str"], 12)
         ELSE IF c = 114 THEN Out([s EXCEPT !.m = "str"], 13)
         ELSE IF c \in {DQ, SQ, BSL} THEN Out([s EXCEPT !.m = "str"], c)
         ELSE IF IsOct(c) THEN [s EXCEPT !.m = "escn", !.k = IF c <= 51 THEN "o3" ELSE "o2", !.n = 1, !.v = c - 48]
         ELSE Err(s, "illegal escape character"))
    [] s.m = "escn" ->     \* OctalEscape: [0-3]?[0-7]?[0-7]
        (IF IsOct(c) /\ s.n < (IF s.k = "o3" THEN 3 ELSE 2) THEN [s EXCEPT !.n = @ + 1, !.v = @ * 8 + (c - 48)]
         ELSE Java2(Out([s EXCEPT !.m = "str"], s.v), c))

(* Stage 1 (JLS 3.3): a backslash preceded by an even number of backslashes, followed by  *)
(* one or more u and four hex digits, is replaced by that UTF-16 unit before lexing.      *)
JavaStep(s, c) ==
  IF s.u1 = "" THEN
      (IF c = BSL THEN
          (IF s.bs THEN Java2([s EXCEPT !.bs = FALSE], c)           \* odd: not eligible
           ELSE [s EXCEPT !.u1 = "b", !.bs = TRUE])                  \* eligible: hold it
       ELSE Java2([s EXCEPT !.bs = FALSE], c))
  ELSE IF s.u1 = "b" THEN
      (IF c = 117 THEN [s EXCEPT !.u1 = "u", !.un = 0, !.uv = 0, !.bs = FALSE]
       ELSE LET s1 == Java2([s EXCEPT !.u1 = ""], BSL) IN
            \* a second backslash is preceded by an odd number of backslashes: not eligible either
            IF s1.m = "err" THEN s1 ELSE Java2([s1 EXCEPT !.bs = FALSE], c))
  ELSE \* "u": reading u* and the four digits
      (IF c = 117 /\ s.un = 0 THEN s
       ELSE IF ~IsHex(c) THEN Err(s, "illegal unicode escape")
       ELSE IF s.un = 3 THEN Java2([s EXCEPT !.u1 = "", !.un = 0, !.uv = 0], s.uv * 16 + HexVal(c))
       ELSE [s EXCEPT !.un = @ + 1, !.uv = @ * 16 + HexVal(c)])

-----------------------------------------------------------------------------
(* Python *)
PyLower(c) == IF c \in 65..90 THEN c + 32 ELSE c
PyPfxSet(pfx) == {PyLower(pfx[i]) : i \in 1..Len(pfx)}
PyIsPrefix(pfx) == Len(pfx) \in 1..2 /\ PyPfxSet(pfx) \in {{114}, {117}, {98}, {102}, {98, 114}, {102, 114}}
PyKind(pfx) ==
  IF ~PyIsPrefix(pfx) THEN "reg"
  ELSE LET ps == PyPfxSet(pfx) IN
       IF ps = {98} THEN "bytes" ELSE IF ps = {98, 114} THEN "rawbytes"
       ELSE IF ps = {114} THEN "raw" ELSE IF ps = {102} THEN "fstr" ELSE IF ps = {102, 114} THEN "rawfstr" ELSE "reg"
PyIsRaw(sk) == sk \in {"raw", "rawbytes", "rawfstr"}
PyIsBytes(sk) == sk \in {"bytes", "rawbytes"}
PyIsF(sk) == sk \in {"fstr", "rawfstr"}

\* the pending quotes of a triple-quoted body that turned out to be content
PyFlush(s) == IF s.tq = 0 THEN s ELSE OutSeq([s EXCEPT !.tq = 0], [i \in 1..s.tq |-> s.q])

RECURSIVE PyStep(_, _)
\* one content character of a string body (mode str1 or tri, quotes handled by the caller)
PyBody(s, c) ==
  IF c = BSL THEN [s EXCEPT !.ret = s.m, !.m = "esc"]
  ELSE IF PyIsBytes(s.sk) /\ c > 127 THEN Err(s, "bytes can only contain ASCII literal characters")
  ELSE IF PyIsF(s.sk) /\ s.keep /\ c = LBR THEN [s EXCEPT !.ret = s.m, !.m = "fbo"]
  ELSE IF PyIsF(s.sk) /\ s.keep /\ c = RBR THEN [s EXCEPT !.ret = s.m, !.m = "fbc"]
  ELSE Out(s, c)

PyStep(s, c) ==
  IF c = 0 THEN Err(s, "source code cannot contain null bytes")
  ELSE
  CASE s.m = "code" ->
        (IF c = HASH THEN OpenComment(s, "lc")
         ELSE IF c = DQ \/ c = SQ THEN [OpenLit(s, "qo", c, PyKind(s.pfx)) EXCEPT !.tq = 1]
         ELSE CodeUnit(s, c, IdChar(c)))
    [] s.m = "lc" -> (IF c = LF \/ c = CR THEN [s EXCEPT !.m = "code", !.bol = TRUE] ELSE s)
    [] s.m = "qo" ->
        (IF s.tq = 1 THEN (IF c = s.q THEN [s EXCEPT !.tq = 2] ELSE PyStep([s EXCEPT !.m = "str", !.tq = 0], c))
         ELSE (IF c = s.q THEN [s EXCEPT !.m = "tri", !.tq = 0]                  \* three quotes: a triple-quoted body
               ELSE PyStep(CloseLit(s), c)))                                     \* two quotes: the empty string
    [] s.m = "str" ->
        (IF c = s.q THEN CloseLit(s)
         ELSE IF c = LF \/ c = CR THEN Err(s, "EOL while scanning string literal")
         ELSE PyBody(s, c))
    [] s.m = "tri" ->
        (IF c = s.q THEN (IF s.tq = 2 THEN CloseLit(s) ELSE [s EXCEPT !.tq = @ + 1])
         ELSE PyBody(PyFlush(s), c))
    [] s.m = "fbo" -> (IF c = LBR THEN Out([s EXCEPT !.m = s.ret], LBR) ELSE Err(s, "replacement field: not a constant"))
    [] s.m = "fbc" -> (IF c = RBR THEN Out([s EXCEPT !.m = s.ret], RBR) ELSE Err(s, "single '}' is not allowed"))
    [] s.m = "esc" ->
        (LET b == [s EXCEPT !.m = s.ret] IN
         IF PyIsRaw(s.sk) THEN Out(Out(b, BSL), c)
         ELSE IF c = LF THEN b
         ELSE IF SimpleEsc(c) >= 0 THEN Out(b, SimpleEsc(c))
         ELSE IF c \in {BSL, SQ, DQ} THEN Out(b, c)
         ELSE IF IsOct(c) THEN StartNum(s, "o", 1, c - 48)
         ELSE IF c = 120 THEN StartNum(s, "x", 0, 0)
         ELSE IF c = 117 /\ ~PyIsBytes(s.sk) THEN StartNum(s, "u", 0, 0)
         ELSE IF c = 85 /\ ~PyIsBytes(s.sk) THEN StartNum(s, "U", 0, 0)
         ELSE IF c = 78 /\ ~PyIsBytes(s.sk) THEN Err(s, "\\N{...}: not decoded here")
         ELSE PyStep(Out(b, BSL), c))                                            \* unknown escape: the backslash stays
    [] s.m = "escn" ->
        (IF s.k = "o" THEN
            (IF IsOct(c) /\ s.n < 3 THEN [s EXCEPT !.n = @ + 1, !.v = @ * 8 + (c - 48)]
             ELSE IF PyIsBytes(s.sk) /\ s.v > 255 THEN Err(s, "octal escape out of range for bytes")
             ELSE PyStep(Out([s EXCEPT !.m = s.ret], s.v), c))
         ELSE LET want == (CASE s.k = "x" -> 2 [] s.k = "u" -> 4 [] OTHER -> 8) IN
            (IF ~IsHex(c) THEN Err(s, "truncated \\x / \\u / \\U escape")
             ELSE LET v == s.v * 16 + HexVal(c)
                      n == s.n + 1 IN
                  IF v > MaxCp THEN Err(s, "illegal Unicode character")
                  ELSE IF n < want THEN [s EXCEPT !.n = n, !.v = v]
                  ELSE Out([s EXCEPT !.m = s.ret], v)))

-----------------------------------------------------------------------------
(* The machines together *)

Step(L, s, c) ==
  IF s.m = "err" THEN s
  ELSE CASE L = "py" -> PyStep(s, c)
    [] L = "cpp" -> CppStep(s, c)
    [] L = "cs" -> CsStep(s, c)
    [] L = "java" -> JavaStep(s, c)
    [] L = "ts" -> TsStep(s, c)
    [] L = "go" -> GoStep(s, c)

(* End of input: pending one-unit look-aheads are resolved, a line comment may end the file. *)
FinishMode(L, s) ==
  IF s.m = "err" THEN s
  ELSE IF s.m \in {"code"} THEN s
  ELSE IF s.m = "slash" THEN [s EXCEPT !.m = "code"]
  ELSE IF s.m \in {"lc", "lcb"} THEN [s EXCEPT !.m = "code"]
  ELSE IF s.m = "vq" THEN CloseLit(s)
  ELSE IF s.m = "q2" THEN CloseLit(s)
  ELSE IF L = "py" /\ s.m = "qo" /\ s.tq = 2 THEN CloseLit(s)
  ELSE IF s.m = "escz" THEN Err(Out([s EXCEPT !.m = s.ret], 0), "unterminated literal")
  ELSE Err(s, IF s.m \in {"bc", "bcs"} THEN "unterminated comment" ELSE "unterminated literal")
Finish(L, s) ==
  IF s.m = "err" THEN s
  ELSE IF L = "java" /\ s.u1 = "u" THEN Err(s, "illegal unicode escape")
  ELSE IF L = "java" /\ s.u1 = "b" THEN FinishMode(L, Java2([s EXCEPT !.u1 = ""], BSL))
  ELSE FinishMode(L, s)

Modes == {"code", "slash", "lc", "lcb", "bc", "bcs", "str", "esc", "escn", "escz", "rawd", "raw", "rawe", "vstr", "vq",
          "ibr", "ibc", "tmpl", "tdl", "rx", "rxc", "rxe", "q1", "q2", "tb", "tbe", "qo", "tri", "fbo", "fbc", "err"}
ModesOf(L) ==
  CASE L = "py" -> {"code", "lc", "qo", "str", "tri", "fbo", "fbc", "esc", "escn", "err"}
    [] L = "cpp" -> {"code", "slash", "lc", "lcb", "bc", "bcs", "str", "esc", "escn", "rawd", "raw", "rawe", "err"}
    [] L = "cs" -> {"code", "slash", "lc", "bc", "bcs", "str", "vstr", "vq", "ibr", "ibc", "esc", "escn", "err"}
    [] L = "java" -> {"code", "slash", "lc", "bc", "bcs", "q1", "q2", "tb", "tbe", "str", "esc", "escn", "err"}
    [] L = "ts" -> {"code", "slash", "lc", "bc", "bcs", "rx", "rxc", "rxe", "str", "tmpl", "tdl", "esc", "escz", "escn", "err"}
    [] L = "go" -> {"code", "slash", "lc", "bc", "bcs", "raw", "str", "esc", "escn", "err"}
\* modes in which the machine is outside every comment and literal
CodeModes == {"code", "slash"}
InEnvelope(s) == s.m \notin CodeModes /\ s.m # "err"

RECURSIVE RunFrom(_, _, _, _, _)
RunFrom(L, s, seq, i, j) == IF i > j THEN s ELSE RunFrom(L, Step(L, s, seq[i]), seq, i + 1, j)
\* in blocks of 200 units: the depth of TLC's recursion stays small however long the text is
RECURSIVE RunBlocks(_, _, _, _)
RunBlocks(L, s, seq, i) == IF i > Len(seq) THEN s
                           ELSE RunBlocks(L, RunFrom(L, s, seq, i, IF i + 199 < Len(seq) THEN i + 199 ELSE Len(seq)), seq, i + 200)
Run(L, s, seq) == RunBlocks(L, s, seq, 1)
Lex(L, seq) == Finish(L, Run(L, S0(FALSE), seq))

-----------------------------------------------------------------------------
(* Byte-array expressions (C++ / TypeScript / Go bytes_literal): a fixed wrapper around 0xHH items. *)
RECURSIVE NoWhite(_)
NoWhite(t) == IF t = <<>> THEN <<>> ELSE IF White(Head(t)) THEN NoWhite(Tail(t)) ELSE <<Head(t)>> \o NoWhite(Tail(t))
ByteOpen(kind) ==    \* white space removed
  CASE kind = "cpp_bytes" -> <<123>>                  \* {
    [] kind = "ts_bytes" -> <<110,101,119,85,105,110,116,56,65,114,114,97,121,40,91>>      \* new Uint8Array([
    [] kind = "go_bytes" -> <<91,46,46,46,93,98,121,116,101,123>>           \* [...]byte{
ByteClose(kind) ==
  CASE kind = "cpp_bytes" -> <<125>> [] kind = "ts_bytes" -> <<93,41>> [] kind = "go_bytes" -> <<125>>
ByteEmpty(kind) ==
  CASE kind = "cpp_bytes" -> <<115,116,100,58,58,118,101,99,116,111,114,60,115,116,100,58,58,117,105,110,116,56,95,116,62,40,41>>    \* std::vector<std::uint8_t>()
    [] kind = "ts_bytes" -> <<110,101,119,85,105,110,116,56,65,114,114,97,121,40,41>>      \* new Uint8Array()
    [] kind = "go_bytes" -> <<91,46,46,46,93,98,121,116,101,123,125>>           \* [...]byte{}
\* b = 0xHH(,0xHH)* ; the value of item i or -1
ByteItem(b, i) ==
  LET o == 5 * (i - 1) IN
  IF b[o + 1] = 48 /\ b[o + 2] = 120 /\ IsHex(b[o + 3]) /\ IsHex(b[o + 4]) /\ (o + 5 > Len(b) \/ b[o + 5] = 44)
  THEN HexVal(b[o + 3]) * 16 + HexVal(b[o + 4]) ELSE -1
DecodeBytesExpr(kind, text) ==
  LET t == NoWhite(text)
      op == ByteOpen(kind)
      cl == ByteClose(kind)
      bad == [ok |-> FALSE, val |-> <<>>, why |-> "not a byte-array expression of the promised form"]
  IN IF t = ByteEmpty(kind) THEN [ok |-> TRUE, val |-> <<>>, why |-> ""]
     ELSE IF Len(t) < Len(op) + Len(cl) + 4 THEN bad
     ELSE IF SubSeq(t, 1, Len(op)) # op \/ SubSeq(t, Len(t) - Len(cl) + 1, Len(t)) # cl THEN bad
     ELSE LET b == SubSeq(t, Len(op) + 1, Len(t) - Len(cl)) IN
          IF (Len(b) + 1) % 5 # 0 THEN bad
          ELSE LET vals == [i \in 1..((Len(b) + 1) \div 5) |-> ByteItem(b, i)] IN
               IF \E i \in 1..Len(vals) : vals[i] < 0 THEN bad ELSE [ok |-> TRUE, val |-> vals, why |-> ""]
BytesExprKinds == {"cpp_bytes", "ts_bytes", "go_bytes"}

-----------------------------------------------------------------------------
(* Decoders (C19). A kind names a language and the literal form the emitter promises. *)

Kinds == {"py_str", "py_fstr", "py_bytes", "cpp_wstr", "cpp_str", "cpp_wchar", "cs_str", "java_str",
          "ts_str", "ts_tmpl", "go_str"} \cup BytesExprKinds
LangOf(kind) ==
  CASE kind \in {"py_str", "py_fstr", "py_bytes"} -> "py"
    [] kind \in {"cpp_wstr", "cpp_str", "cpp_wchar"} -> "cpp"
    [] kind = "cs_str" -> "cs"
    [] kind = "java_str" -> "java"
    [] kind \in {"ts_str", "ts_tmpl"} -> "ts"
    [] kind = "go_str" -> "go"
\* the units the language's lexer sees for a source text given as code points
SourceUnitsOfLang(L, text) == IF L \in {"java", "cs", "ts"} THEN Utf16Seq(text) ELSE text
SourceUnits(kind, text) == IF LangOf(kind) \in {"java", "cs", "ts"} THEN Utf16Seq(text) ELSE text
\* what the literal has to denote for the original value (a sequence of code points / of bytes)
Expected(kind, orig) ==
  IF kind \in {"cs_str", "java_str", "ts_str", "ts_tmpl"} THEN Utf16Seq(orig)
  ELSE IF kind \in {"cpp_str", "go_str"} THEN Utf8Seq(orig)
  ELSE orig
\* the code units around the literal token(s) must be exactly the promised prefix
PrefixOK(kind, s) ==
  CASE kind \in {"py_str", "cs_str", "java_str", "ts_str", "ts_tmpl", "go_str"} -> s.pre = <<>> /\ s.ntok = 1
    [] kind = "cpp_str" -> s.pre = <<>> /\ s.ntok >= 1                              \* adjacent literals concatenate
    [] kind = "cpp_wstr" -> s.ntok >= 1 /\ s.pre = [i \in 1..s.ntok |-> 76]
    [] kind = "py_fstr" -> s.pre = <<102>> /\ s.ntok = 1
    [] kind = "py_bytes" -> s.ntok >= 1 /\ s.pre = [i \in 1..s.ntok |-> 98]
    [] kind = "cpp_wchar" -> s.pre = <<76>> /\ s.ntok = 1

\* static_cast<wchar_t>(0xHHHH): the only non-literal form the generator uses for a wide character
CastPrefix == <<115,116,97,116,105,99,95,99,97,115,116,60,119,99,104,97,114,95,116,62,40,48,120>>
RECURSIVE HexNum(_, _, _)
HexNum(seq, i, v) == IF i > Len(seq) THEN v ELSE IF ~IsHex(seq[i]) \/ v > MaxCp THEN -1 ELSE HexNum(seq, i + 1, v * 16 + HexVal(seq[i]))
IsCast(text) == Len(text) > Len(CastPrefix) + 1 /\ SubSeq(text, 1, Len(CastPrefix)) = CastPrefix /\ text[Len(text)] = RPAR
CastValue(text) == HexNum(SubSeq(text, Len(CastPrefix) + 1, Len(text) - 1), 1, 0)

Decode(kind, text) ==
  IF kind \in BytesExprKinds THEN DecodeBytesExpr(kind, text)
  ELSE IF kind = "cpp_wchar" /\ IsCast(text) THEN
      (IF CastValue(text) >= 0 THEN [ok |-> TRUE, val |-> <<CastValue(text)>>, why |-> ""]
       ELSE [ok |-> FALSE, val |-> <<>>, why |-> "malformed static_cast"])
  ELSE
  LET L == LangOf(kind)
      s == Finish(L, Run(L, S0(TRUE), SourceUnits(kind, text)))
  IN IF s.m = "err" THEN [ok |-> FALSE, val |-> <<>>, why |-> s.why]
     ELSE IF ~PrefixOK(kind, s) THEN [ok |-> FALSE, val |-> <<>>, why |-> "not a single literal of the promised form"]
     ELSE [ok |-> TRUE, val |-> s.acc, why |-> ""]

Denotes(kind, text, orig) == LET d == Decode(kind, text) IN d.ok /\ d.val = Expected(kind, orig)

-----------------------------------------------------------------------------
(* Canonical encoders (spec-side; only used to model-check the decoders:     *)
(* Decode(kind, Canon(kind, s)) = Expected(kind, s) for every string s).     *)
HexDigit(n) == IF n < 10 THEN 48 + n ELSE 87 + n
Hex(n, width) == [i \in 1..width |-> HexDigit((n \div (16 ^ (width - i))) % 16)]
Oct3(n) == <<48 + (n \div 64), 48 + ((n \div 8) % 8), 48 + (n % 8)>>
Plain(c) == c \in 32..126 /\ c \notin {DQ, SQ, BSL, BTK, DOLLAR, LBR, RBR}

CanonUnit(kind, c) ==
  IF Plain(c) THEN <<c>>
  ELSE CASE kind \in {"py_str", "py_fstr"} ->
              (IF kind = "py_fstr" /\ c = LBR THEN <<LBR, LBR>> ELSE IF kind = "py_fstr" /\ c = RBR THEN <<RBR, RBR>>
               ELSE IF c < 256 THEN <<BSL, 120>> \o Hex(c, 2) ELSE IF c < 65536 THEN <<BSL, 117>> \o Hex(c, 4) ELSE <<BSL, 85>> \o Hex(c, 8))
         [] kind = "py_bytes" -> <<BSL, 120>> \o Hex(c, 2)
         [] kind \in {"cpp_wstr", "cpp_wchar"} ->
              (IF c < 256 THEN <<BSL>> \o Oct3(c) ELSE IF IsSurrogate(c) THEN <<BSL, 120>> \o Hex(c, 4)
               ELSE IF c < 65536 THEN <<BSL, 117>> \o Hex(c, 4) ELSE <<BSL, 85>> \o Hex(c, 8))
         [] kind = "cpp_str" -> <<BSL>> \o Oct3(c)
         [] kind = "cs_str" -> (IF c < 65536 THEN <<BSL, 117>> \o Hex(c, 4) ELSE <<BSL, 85>> \o Hex(c, 8))
         [] kind = "java_str" -> (IF c < 256 THEN <<BSL>> \o Oct3(c)      \* never \u000a, \u0022, \u005c: translated before lexing
                                  ELSE IF c < 65536 THEN <<BSL, 117>> \o Hex(c, 4)
                                  ELSE <<BSL, 117>> \o Hex(Utf16(c)[1], 4) \o <<BSL, 117>> \o Hex(Utf16(c)[2], 4))
         [] kind \in {"ts_str", "ts_tmpl"} -> <<BSL, 117, LBR>> \o Hex(c, 6) \o <<RBR>>
         [] kind = "go_str" -> (IF c < 128 THEN <<BSL, 120>> \o Hex(c, 2) ELSE IF c < 65536 THEN <<BSL, 117>> \o Hex(c, 4) ELSE <<BSL, 85>> \o Hex(c, 8))
CanonBytesExpr(kind, s) ==
  IF s = <<>> THEN ByteEmpty(kind)
  ELSE LET RECURSIVE Items(_)
           Items(t) == IF t = <<>> THEN <<>> ELSE (<<48, 120>> \o Hex(Head(t), 2) \o (IF Len(t) > 1 THEN <<44, 32>> ELSE <<>>)) \o Items(Tail(t))
       IN ByteOpen(kind) \o Items(s) \o ByteClose(kind)

(* The class alphabet of C19 (DESIGN 6): NUL U+0001 TAB LF CR " ' \ ` $ { 0 9 a f g x DEL U+0080 U+00FF *)
(* U+0100 U+2028 U+FFFF U+10000 U+1F600 and the lone surrogate U+D800.                                  *)
ClassAlphabet == {0, 1, 9, 10, 13, 34, 39, 92, 96, 36, 123, 48, 57, 97, 102, 103, 120, 127, 128, 255, 256,
                  8232, 65535, 65536, 128512, 55296}
\* the units that take part in escapes: NUL U+0001 " ' \ ` $ { 0 a x U+0080 U+00FF U+2028
SmallAlphabet == {0, 1, 34, 39, 92, 96, 36, 123, 48, 97, 120, 128, 255, 8232}

RECURSIVE CanonBody(_, _)
CanonBody(kind, s) == IF s = <<>> THEN <<>> ELSE CanonUnit(kind, Head(s)) \o CanonBody(kind, Tail(s))
Canon(kind, s) ==
  CASE kind \in BytesExprKinds -> CanonBytesExpr(kind, s)
    [] kind = "py_str" -> <<SQ>> \o CanonBody(kind, s) \o <<SQ>>
    [] kind = "py_fstr" -> <<102, DQ>> \o CanonBody(kind, s) \o <<DQ>>
    [] kind = "py_bytes" -> <<98, DQ>> \o CanonBody(kind, s) \o <<DQ>>
    [] kind = "cpp_wstr" -> <<76, DQ>> \o CanonBody(kind, s) \o <<DQ>>
    [] kind = "cpp_wchar" -> <<76, SQ>> \o CanonBody(kind, s) \o <<SQ>>
    [] kind = "ts_tmpl" -> <<BTK>> \o CanonBody(kind, s) \o <<BTK>>
    [] OTHER -> <<DQ>> \o CanonBody(kind, s) \o <<DQ>>

\* the values a kind can hold at all
InDomain(kind, s) ==
  CASE kind \in {"py_bytes"} \cup BytesExprKinds -> \A i \in 1..Len(s) : s[i] \in 0..255
    [] kind = "cpp_str" -> \A i \in 1..Len(s) : s[i] \in 0..127
    [] kind = "cpp_wchar" -> Len(s) = 1
    [] kind = "cpp_wstr" -> \A i \in 1..Len(s) : ~IsSurrogate(s[i])
    [] kind = "go_str" -> \A i \in 1..Len(s) : ~IsSurrogate(s[i])
    [] OTHER -> TRUE

-----------------------------------------------------------------------------
(* Diagnosis of a wrong literal: a structural fingerprint for the findings list. *)
CharClass(c) ==
  IF c = 0 THEN "nul" ELSE IF c < 32 THEN "control" ELSE IF IsHex(c) THEN "hexdigit"
  ELSE IF c < 127 THEN "ascii" ELSE IF c = 127 THEN "del" ELSE IF c < 256 THEN "latin1"
  ELSE IF c \in {8232, 8233, 133} THEN "linesep" ELSE IF IsSurrogate(c) THEN "surrogate"
  ELSE IF c < 65536 THEN "bmp" ELSE "astral"
RECURSIVE FirstDiff(_, _, _)
FirstDiff(a, b, i) == IF i > Len(a) \/ i > Len(b) THEN i ELSE IF a[i] # b[i] THEN i ELSE FirstDiff(a, b, i + 1)

(* The fingerprint of a wrong literal: whether it is ill-formed (and why) or denotes another value, and the   *)
(* classes of the expected unit at which things go wrong (the first unit the literal fails to deliver) and of *)
(* the unit after it - "hexdigit" there is the signature of an escape that swallows its neighbour.            *)
\* what kind of original it is: the structural fingerprint of the case
Signature(orig) ==
  IF \E i \in 1..(Len(orig) - 1) : (orig[i] \in 0..31 \/ orig[i] \in 128..254) /\ IsHex(orig[i + 1])
    THEN "control or Latin-1 character followed by a hexadecimal digit"
  ELSE IF \E i \in 1..Len(orig) : orig[i] = 0 THEN "NUL"
  ELSE IF \E i \in 1..Len(orig) : orig[i] \in {133, 8232, 8233} THEN "line separator"
  ELSE IF \E i \in 1..Len(orig) : orig[i] < 32 THEN "control character"
  ELSE "other"
Diagnose(kind, text, orig) ==
  LET d == Decode(kind, text)
      e == Expected(kind, orig)
      got == IF d.ok THEN d.val
             ELSE IF kind \in BytesExprKinds \/ (kind = "cpp_wchar" /\ IsCast(text)) THEN <<>>
             ELSE Finish(LangOf(kind), Run(LangOf(kind), S0(TRUE), SourceUnits(kind, text))).acc
      j == FirstDiff(got, e, 1)
  IN [ok |-> d.ok, why |-> d.why, val |-> d.val,
      cause |-> IF ~d.ok THEN "ill-formed" ELSE IF d.val = e THEN "none" ELSE "other value",
      at |-> IF j > Len(e) THEN "end" ELSE CharClass(e[j]),
      next |-> IF j + 1 > Len(e) THEN "end" ELSE IF IsHex(e[j + 1]) THEN "hexdigit" ELSE "other",
      sig |-> Signature(orig)]
=============================================================================
