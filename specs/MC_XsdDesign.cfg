SPECIFICATION Spec
CONSTANTS
  MaxC = 2
  MaxLen = 2
  ModelKinds = {"str", "list_str"}
  FormOps = {"<=", ">="}
  Sides = {"L"}
INVARIANT TypeOK
INVARIANT Design_ValidAccepted
INVARIANT Design_ViolationRejected
INVARIANT Design_MutationRejected
INVARIANT Design_Progress
