SPECIFICATION Spec
CONSTANTS
  Vocabulary <- VocabularyDef
  MaxParts = 4
  MaxWidth = 7
INVARIANT DoneConcat
INVARIANT DoneFits
INVARIANT DoneGlued
INVARIANT TokensRebuildText
