---------------------------- MODULE CrossSdkModels ----------------------------
(***************************************************************************************************)
(* C09 -- the meta-models, instances and documents on which the SDKs are compared.                 *)
(*                                                                                                 *)
(* A *family* is a root class of a meta-model together with the value alphabets TLC takes the      *)
(* full product of (thorough; quick: covering sub-products), and the base instances whose documents are mutated.  Alphabets sit at the      *)
(* boundaries: 0, -1, the 64-bit extremes, "", one character, non-ASCII, astral (one code point,   *)
(* two UTF-16 units), a trailing line feed; None wherever Optional; lists of length 0..2; nesting  *)
(* depth <= 2.                                                                                     *)
(*                                                                                                 *)
(* The parts (scalars, nested, cprims, constsets, pairs) are written separately and *merged* into one     *)
(* meta-model "main", because compiling a generated C++ SDK costs about a dozen translation units  *)
(* whatever its size.  Two more meta-models isolate constructs whose generated Java does not       *)
(* compile on the pinned tree: "constprims" (primitive constants) and "noenum" (no enumeration).    *)
(***************************************************************************************************)
EXTENDS CrossSdk

Pos(n) == IntV(FALSE, NatDigits(n))
Neg(n) == IntV(TRUE, NatDigits(n))

\* code points of the "modelType" texts of the classes (the class name in Pascal case; checked against the
\* generator-independent naming rule by the harness) and of the texts used below
cps_Scalar_thing == <<83,99,97,108,97,114,84,104,105,110,103>>
cps_Nest_thing == <<78,101,115,116,84,104,105,110,103>>
cps_Cprim_thing == <<67,112,114,105,109,84,104,105,110,103>>
cps_Const_thing == <<67,111,110,115,116,84,104,105,110,103>>
cps_Pair_thing == <<80,97,105,114,84,104,105,110,103>>
cps_Plain_thing == <<80,108,97,105,110,84,104,105,110,103>>
cps_Item == <<73,116,101,109>>
cps_Shape == <<83,104,97,112,101>>
cps_Circle == <<67,105,114,99,108,101>>
cps_Square == <<83,113,117,97,114,101>>
cps_Named == <<78,97,109,101,100>>
s_empty == <<>>
s_a == <<97>>
s_x == <<120>>
s_ab == <<97,98>>
s_abc == <<97,98,99>>
s_ac == <<97,99>>
s_abdc == <<97,98,100,99>>
s_aec == <<97,233,99>>                \* a e-acute c
s_ac_lf == <<97,99,10>>               \* "ac\n": Python's $ matches before a trailing line feed
s_eacute == <<233>>
s_astral == <<128512>>                \* U+1F600: one code point, two UTF-16 code units
s_quote == <<113,34,92,47>>           \* q " \ /
s_RED == <<82,69,68>>
s_spaced == <<97,32,98>>              \* "a b"  (the C++ generator refuses non-ASCII enumeration texts)
s_greenish == <<103,114,101,101,110,45,105,115,104>>

Cls(name, cps, abstract, wmt, bases, props, invs) ==
  [name |-> name, cps |-> cps, abstract |-> abstract, wmt |-> wmt, bases |-> bases, props |-> props, invs |-> invs]
Lit(n, v) == [name |-> n, value |-> v]

Ops == <<"lt", "le", "gt", "ge", "eq", "ne">>
OpText(o) == CASE o = "lt" -> "<" [] o = "le" -> "<=" [] o = "gt" -> ">" [] o = "ge" -> ">=" [] o = "eq" -> "==" [] o = "ne" -> "!="

\* the pattern  ^a[b-d]*c$
PatCode == <<Atom(<<<<97,97>>>>, FALSE, 1, 1), Atom(<<<<98,100>>>>, FALSE, 0, -1), Atom(<<<<99,99>>>>, FALSE, 1, 1)>>
\* the pattern  ^[a-z\U00010000-\U0010FFFF]{1,2}$   (an explicit astral range: rewritten for UTF-16 engines)
PatAstral == <<Atom(<<<<97,122>>, <<65536,1114111>>>>, FALSE, 1, 2)>>
\* the pattern  ^[^x]?$                              (a complemented set: one *character* in Python)
PatNotX == <<Atom(<<<<120,120>>>>, TRUE, 0, 1)>>

ColorEnum == [name |-> "Color", lits |-> <<Lit("Red", s_RED), Lit("Green", s_greenish), Lit("Odd_one", s_quote), Lit("Spaced", s_spaced)>>]
PrimaryColors == [name |-> "Primary_colors", k |-> "enumset", e |-> "Color", v |-> <<"Red">>, supersetOf |-> <<>>]

(***************************************************************************************************)
(* Part "scalars": primitive and enumeration properties, every comparison operator against the    *)
(* constants 0 and 1 (a grid of invariants generated here), is None / is not None, implication,    *)
(* and / or / not, constant-set membership, pattern functions, string equality, len.               *)
(***************************************************************************************************)
GridInvs(prop, what) ==
  [q \in 1..(Len(Ops) * 2) |->
     LET o == Ops[((q - 1) \div 2) + 1]  c == (q - 1) % 2 IN
     Inv(what \o " " \o OpText(o) \o " " \o ToString(c) \o " must hold.", ECmp(o, prop, ENat(c)))]

ScalarPatterns == <<[name |-> "matches_code", pat |-> PatCode],
                    [name |-> "matches_astral", pat |-> PatAstral],
                    [name |-> "matches_not_x", pat |-> PatNotX]>>
ScalarConsts == <<PrimaryColors,
                  [name |-> "Reserved_notes", k |-> "strset", v |-> <<s_ab, s_eacute>>, supersetOf |-> <<>>]>>
ScalarClasses == <<
     Cls("Scalar_thing", cps_Scalar_thing, FALSE, FALSE, <<>>,
         <<P("count", "count", TInt), P("code", "code", TStr), P("flag", "flag", TBool),
           P("color", "color", TOpt(TEnum("Color"))), P("weight", "weight", TOpt(TInt)),
           P("some_note", "someNote", TOpt(TStr))>>,
         GridInvs(EProp("count"), "count") \o
         <<Inv("Code must match a[b-d]*c.", EMatch("matches_code", EProp("code"))),
           Inv("Flag requires weight.", EImpl(EFlag(EProp("flag")), EIsSome(EProp("weight")))),
           Inv("Flag with weight needs a color.",
               EImpl(EAnd(<<EFlag(EProp("flag")), EIsSome(EProp("weight"))>>), EIsSome(EProp("color")))),
           Inv("Weight must be either not set or at least -1.",
               EOr(<<EIsNone(EProp("weight")), ECmp("ge", EProp("weight"), ENeg(1))>>)),
           Inv("Color must be primary.", EImpl(EIsSome(EProp("color")), EIn(EProp("color"), "Primary_colors"))),
           Inv("Green needs the flag.",
               EOr(<<EIsNone(EProp("color")), ECmp("ne", EProp("color"), ELit("Color", "Green")), EFlag(EProp("flag"))>>)),
           Inv("Note must be at most one character long.",
               EImpl(EIsSome(EProp("some_note")), ECmp("le", ELen(EProp("some_note")), ENat(1)))),
           Inv("Note must not be \"a\" \\ quoted.",
               EImpl(EIsSome(EProp("some_note")), ECmp("ne", EProp("some_note"), EStr(s_a)))),
           Inv("Note must not be reserved: 100% {sure} /* really */.",
               EImpl(EIsSome(EProp("some_note")), ENot(EIn(EProp("some_note"), "Reserved_notes")))),
           Inv("Note must be letters or astral.",
               EImpl(EIsSome(EProp("some_note")), EMatch("matches_astral", EProp("some_note")))),
           Inv("Note must not be x.",
               EImpl(EIsSome(EProp("some_note")), EMatch("matches_not_x", EProp("some_note")))),
           Inv("Weight and count must fit together.",
               EOr(<<EAnd(<<EIsSome(EProp("weight")), ECmp("gt", EProp("weight"), ENat(0))>>),
                     EAnd(<<EIsNone(EProp("weight")), ENot(ECmp("lt", EProp("count"), ENat(0)))>>)>>))>>)>>

ScalarCounts(tier) == IF tier = "quick" THEN <<Neg(1), Pos(0), Pos(1), Int64Max>> ELSE <<Neg(1), Pos(0), Pos(1), Pos(2), Int64Max, Int64Min>>
ScalarCodes(tier) == IF tier = "quick" THEN <<s_empty, s_ac, s_abdc, s_ac_lf>> ELSE <<s_empty, s_ac, s_abdc, s_ac_lf, s_aec, s_ab>>
ScalarWeights(tier) == IF tier = "quick" THEN <<None, Neg(1), Pos(1)>> ELSE <<None, Neg(2), Neg(1), Pos(0), Pos(1)>>
ScalarNotes(tier) == IF tier = "quick" THEN <<None, StrV(s_empty), StrV(s_a), StrV(s_astral), StrV(s_ab), StrV(s_x)>>
                     ELSE <<None, StrV(s_empty), StrV(s_a), StrV(s_astral), StrV(s_ab), StrV(s_eacute), StrV(s_x), StrV(<<97,128512>>)>>
ScalarColors == <<None, EnumV("Color", "Red"), EnumV("Color", "Green")>>

ScalarThing(c, s, f, col, w, n) ==
  InstV("Scalar_thing", [count |-> c, code |-> StrV(s), flag |-> BoolV(f), color |-> col, weight |-> w, some_note |-> n])
\* thorough: the full product.  quick: two sub-products that together still vary every group of properties some
\* invariant couples (count-weight-flag-color; code-note-flag-color), the rest held at a neutral value.
ScalarInstances(tier) ==
  IF tier = "quick"
  THEN {ScalarThing(c, s_ac, f, col, w, None) :
          c \in RangeOf(ScalarCounts(tier)), f \in BOOLEAN, col \in RangeOf(ScalarColors), w \in RangeOf(ScalarWeights(tier))}
       \cup {ScalarThing(Pos(1), s, f, col, Pos(1), n) :
          s \in RangeOf(ScalarCodes(tier)), f \in BOOLEAN, col \in RangeOf(ScalarColors), n \in RangeOf(ScalarNotes(tier))}
  ELSE {ScalarThing(c, s, f, col, w, n) :
          c \in RangeOf(ScalarCounts(tier)), s \in RangeOf(ScalarCodes(tier)), f \in BOOLEAN,
          col \in RangeOf(ScalarColors), w \in RangeOf(ScalarWeights(tier)), n \in RangeOf(ScalarNotes(tier))}

\* the instances whose documents are mutated: everything set
ScalarDocBases ==
  <<InstV("Scalar_thing", [count |-> Pos(1), code |-> StrV(s_ac), flag |-> BoolV(TRUE), color |-> EnumV("Color", "Red"),
                           weight |-> Pos(1), some_note |-> StrV(s_empty)])>>

(***************************************************************************************************)
(* Part "nested": an abstract class with two concrete descendants (modelType dispatch), nested     *)
(* instances, lists of instances, invariants over nested attributes, all / any over lists,         *)
(* inherited invariants, invariants reported below a path.                                         *)
(***************************************************************************************************)
NestedClasses == <<
     Cls("Shape", cps_Shape, TRUE, TRUE, <<>>,
         <<P("label", "label", TStr)>>,
         <<Inv("Label must not be empty.", ECmp("ge", ELen(EProp("label")), ENat(1)))>>),
     Cls("Circle", cps_Circle, FALSE, FALSE, <<"Shape">>,
         <<P("radius", "radius", TInt)>>,
         <<Inv("Radius must be positive.", ECmp("gt", EProp("radius"), ENat(0)))>>),
     Cls("Square", cps_Square, FALSE, FALSE, <<"Shape">>,
         <<P("side", "side", TInt), P("tag", "tag", TOpt(TStr))>>,
         <<Inv("Tag must not be longer than the side.",
               EImpl(EIsSome(EProp("tag")), ECmp("le", ELen(EProp("tag")), EProp("side"))))>>),
     Cls("Item", cps_Item, FALSE, FALSE, <<>>,
         <<P("name", "name", TStr), P("item_weight", "itemWeight", TOpt(TInt))>>,
         <<Inv("Name must not be empty.", ECmp("ge", ELen(EProp("name")), ENat(1))),
           Inv("Weight must not be negative.", EOr(<<EIsNone(EProp("item_weight")), ECmp("ge", EProp("item_weight"), ENat(0))>>))>>),
     Cls("Nest_thing", cps_Nest_thing, FALSE, FALSE, <<>>,
         <<P("shape", "shape", TClass("Shape")), P("item", "item", TOpt(TClass("Item"))),
           P("items", "items", TOpt(TList(TClass("Item")))), P("more_shapes", "moreShapes", TOpt(TList(TClass("Shape"))))>>,
         <<Inv("Items must be either not set or have at least one item.",
               EImpl(EIsSome(EProp("items")), ECmp("ge", ELen(EProp("items")), ENat(1)))),
           Inv("All items must have a weight.",
               EImpl(EIsSome(EProp("items")), EAll("an_item", EProp("items"), EIsSome(EAttr(EVar("an_item"), "item_weight"))))),
           Inv("Some item must have a long name.",
               EImpl(EIsSome(EProp("items")), EAny("an_item", EProp("items"), ECmp("ge", ELen(EAttr(EVar("an_item"), "name")), ENat(2))))),
           Inv("The single item must be light.",
               EOr(<<EIsNone(EProp("item")), EIsNone(EAttr(EProp("item"), "item_weight")),
                     ECmp("lt", EAttr(EProp("item"), "item_weight"), ENat(2))>>)),
           Inv("The shape must be labelled differently than x.", ECmp("ne", EAttr(EProp("shape"), "label"), EStr(s_x)))>>)>>

Circle(l, r) == InstV("Circle", [label |-> StrV(l), radius |-> r])
Square(l, s, t) == InstV("Square", [label |-> StrV(l), side |-> s, tag |-> t])
Item(n, w) == InstV("Item", [name |-> StrV(n), item_weight |-> w])
NestedShapes == <<Circle(<<99>>, Pos(1)), Circle(s_empty, Pos(0)), Square(s_x, Pos(2), None), Square(<<115>>, Pos(1), StrV(s_ab))>>
NestedItems == <<Item(s_a, None), Item(s_empty, Neg(1)), Item(s_ab, Pos(2))>>
ItemLists(maxLen) ==
  {None} \cup {ListV(<<>>)} \cup {ListV(<<a>>) : a \in RangeOf(NestedItems)}
  \cup (IF maxLen >= 2 THEN {ListV(<<a, b>>) : a \in RangeOf(NestedItems), b \in RangeOf(NestedItems)} ELSE {})
ShapeLists == {None, ListV(<<NestedShapes[2], NestedShapes[4]>>)}
NestThing(sh, it, its, shs) == InstV("Nest_thing", [shape |-> sh, item |-> it, items |-> its, more_shapes |-> shs])
NestedInstances(tier) ==
  IF tier = "quick"
  THEN {NestThing(sh, it, None, shs) : sh \in RangeOf(NestedShapes), it \in {None} \cup RangeOf(NestedItems), shs \in ShapeLists}
       \cup {NestThing(NestedShapes[1], it, its, None) : it \in {None, NestedItems[3]}, its \in ItemLists(2)}
  ELSE {NestThing(sh, it, its, shs) :
          sh \in RangeOf(NestedShapes), it \in {None} \cup RangeOf(NestedItems), its \in ItemLists(2), shs \in ShapeLists}
NestedDocBases ==
  <<InstV("Nest_thing", [shape |-> NestedShapes[4], item |-> NestedItems[3], items |-> ListV(<<NestedItems[3], NestedItems[1]>>),
                         more_shapes |-> ListV(<<NestedShapes[1]>>)])>>

(***************************************************************************************************)
(* Part "cprims": constrained primitives (chain Short_name < Name < str, pattern-constrained,     *)
(* integer-constrained), bytes (base64 on the wire), float, invariants inherited from an abstract  *)
(* ancestor.  (Lists of constrained primitives are left out: the C++ and Java generators raise     *)
(* AssertionError on them; so is len() of a bytearray, which the Java generator rejects with an    *)
(* error message -- property C02's business.)                                                     *)
(***************************************************************************************************)
CprimCprims == <<[name |-> "Name", base |-> "str", invs |-> <<Inv("Name must not be empty.", ECmp("ge", ELen(ESelf), ENat(1)))>>],
                 [name |-> "Short_name", base |-> "Name",
                  invs |-> <<Inv("Short name must have at most 2 characters.", ECmp("le", ELen(ESelf), ENat(2)))>>],
                 [name |-> "Code", base |-> "str", invs |-> <<Inv("Short code must match a[b-d]*c.", EMatch("matches_code", ESelf))>>],
                 [name |-> "Level", base |-> "int", invs |-> <<Inv("Level must be positive.", ECmp("gt", ESelf, ENat(0)))>>]>>
CprimClasses == <<
     Cls("Named", cps_Named, TRUE, TRUE, <<>>,
         <<P("full_name", "fullName", TCprim("Name"))>>,
         <<Inv("Name must not be x.", ECmp("ne", EProp("full_name"), EStr(s_x)))>>),
     Cls("Cprim_thing", cps_Cprim_thing, FALSE, FALSE, <<"Named">>,
         <<P("level", "level", TCprim("Level")), P("short_name", "shortName", TOpt(TCprim("Short_name"))),
           P("short_code", "shortCode", TOpt(TCprim("Code"))), P("data", "data", TOpt(TBytes)), P("ratio", "ratio", TOpt(TFloat))>>,
         <<Inv("Code must not be ac when the level is 1.",
               EOr(<<EIsNone(EProp("short_code")), ECmp("ne", EProp("short_code"), EStr(s_ac)), ECmp("ne", EProp("level"), ENat(1))>>))>>)>>

CprimNames == <<StrV(s_a), StrV(s_empty), StrV(s_x)>>
CprimLevels(tier) == IF tier = "quick" THEN <<Pos(1), Pos(0)>> ELSE <<Pos(1), Pos(0), Int64Max>>
CprimShorts(tier) == IF tier = "quick" THEN <<None, StrV(s_empty), StrV(s_abc), StrV(<<128512, 128512>>)>>
                     ELSE <<None, StrV(s_ab), StrV(s_empty), StrV(s_abc), StrV(<<128512, 128512>>)>>
CprimCodes(tier) == IF tier = "quick" THEN <<None, StrV(s_ac), StrV(s_ab), StrV(s_ac_lf)>> ELSE <<None, StrV(s_ac), StrV(s_ab), StrV(s_ac_lf)>>
CprimDatas(tier) == IF tier = "quick" THEN <<None, BytesV(<<>>), BytesV(<<255, 1>>), BytesV(<<104, 105, 33, 63>>)>>
                    ELSE <<None, BytesV(<<>>), BytesV(<<0>>), BytesV(<<255, 1>>), BytesV(<<1, 2, 250>>), BytesV(<<104, 105, 33, 63>>)>>
CprimRatios(tier) == IF tier = "quick" THEN <<None, FloatV("0.5"), FloatV("-2.5")>> ELSE <<None, FloatV("0.5"), FloatV("-2.5")>>
CprimThing(n, l, sn, cs, d, r) ==
  InstV("Cprim_thing", [full_name |-> n, level |-> l, short_name |-> sn, short_code |-> cs, data |-> d, ratio |-> r])
CprimInstances(tier) ==
  IF tier = "quick"
  THEN {CprimThing(n, l, None, cs, None, r) :
          n \in RangeOf(CprimNames), l \in RangeOf(CprimLevels(tier)), cs \in RangeOf(CprimCodes(tier)), r \in RangeOf(CprimRatios(tier))}
       \cup {CprimThing(StrV(s_a), l, sn, None, d, None) :
          l \in RangeOf(CprimLevels(tier)), sn \in RangeOf(CprimShorts(tier)), d \in RangeOf(CprimDatas(tier))}
  ELSE {CprimThing(n, l, sn, cs, d, r) :
          n \in RangeOf(CprimNames), l \in RangeOf(CprimLevels(tier)), sn \in RangeOf(CprimShorts(tier)), cs \in RangeOf(CprimCodes(tier)),
          d \in RangeOf(CprimDatas(tier)), r \in RangeOf(CprimRatios(tier))}
CprimDocBases ==
  <<InstV("Cprim_thing", [full_name |-> StrV(s_a), level |-> Pos(1), short_name |-> StrV(s_ab), short_code |-> StrV(s_abdc),
                          data |-> BytesV(<<255, 1>>), ratio |-> FloatV("0.5")])>>

(***************************************************************************************************)
(* Part "constsets": constant sets with declared superset_of relations (a chain and a diamond),    *)
(* an enumeration whose texts need escaping, membership invariants.                                *)
(***************************************************************************************************)
ConstSetConsts ==
  <<[name |-> "Warm_colors", k |-> "enumset", e |-> "Color", v |-> <<"Odd_one", "Red">>, supersetOf |-> <<"Primary_colors">>],
    [name |-> "All_colors", k |-> "enumset", e |-> "Color", v |-> <<"Green", "Red", "Spaced", "Odd_one">>,
     supersetOf |-> <<"Warm_colors", "Primary_colors">>],
    [name |-> "Short_words", k |-> "strset", v |-> <<s_a, s_eacute>>, supersetOf |-> <<>>],
    [name |-> "Words", k |-> "strset", v |-> <<s_quote, s_a, s_astral, s_empty, s_eacute>>, supersetOf |-> <<"Short_words">>]>>
ConstSetClasses == <<
     Cls("Const_thing", cps_Const_thing, FALSE, FALSE, <<>>,
         <<P("color", "color", TEnum("Color")), P("word", "word", TStr)>>,
         <<Inv("Color must be warm.", EIn(EProp("color"), "Warm_colors")),
           Inv("Color must be any.", EIn(EProp("color"), "All_colors")),
           Inv("Word must be known.", EIn(EProp("word"), "Words"))>>)>>
ConstSetInstances(tier) ==
  {InstV("Const_thing", [color |-> EnumV("Color", l), word |-> StrV(w)]) :
     l \in {"Red", "Green", "Odd_one", "Spaced"}, w \in {s_a, s_eacute, s_quote, s_astral, s_empty, s_ab}}
ConstSetDocBases == <<InstV("Const_thing", [color |-> EnumV("Color", "Odd_one"), word |-> StrV(s_quote)])>>

(***************************************************************************************************)
(* Part "pairs": comparisons between two properties (two integers, two strings), with equal values *)
(* that are distinct objects in languages with boxed numbers and reference equality.               *)
(***************************************************************************************************)
PairClasses == <<
     Cls("Pair_thing", cps_Pair_thing, FALSE, FALSE, <<>>,
         <<P("low", "low", TInt), P("high", "high", TInt), P("first", "first", TStr), P("second", "second", TStr)>>,
         <<Inv("Low must not exceed high.", ECmp("le", EProp("low"), EProp("high"))),
           Inv("Low must differ from high.", ECmp("ne", EProp("low"), EProp("high"))),
           Inv("First must equal second.", ECmp("eq", EProp("first"), EProp("second"))),
           Inv("Low must be zero when first is empty.",
               EOr(<<ECmp("ne", EProp("first"), EStr(s_empty)), ECmp("eq", EProp("low"), ENat(0))>>))>>)>>
PairInts == <<Pos(0), Pos(1000), Int64Max>>
PairStrs == <<s_empty, s_a, s_ab>>
PairInstances(tier) ==
  {InstV("Pair_thing", [low |-> l, high |-> h, first |-> StrV(a), second |-> StrV(b)]) :
     l \in RangeOf(PairInts), h \in RangeOf(PairInts), a \in RangeOf(PairStrs), b \in RangeOf(PairStrs)}
PairDocBases == <<>>

(***************************************************************************************************)
(* The merged meta-model                                                                           *)
(***************************************************************************************************)
Main ==
  [name |-> "main",
   enums |-> <<ColorEnum>>,
   cprims |-> CprimCprims,
   patterns |-> ScalarPatterns,
   consts |-> ScalarConsts \o ConstSetConsts,
   classes |-> ScalarClasses \o NestedClasses \o CprimClasses \o ConstSetClasses \o PairClasses]

(***************************************************************************************************)
(* Meta-model "constprims": constants of every primitive kind with boundary values.  (A bytearray  *)
(* constant cannot be written in a meta-model: the front end wants an ast.Constant of type         *)
(* bytearray, which Python's grammar cannot produce; negative integer constants neither: -1 is a   *)
(* unary operation, not a constant.)                                                               *)
(***************************************************************************************************)
ConstPrims ==
  [name |-> "constprims",
   enums |-> <<[name |-> "Mode", lits |-> <<Lit("On", <<111,110>>), Lit("Off", <<111,102,102>>)>>]>>,
   cprims |-> <<>>, patterns |-> <<>>,
   consts |-> <<[name |-> "Max_count", k |-> "int", v |-> Pos(10)],
                [name |-> "Zero", k |-> "int", v |-> Pos(0)],
                [name |-> "Huge", k |-> "int", v |-> Int64Max],
                [name |-> "Greeting", k |-> "str", v |-> <<104,105>>],
                [name |-> "Tricky", k |-> "str", v |-> <<113,34,92,233,128512,10,9>>],
                [name |-> "Hexy", k |-> "str", v |-> <<233,49,255,97>>],        \* \xe9 followed by a hex digit
                [name |-> "Yes", k |-> "bool", v |-> TRUE],
                [name |-> "Numbers", k |-> "intset", v |-> <<Pos(1), Pos(0), Int64Max>>, supersetOf |-> <<>>]>>,
   classes |-> <<
     Cls("Plain_thing", cps_Plain_thing, FALSE, FALSE, <<>>, <<P("count", "count", TInt), P("mode", "mode", TOpt(TEnum("Mode")))>>,
         <<Inv("Count must be positive.", ECmp("gt", EProp("count"), ENat(0)))>>)>>]
PlainInstances == {InstV("Plain_thing", [count |-> c, mode |-> md]) : c \in {Pos(0), Pos(1)}, md \in {None, EnumV("Mode", "Off")}}

(***************************************************************************************************)
(* Meta-model "noenum": a meta-model without any enumeration.                                      *)
(***************************************************************************************************)
NoEnum ==
  [name |-> "noenum", enums |-> <<>>, cprims |-> <<>>, patterns |-> <<>>, consts |-> <<>>,
   classes |-> <<
     Cls("Plain_thing", cps_Plain_thing, FALSE, FALSE, <<>>, <<P("count", "count", TInt)>>,
         <<Inv("Count must be positive.", ECmp("gt", EProp("count"), ENat(0)))>>)>>]
NoEnumInstances == {InstV("Plain_thing", [count |-> c]) : c \in {Pos(0), Pos(1)}}

(***************************************************************************************************)
(* Families per tier.  targets: the SDKs built for the family's meta-model besides Python.         *)
(***************************************************************************************************)
ModelNames == <<"main", "constprims", "noenum">>
ModelByName(n) ==
  CASE n = "main" -> Main [] n = "constprims" -> ConstPrims [] n = "noenum" -> NoEnum

Fam(name, model, root, insts, bases, depth) ==
  [name |-> name, model |-> model, root |-> root, instances |-> insts, docBases |-> bases, docDepth |-> depth]
Families(tier) ==
  <<Fam("scalars", "main", "Scalar_thing", ScalarInstances(tier), ScalarDocBases, 1),
    Fam("nested", "main", "Nest_thing", NestedInstances(tier), NestedDocBases, IF tier = "quick" THEN 2 ELSE 3),
    Fam("cprims", "main", "Cprim_thing", CprimInstances(tier), CprimDocBases, 1),
    Fam("constsets", "main", "Const_thing", ConstSetInstances(tier), ConstSetDocBases, 1),
    Fam("pairs", "main", "Pair_thing", PairInstances(tier), PairDocBases, 1),
    Fam("constprims", "constprims", "Plain_thing", PlainInstances, <<>>, 1),
    Fam("noenum", "noenum", "Plain_thing", NoEnumInstances, <<>>, 1)>>
\* family name -> <<model name, root class>> without building the instance sets
FamilyModel(n) ==
  CASE n \in {"scalars", "nested", "cprims", "constsets", "pairs"} -> "main"
    [] n = "constprims" -> "constprims" [] n = "noenum" -> "noenum"
FamilyRoot(n) ==
  CASE n = "scalars" -> "Scalar_thing" [] n = "nested" -> "Nest_thing" [] n = "cprims" -> "Cprim_thing"
    [] n = "constsets" -> "Const_thing" [] n = "pairs" -> "Pair_thing" [] OTHER -> "Plain_thing"
\* the targets built per meta-model: C++ costs a dozen translation units per meta-model, javac a second
Targets(tier, modelName) ==
  CASE modelName = "main" -> <<"cpp", "java">>
    [] modelName = "constprims" -> IF tier = "quick" THEN <<"java">> ELSE <<"cpp", "java">>
    [] modelName = "noenum" -> <<"java">>

=============================================================================
