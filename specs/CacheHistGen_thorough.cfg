INIT Init
NEXT Next
CONSTANTS
  MaxLen = 4
