INIT Init
NEXT Next
CONSTANTS
  MaxLen = 3
  NTexts = 5
