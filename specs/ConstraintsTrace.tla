-------------------------- MODULE ConstraintsTrace --------------------------
(* V phase of C15: every observation of infer_for_schema.infer_constraints_by_class on a rendered        *)
(* scenario is judged against the declarative meaning of the scenario (Constraints.tla).                 *)
(* One initial state per observation, one invariant per clause of the property.                          *)
(*   Obs[n] = [scn, outcome \in {"ok","error","exception"}, levels : Seq([v |-> slot, i |-> slot]), ...] *)
(*   slot   = [lenhas, hasmin, min, hasmax, max, haspats, pats, haslits, lits, has]                      *)
EXTENDS Constraints, Json, IOUtils, TLC

Obs == JsonDeserialize(IOEnv.VERIF_OBS)
MaxLen == 8        \* constants are <= 5, so lengths 0..8 decide every comparison

VARIABLE i
Init == i \in 1..Len(Obs)
Next == UNCHANGED i

-----------------------------------------------------------------------------
Levels(S) == 1..Depth(S)
LenRec(sl) == [has |-> sl.lenhas, hasmin |-> sl.hasmin, min |-> sl.min, hasmax |-> sl.hasmax, max |-> sl.max]

HasUnrecognised(S) == \E a \in AllAtoms(S) : ~Recognised(a) \/ (a.k = "set" /\ a \in AllPrimAtoms(S))

LenOK(S, L) == \A k \in Levels(S), s \in Slots : RangeSet(LenRec(L[k][s]), MaxLen) = AdmitLens(S, k, s, MaxLen)
PatsOK(S, L) == \A k \in Levels(S), s \in Slots : Range(L[k][s].pats) = ExpectedPats(S, k, s)
LitsOK(S, L) == \A k \in Levels(S), s \in Slots :
                   /\ L[k][s].haslits <=> HasSetConstraint(S, k, s)
                   /\ L[k][s].haslits => Range(L[k][s].lits) = ExpectedLits(S, k, s)

\* two recognised "==" atoms in one class / constrained primitive: the code reports these as an error even
\* when they agree; the property does not demand that away
ExactAtoms(seq) == {j \in 1..Len(seq) : seq[j].k = "len" /\ seq[j].op = "==" /\ Recognised(seq[j])}
DuplicateExact(S) == \/ \E k \in 1..Len(S.cls) : Cardinality(ExactAtoms(S.cls[k])) >= 2
                     \/ \E j \in 1..Len(S.prim) : Cardinality(ExactAtoms(S.prim[j])) >= 2

-----------------------------------------------------------------------------
(* The clauses *)
O == Obs[i]
Ok == O.outcome = "ok"

Inv_NoException == O.outcome # "exception"
Inv_LenExact    == Ok /\ ~HasUnrecognised(O.scn) => LenOK(O.scn, O.levels)
Inv_PatsExact   == Ok /\ ~HasUnrecognised(O.scn) => PatsOK(O.scn, O.levels)
Inv_LitsExact   == Ok /\ ~HasUnrecognised(O.scn) => LitsOK(O.scn, O.levels)
Inv_UnrecognisedIgnored ==
    Ok /\ HasUnrecognised(O.scn) => LenOK(O.scn, O.levels) /\ PatsOK(O.scn, O.levels) /\ LitsOK(O.scn, O.levels)
Inv_UnsatReported    == SomeMutuallyUnsat(O.scn, MaxLen) => ~Ok
Inv_ErrorExplainable == O.outcome = "error" => SomeUnsat(O.scn, MaxLen) \/ DuplicateExact(O.scn)

-----------------------------------------------------------------------------
(* Structural fingerprints (for known findings) and non-vacuity counters, computed once by the spec.    *)

\* the specific misreading "a guard on another property is dropped": the scenario with foreign guards erased
Unguard(a) == IF a.g \in ForeignGuards THEN [a EXCEPT !.g = "none"] ELSE a
UnguardSeqs(seqs) == [j \in 1..Len(seqs) |-> [m \in 1..Len(seqs[j]) |-> Unguard(seqs[j][m])]]
Unguarded(S) == [S EXCEPT !.cls = UnguardSeqs(S.cls), !.prim = UnguardSeqs(S.prim)]

LowerBoundZero(a) == a.k = "len" /\ Recognised(a) /\ LenBody(a, 0, 0) /\ ~LenBody(a, -1, 0)
HasForeign(S) == \E a \in AllAtoms(S) : a.g \in ForeignGuards
Cause(S) == IF HasForeign(S) THEN "foreign_guard"
            ELSE IF SomeUnsat(S, MaxLen) THEN "unsat"
            ELSE IF \E a \in AllAtoms(S) : LowerBoundZero(a) THEN "zero_min"
            ELSE IF HasUnrecognised(S) THEN "unrecognised"
            ELSE "plain"
AsIfUnguarded(n) ==
    LET S == Obs[n].scn U == Unguarded(Obs[n].scn)
    IN  Obs[n].outcome = "ok" /\ HasForeign(S) /\ LenOK(U, Obs[n].levels) /\ PatsOK(U, Obs[n].levels) /\ LitsOK(U, Obs[n].levels)

ExpectsSomething(S) == \E k \in Levels(S), s \in Slots :
    AdmitLens(S, k, s, MaxLen) # 0..MaxLen \/ ExpectedPats(S, k, s) # {} \/ HasSetConstraint(S, k, s)
NonTrivial(S) == ExpectsSomething(S) \/ HasUnrecognised(S)

Keys == [n \in 1..Len(Obs) |->
            [cause |-> Cause(Obs[n].scn), kind |-> Obs[n].scn.kind, as_if_unguarded |-> AsIfUnguarded(n),
             nontrivial |-> NonTrivial(Obs[n].scn), unsat |-> SomeMutuallyUnsat(Obs[n].scn, MaxLen),
             unrecognised |-> HasUnrecognised(Obs[n].scn)]]
ASSUME JsonSerialize(IOEnv.VERIF_KEYS, Keys)
=============================================================================
