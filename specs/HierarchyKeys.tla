---- MODULE HierarchyKeys ----
(* C05: structural fingerprints of the violations found by HierarchyTrace (computed by the spec, not *)
(* by the harness).  Input: the violating observations with the clauses TLC reported for each.       *)
EXTENDS Hierarchy, Json, IOUtils
Viol == JsonDeserialize(IOEnv.VERIF_OBS)
KeyOf(j, name) ==
    [clause |-> name,
     confirmed |-> ~Holds(name, Viol[j].h, Viol[j].o),
     explained_by |-> Explanation(name, Viol[j].h, Viol[j].o),
     diamond |-> HasDiamond(Viol[j].h)]
Keys == [j \in 1..Len(Viol) |-> [c \in 1..Len(Viol[j].clauses) |-> KeyOf(j, Viol[j].clauses[c])]]
ASSUME JsonSerialize(IOEnv.VERIF_OUT, Keys)
VARIABLE dummy
Init == dummy = 0
Next == UNCHANGED dummy
====
