INIT Init
NEXT Next
CONSTANTS
  MaxFragments = 3
  MaxPatternFragments = 2
