INIT Init
NEXT Next
CONSTANTS
  Depth = 2
  NParam = 16
  ParamDepth = 2
