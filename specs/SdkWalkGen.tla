------------------------------ MODULE SdkWalkGen ------------------------------
(* G for C29: instance graphs (nesting down to Depth, lists of 0..2, optionals set / unset, abstract-typed slots *)
(* filled with every concrete descendant) over the hierarchies of SdkModels, written as JSON.                    *)
EXTENDS SdkModels, Json, IOUtils, Randomization
CONSTANTS Depth, NParam, ParamDepth
Part == atoi(IOEnv.VERIF_PART)
NParts == atoi(IOEnv.VERIF_NPARTS)
Mine(i) == i % NParts = Part

Pairs == SetToSeq(RandomSubset(NParam, (1..NKinds) \X (1..NKinds)))
EntriesOf(pairs) ==
    T([i \in 1..Len(WalkModels) |-> [m |-> WalkModels[i], pa |-> 0, pb |-> 0, depth |-> Depth]])
    \o T([i \in 1..Len(pairs) |-> [m |-> ParamModel(pairs[i][1], pairs[i][2]), pa |-> pairs[i][1], pb |-> pairs[i][2], depth |-> ParamDepth]])
Raw(m) == [id |-> m.id, root |-> m.root, enums |-> m.enums, classes |-> m.classes]
ModelOut(e, i) == [mi |-> i, pa |-> e.pa, pb |-> e.pb, raw |-> Raw(e.m)]
ModelsOut(es) == T([i \in 1..Len(es) |-> ModelOut(es[i], i)])
InstOut(e, i, xs) == T([q \in 1..Len(xs) |-> [mi |-> i, pa |-> e.pa, pb |-> e.pb, x |-> xs[q]]])
InstancesOut(es) == Flat(T([i \in 1..Len(es) |-> IF Mine(i) THEN InstOut(es[i], i, SetToSeq(Roots(es[i].m, es[i].depth, "base"))) ELSE <<>>]))
Out(what, path, v) == JsonSerialize(path, v) /\ PrintT(<<"@@PRINT@@ " \o what, Len(v)>>)
\* (the entries are evaluated once and threaded through: a second evaluation would draw another random sample)
Emit(es) == Out("models", IOEnv.VERIF_OUT_MODELS, ModelsOut(es)) /\ Out("instances", IOEnv.VERIF_OUT_INSTANCES, InstancesOut(es))
ASSUME Emit(EntriesOf(Pairs))
VARIABLE dummy
Init == dummy = 0
Next == UNCHANGED dummy
=============================================================================
