------------------------------ MODULE SdkWalkGen ------------------------------
(* G for C29: instance graphs (nesting down to Depth, lists of 0..2, optionals set / unset, abstract-typed slots *)
(* filled with every concrete descendant) over the hierarchies of SdkModels, written as JSON.                    *)
EXTENDS SdkModels, Json, IOUtils, Randomization
CONSTANTS Depth, NParam, ParamDepth
Part == atoi(IOEnv.VERIF_PART)
NParts == atoi(IOEnv.VERIF_NPARTS)
Mine(i) == i % NParts = Part

Pairs == SetToSeq(RandomSubset(NParam, (1..NKinds) \X (1..NKinds)))
Entries == T([i \in 1..Len(FixedModels) |-> [m |-> FixedModels[i], pa |-> 0, pb |-> 0, depth |-> Depth]])
           \o T([i \in 1..Len(Pairs) |-> [m |-> ParamModel(Pairs[i][1], Pairs[i][2]), pa |-> Pairs[i][1], pb |-> Pairs[i][2], depth |-> ParamDepth]])
Raw(m) == [id |-> m.id, root |-> m.root, enums |-> m.enums, classes |-> m.classes]
ModelsOut == T([i \in 1..Len(Entries) |-> [mi |-> i, pa |-> Entries[i].pa, pb |-> Entries[i].pb, raw |-> Raw(Entries[i].m)]])
InstOut(e, i, xs) == T([q \in 1..Len(xs) |-> [mi |-> i, pa |-> e.pa, pb |-> e.pb, x |-> xs[q]]])
InstancesOut == Flat(T([i \in 1..Len(Entries) |-> IF Mine(i) THEN InstOut(Entries[i], i, SetToSeq(Roots(Entries[i].m, Entries[i].depth, "base"))) ELSE <<>>]))
Out(what, path, v) == JsonSerialize(path, v) /\ PrintT(<<"@@PRINT@@ " \o what, Len(v)>>)
ASSUME Out("models", IOEnv.VERIF_OUT_MODELS, ModelsOut)
ASSUME Out("instances", IOEnv.VERIF_OUT_INSTANCES, InstancesOut)
VARIABLE dummy
Init == dummy = 0
Next == UNCHANGED dummy
=============================================================================
