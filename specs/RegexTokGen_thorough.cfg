INIT Init
NEXT Next
CONSTANTS
  MaxLen = 3
  WithLonger = TRUE
  AlphaCap = 4
  LenCap = 3
  Budget = 100
