INIT Init
NEXT Next
CONSTANTS
  MaxLen = 3
  CoreLen = 3
  TightLen = 4
  QLen = 4
  SLen = 3
  AlphaCap = 4
  LenCap = 3
  Budget = 50
