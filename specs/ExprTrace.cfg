INIT Init
NEXT Next
INVARIANT Inv_SpecMatchesPython
INVARIANT Inv_Defined
INVARIANT Inv_NoTypeError
INVARIANT Inv_NoAttributeError
INVARIANT Inv_NoNoneDereference
INVARIANT Inv_NoOtherError
INVARIANT Inv_YieldsBoolean
