INIT Init
NEXT Next
CONSTANTS
  RichDepth = 1
  BaseDepth = 1
  NParam = 12
  ParamDepth = 1
  MutDepth = 1
  MutStar = FALSE
