INIT Init
NEXT Next
CONSTANTS
  RichModels = {"prims", "enums"}
  RichDepth = 1
  BaseDepth = 2
  NParam = 8
  ParamDepth = 1
  MutDepth = 1
  MutStar = FALSE
