\* the design AS REPAIRED (notes/fixes/C15-foreign-guard.patch + C02-len-constraint-errors.patch): the property holds without carve-outs (thorough scope)
SPECIFICATION Spec
CONSTANTS
  Scenarios <- ScenariosDef
  MaxLen = 6
  MaxC = 2
  MaxAtoms = 2
  GuardSet = {"none", "isnone", "other"}
  Narrow = FALSE
  Shapes = {"one", "chain", "prim", "dia"}
  ForeignGuardMisread = FALSE
  StrictPositiveMin = FALSE
  RaiseOnConflict = FALSE
  SnapshotStacking = FALSE
  NegativeMaxIsError = TRUE
INVARIANT TypeOK
INVARIANT Exact
INVARIANT UnsatIsError
INVARIANT NeverRaises
INVARIANT ErrorOnlyIfExplainable
INVARIANT Progress
