\* the design AS REPAIRED (notes/fixes/C15-*.patch): the property holds without carve-outs (thorough scope)
SPECIFICATION Spec
CONSTANTS
  Scenarios <- ScenariosDef
  MaxLen = 6
  MaxC = 2
  MaxAtoms = 2
  Shapes = {"one", "chain", "prim"}
  ForeignGuardMisread = FALSE
  StrictPositiveMin = FALSE
  RaiseOnConflict = FALSE
INVARIANT TypeOK
INVARIANT Exact
INVARIANT UnsatIsError
INVARIANT NeverRaises
INVARIANT ErrorOnlyIfExplainable
INVARIANT Progress
