----------------------------- MODULE SdkModels -----------------------------
(* The family of small meta-models, the value alphabets (chosen at boundaries) and the instance   *)
(* enumerators used by C10 / C29 (G and M).  Everything here is data for Sdk.tla's operators.     *)
EXTENDS Sdk

Id1(src, lo, cap, up) == [src |-> src, lo |-> <<lo>>, cap |-> <<cap>>, up |-> <<up>>]
Id(src, lo, cap, up) == [src |-> src, lo |-> lo, cap |-> cap, up |-> up]
P(name, type) == [name |-> name, type |-> type, opt |-> FALSE]
O(name, type) == [name |-> name, type |-> type, opt |-> TRUE]
Cls(name, abstract, wmt, bases, props) == [name |-> name, abstract |-> abstract, wmt |-> wmt, bases |-> bases, props |-> props, defaults |-> <<>>]

I_Something == Id1("Something", "something", "Something", "SOMETHING")

-----------------------------------------------------------------------------
(* model "prims": every primitive type, required and optional *)
M_Prims == Prep([id |-> "prims", root |-> "Something", enums |-> <<>>, classes |-> <<
    Cls(I_Something, FALSE, FALSE, <<>>, <<
        P(Id1("flag", "flag", "Flag", "FLAG"), TBool),
        P(Id1("num", "num", "Num", "NUM"), TInt),
        P(Id1("ratio", "ratio", "Ratio", "RATIO"), TFloat),
        P(Id1("text", "text", "Text", "TEXT"), TStr),
        P(Id1("blob", "blob", "Blob", "BLOB"), TBytes),
        O(Id("opt_flag", <<"opt", "flag">>, <<"Opt", "Flag">>, <<"OPT", "FLAG">>), TBool),
        O(Id("opt_num", <<"opt", "num">>, <<"Opt", "Num">>, <<"OPT", "NUM">>), TInt),
        O(Id("opt_ratio", <<"opt", "ratio">>, <<"Opt", "Ratio">>, <<"OPT", "RATIO">>), TFloat),
        O(Id("opt_text", <<"opt", "text">>, <<"Opt", "Text">>, <<"OPT", "TEXT">>), TStr),
        O(Id("opt_blob", <<"opt", "blob">>, <<"Opt", "Blob">>, <<"OPT", "BLOB">>), TBytes) >>) >>])

(* model "enums": enumerations (values needing care: empty, blank inside, XML specials, quotes), lists of primitives *)
E_Color == [name |-> Id1("Color", "color", "Color", "COLOR"), lits |-> <<
    [name |-> Id1("Red", "red", "Red", "RED"), val |-> <<82, 69, 68>>],                                     \* "RED"
    [name |-> Id("Gr_een", <<"gr", "een">>, <<"Gr", "Een">>, <<"GR", "EEN">>), val |-> <<103, 114, 32, 101, 101, 110>>],   \* "gr een"
    [name |-> Id1("Nothing", "nothing", "Nothing", "NOTHING"), val |-> <<>>],                               \* ""
    [name |-> Id1("Odd", "odd", "Odd", "ODD"), val |-> <<60, 38, 62, 39, 34, 92>>],                        \* <&>'"\
    \* not printable (str.isprintable), above U+00FF and above U+FFFF: LINE SEPARATOR a ZERO WIDTH SPACE; TAG char + BOM; private use
    [name |-> Id1("Sep", "sep", "Sep", "SEP"), val |-> <<8232, 97, 8203>>],
    [name |-> Id("Tag_BOM", <<"tag", "bom">>, <<"Tag", "Bom">>, <<"TAG", "BOM">>), val |-> <<917505, 65279>>],
    [name |-> Id1("Private", "private", "Private", "PRIVATE"), val |-> <<983040, 120>>] >>]
M_Enums == Prep([id |-> "enums", root |-> "Something", enums |-> <<E_Color>>, classes |-> <<
    Cls(I_Something, FALSE, FALSE, <<>>, <<
        P(Id1("color", "color", "Color", "COLOR"), TEnum("Color")),
        P(Id1("colors", "colors", "Colors", "COLORS"), TList(TEnum("Color"))),
        P(Id1("names", "names", "Names", "NAMES"), TList(TStr)),
        O(Id("opt_color", <<"opt", "color">>, <<"Opt", "Color">>, <<"OPT", "COLOR">>), TEnum("Color")),
        O(Id1("nums", "nums", "Nums", "NUMS"), TList(TInt)),
        O(Id1("blobs", "blobs", "Blobs", "BLOBS"), TList(TBytes)),
        O(Id1("flags", "flags", "Flags", "FLAGS"), TList(TBool)),
        O(Id1("ratios", "ratios", "Ratios", "RATIOS"), TList(TFloat)) >>) >>])

(* model "hier": abstract root with_model_type, abstract middle class, concrete class with a concrete descendant,
   class without model type, abstract-typed / concrete-typed / dispatching slots and lists *)
I_Shape == Id1("Shape", "shape", "Shape", "SHAPE")
I_Leaf == Id1("Leaf", "leaf", "Leaf", "LEAF")
M_Hier == Prep([id |-> "hier", root |-> "Something", enums |-> <<>>, classes |-> <<
    Cls(I_Leaf, FALSE, FALSE, <<>>, << P(Id1("n", "n", "N", "N"), TInt) >>),
    Cls(I_Shape, TRUE, TRUE, <<>>, << P(Id1("name", "name", "Name", "NAME"), TStr) >>),
    Cls(Id1("Circle", "circle", "Circle", "CIRCLE"), FALSE, FALSE, <<"Shape">>, <<
        P(Id1("radius", "radius", "Radius", "RADIUS"), TInt), O(Id1("leaf", "leaf", "Leaf", "LEAF"), TCls("Leaf")) >>),
    Cls(Id1("Polygon", "polygon", "Polygon", "POLYGON"), TRUE, FALSE, <<"Shape">>, <<
        O(Id("corner_count", <<"corner", "count">>, <<"Corner", "Count">>, <<"CORNER", "COUNT">>), TInt) >>),
    Cls(Id1("Square", "square", "Square", "SQUARE"), FALSE, FALSE, <<"Polygon">>, <<
        P(Id1("side", "side", "Side", "SIDE"), TInt), O(Id1("kids", "kids", "Kids", "KIDS"), TList(TCls("Shape"))) >>),
    Cls(Id("Deep_square", <<"deep", "square">>, <<"Deep", "Square">>, <<"DEEP", "SQUARE">>), FALSE, FALSE, <<"Square">>, <<
        O(Id("depth_URL", <<"depth", "url">>, <<"Depth", "Url">>, <<"DEPTH", "URL">>), TStr) >>),
    Cls(I_Something, FALSE, FALSE, <<>>, <<
        P(Id1("shape", "shape", "Shape", "SHAPE"), TCls("Shape")),
        P(Id1("shapes", "shapes", "Shapes", "SHAPES"), TList(TCls("Shape"))),
        O(Id("maybe_square", <<"maybe", "square">>, <<"Maybe", "Square">>, <<"MAYBE", "SQUARE">>), TCls("Square")),
        O(Id1("leaf", "leaf", "Leaf", "LEAF"), TCls("Leaf")),
        O(Id1("circle", "circle", "Circle", "CIRCLE"), TCls("Circle")),
        O(Id1("leaves", "leaves", "Leaves", "LEAVES"), TList(TCls("Leaf"))) >>) >>])

(* model "mixin": multiple inheritance from abstract classes, a declared default (kind_or_default), multi-part names
   with abbreviations, a concrete class with a concrete descendant, both with abbreviations in their names (the slot dispatches
   on a model type that differs from the Python class name) *)
E_Kind == [name |-> Id("Modelling_kind", <<"modelling", "kind">>, <<"Modelling", "Kind">>, <<"MODELLING", "KIND">>), lits |-> <<
    [name |-> Id1("Template", "template", "Template", "TEMPLATE"), val |-> <<84, 101, 109, 112, 108, 97, 116, 101>>],
    [name |-> Id1("Instance", "instance", "Instance", "INSTANCE"), val |-> <<73, 110, 115, 116, 97, 110, 99, 101>>] >>]
I_Kind == Id1("kind", "kind", "Kind", "KIND")
M_Mixin == Prep([id |-> "mixin", root |-> "Something", enums |-> <<E_Kind>>, classes |-> <<
    [Cls(Id("Has_kind", <<"has", "kind">>, <<"Has", "Kind">>, <<"HAS", "KIND">>), TRUE, FALSE, <<>>, << O(I_Kind, TEnum("Modelling_kind")) >>)
        EXCEPT !.defaults = << [prop |-> "kind", enum |-> "Modelling_kind", lit |-> "Instance"] >>],
    Cls(Id("Has_semantics_ID", <<"has", "semantics", "id">>, <<"Has", "Semantics", "Id">>, <<"HAS", "SEMANTICS", "ID">>), TRUE, FALSE, <<>>, <<
        O(Id("semantic_ID", <<"semantic", "id">>, <<"Semantic", "Id">>, <<"SEMANTIC", "ID">>), TStr) >>),
    Cls(Id("Data_element_URL", <<"data", "element", "url">>, <<"Data", "Element", "Url">>, <<"DATA", "ELEMENT", "URL">>), FALSE, TRUE, <<"Has_kind", "Has_semantics_ID">>, <<
        P(Id("value_ID", <<"value", "id">>, <<"Value", "Id">>, <<"VALUE", "ID">>), TStr),
        O(Id("ID_short", <<"id", "short">>, <<"Id", "Short">>, <<"ID", "SHORT">>), TStr) >>),
    Cls(Id("Deep_element_IEC", <<"deep", "element", "iec">>, <<"Deep", "Element", "Iec">>, <<"DEEP", "ELEMENT", "IEC">>), FALSE, FALSE, <<"Data_element_URL">>, <<
        O(Id1("extra", "extra", "Extra", "EXTRA"), TInt) >>),
    Cls(I_Something, FALSE, FALSE, <<"Has_kind">>, <<
        P(Id("data_element", <<"data", "element">>, <<"Data", "Element">>, <<"DATA", "ELEMENT">>), TCls("Data_element_URL")),
        O(Id("more_elements", <<"more", "elements">>, <<"More", "Elements">>, <<"MORE", "ELEMENTS">>), TList(TCls("Data_element_URL"))) >>) >>])

(* model "rec": a recursive class (nesting up to the depth bound), optional and list recursion *)
M_Rec == Prep([id |-> "rec", root |-> "Node", enums |-> <<>>, classes |-> <<
    Cls(Id1("Node", "node", "Node", "NODE"), FALSE, FALSE, <<>>, <<
        P(Id1("label", "label", "Label", "LABEL"), TStr),
        O(Id1("next", "next", "Next", "NEXT"), TCls("Node")),
        O(Id1("children", "children", "Children", "CHILDREN"), TList(TCls("Node"))) >>) >>])

FixedModels == <<M_Prims, M_Enums, M_Hier, M_Mixin, M_Rec>>

(* model "diamond" (traversal only): a shared abstract ancestor with descendable properties, reached along two paths *)
I_LeafP(n, c, u) == Id1(n, n, c, u)
M_Diamond == Prep([id |-> "diamond", root |-> "Something", enums |-> <<>>, classes |-> <<
    Cls(I_Leaf, FALSE, FALSE, <<>>, << P(Id1("n", "n", "N", "N"), TInt) >>),
    Cls(Id("Has_parts", <<"has", "parts">>, <<"Has", "Parts">>, <<"HAS", "PARTS">>), TRUE, TRUE, <<>>, <<
        O(Id1("parts", "parts", "Parts", "PARTS"), TList(TCls("Leaf"))), O(Id1("first", "first", "First", "FIRST"), TCls("Leaf")) >>),
    Cls(Id("Has_source", <<"has", "source">>, <<"Has", "Source">>, <<"HAS", "SOURCE">>), TRUE, FALSE, <<"Has_parts">>, <<
        O(Id1("source", "source", "Source", "SOURCE"), TCls("Leaf")) >>),
    Cls(Id("Has_target", <<"has", "target">>, <<"Has", "Target">>, <<"HAS", "TARGET">>), TRUE, FALSE, <<"Has_parts">>, <<
        O(Id1("target", "target", "Target", "TARGET"), TCls("Leaf")) >>),
    Cls(Id("Only_source", <<"only", "source">>, <<"Only", "Source">>, <<"ONLY", "SOURCE">>), FALSE, FALSE, <<"Has_source">>, <<>>),
    Cls(Id1("Link", "link", "Link", "LINK"), FALSE, FALSE, <<"Has_source", "Has_target">>, <<
        O(Id1("label", "label", "Label", "LABEL"), TCls("Leaf")) >>),
    Cls(I_Something, FALSE, FALSE, <<>>, <<
        P(Id1("link", "link", "Link", "LINK"), TCls("Link")),
        O(Id1("links", "links", "Links", "LINKS"), TList(TCls("Has_parts"))) >>) >>])
WalkModels == FixedModels \o <<M_Diamond>>

(* models that an intact front end refuses (C10 only judges them when the front end accepts them -- and then the SDK must be
   importable and round-trip): a property whose name equals a reserved member name up to case (its JSON key is "modelType");
   a property of a child that equals an inherited one up to case (same generated argument / attribute name) *)
M_ReservedCase == Prep([id |-> "reserved_case", root |-> "Something", enums |-> <<>>, classes |-> <<
    Cls(I_Something, FALSE, FALSE, <<>>, <<
        P(Id("Model_type", <<"model", "type">>, <<"Model", "Type">>, <<"MODEL", "TYPE">>), TStr),
        O(Id1("other", "other", "Other", "OTHER"), TInt) >>) >>])
M_CaseCollision == Prep([id |-> "case_collision", root |-> "Something", enums |-> <<>>, classes |-> <<
    Cls(Id1("Parent", "parent", "Parent", "PARENT"), TRUE, TRUE, <<>>, << P(Id1("URL", "url", "Url", "URL"), TStr) >>),
    Cls(I_Something, FALSE, FALSE, <<"Parent">>, << O(Id1("url", "url", "Url", "URL"), TStr) >>) >>])
DoubtfulModels == <<M_ReservedCase, M_CaseCollision>>

-----------------------------------------------------------------------------
(* parametric family: a container with two properties, each of one of 32 kinds -- 1024 meta-models *)
KindTypes == << TBool, TInt, TFloat, TStr, TBytes, TEnum("Color"), TCls("Item"), TCls("Thing"),
                TList(TBool), TList(TInt), TList(TFloat), TList(TStr), TList(TBytes), TList(TEnum("Color")), TList(TCls("Item")), TList(TCls("Thing")) >>
NKinds == 2 * Len(KindTypes)
KindProp(name, k) == [name |-> name, type |-> KindTypes[((k - 1) % Len(KindTypes)) + 1], opt |-> k > Len(KindTypes)]
ParamModel(a, b) == Prep([id |-> "param_" \o ToString(a) \o "_" \o ToString(b), root |-> "Something", enums |-> <<E_Color>>, classes |-> <<
    Cls(Id1("Item", "item", "Item", "ITEM"), FALSE, FALSE, <<>>, << P(Id1("n", "n", "N", "N"), TInt) >>),
    Cls(Id1("Thing", "thing", "Thing", "THING"), TRUE, TRUE, <<>>, << P(Id1("tag", "tag", "Tag", "TAG"), TStr) >>),
    Cls(Id("Derived_a", <<"derived", "a">>, <<"Derived", "A">>, <<"DERIVED", "A">>), FALSE, FALSE, <<"Thing">>, << P(Id1("x", "x", "X", "X"), TInt) >>),
    Cls(Id("Derived_b", <<"derived", "b">>, <<"Derived", "B">>, <<"DERIVED", "B">>), FALSE, FALSE, <<"Thing">>, << O(Id1("y", "y", "Y", "Y"), TStr) >>),
    Cls(I_Something, FALSE, FALSE, <<>>, <<
        KindProp(Id1("first", "first", "First", "FIRST"), a),
        KindProp(Id("second_one", <<"second", "one">>, <<"Second", "One">>, <<"SECOND", "ONE">>), b) >>) >>])

-----------------------------------------------------------------------------
(* value alphabets *)
PrimVals(p, mode) ==
    CASE p = "bool" -> {VBool(TRUE), VBool(FALSE)}
      [] p = "int" -> IF mode = "base" THEN {VInt("7")}
                      ELSE {VInt("7"), VInt("0"), VInt("-1"), VInt("2147483648"), VInt("-9223372036854775809"), VInt("123456789012345678901234567890")}
      [] p = "float" -> IF mode = "base" THEN {VFloat("1.5")}
                        ELSE {VFloat("1.5"), VFloat("0.0"), VFloat("-0.0"), VFloat("1e+300"), VFloat("5e-324"), VFloat("-2.5e-05"), VFloat("inf"), VFloat("-inf"), VFloat("nan")}
      [] p = "str" -> IF mode = "base" THEN {VStr(<<97>>)}
                      ELSE {VStr(<<97>>), VStr(<<>>), VStr(<<32>>), VStr(<<32, 97, 32, 98, 32>>),
                            VStr(<<13>>), VStr(<<13, 10>>), VStr(<<97, 13, 98>>), VStr(<<10>>), VStr(<<9>>),
                            VStr(<<60, 38, 62, 34, 39>>), VStr(<<93, 93, 62>>), VStr(<<38, 97, 109, 112, 59>>),
                            VStr(<<128512>>), VStr(<<97, 128512, 98>>), VStr(<<233, 8364>>), VStr(<<133>>), VStr(<<8232>>),
                            VStr(<<0>>), VStr(<<1>>), VStr(<<11>>), VStr(<<65534>>), VStr(<<55296>>) }
      [] p = "bytes" -> IF mode = "base" THEN {VBytes(<<1, 2, 3>>)}
                        ELSE {VBytes(<<1, 2, 3>>), VBytes(<<>>), VBytes(<<0>>), VBytes(<<255>>), VBytes(<<0, 255>>),
                              VBytes(<<250, 251, 252, 253>>), VBytes(<<251, 239, 190>>), VBytes(<<255, 255, 255>>), VBytes(<<0, 0, 0, 0, 0>>)}
FirstPrim(p) ==
    CASE p = "bool" -> VBool(TRUE) [] p = "int" -> VInt("7") [] p = "float" -> VFloat("1.5") [] p = "str" -> VStr(<<97>>) [] p = "bytes" -> VBytes(<<1, 2, 3>>)

\* first concrete class (in declaration order) that can fill a slot of class n
FirstConcrete(m, n) ==
    LET idx == CHOOSE i \in 1..Len(m.classes) :
                /\ m.classes[i].name.src \in ConcreteOf(m, n)
                /\ \A j \in 1..(i - 1) : m.classes[j].name.src \notin ConcreteOf(m, n)
    IN  m.classes[idx].name.src

(* Base(m, c, d, full): the minimal (full = FALSE: optionals unset, lists empty) or maximal (full = TRUE: every *)
(* optional set, lists with one item, down to nesting depth d) instance of the concrete class c.                *)
RECURSIVE Base(_, _, _, _)
RECURSIVE BaseVal(_, _, _, _)
BaseVal(m, t, d, full) ==
    CASE IsPrim(t) -> FirstPrim(t.t)
      [] t.t = "enum" -> VEnum(t.name, EnumOf(m, t.name).lits[1].name.src)
      [] t.t = "cls" -> Base(m, FirstConcrete(m, t.name), d, full)
      [] t.t = "list" -> IF full /\ d > 0 THEN VList(<<BaseVal(m, t.item, IF t.item.t = "cls" THEN d - 1 ELSE d, full)>>) ELSE VList(<<>>)
Base1(m, c, d, full, ps) ==
    VInst(c, T([i \in 1..Len(ps) |->
        [n |-> ps[i].src,
         v |-> IF ps[i].opt /\ (~full \/ (d <= 0 /\ ~IsPrim(ps[i].type) /\ ps[i].type.t # "enum")) THEN VNone
               ELSE BaseVal(m, ps[i].type, IF ps[i].type.t = "cls" THEN d - 1 ELSE d, full)]]))
Base(m, c, d, full) == Base1(m, c, d, full, AllProps(m, c))

WithField(x, i, v) == [x EXCEPT !.fields[i].v = v]

(* Star(m, c, d, full, mode): the base instance with ONE property varied over all its choices, recursively   *)
(* (so sizes add up instead of multiplying): every value of the alphabet in every slot, every concrete         *)
(* descendant in every class-typed slot, lists of length 0, 1, 2, every optional unset, nesting down to d.    *)
RECURSIVE Star(_, _, _, _, _)
RECURSIVE TChoices(_, _, _, _, _)
ListChoices(items, canBase, b) ==
    {VList(<<>>)} \cup {VList(<<a>>) : a \in items}
    \cup (IF canBase THEN {VList(<<a, b>>) : a \in items} \cup {VList(<<b, a>>) : a \in items} ELSE {})
TChoices(m, t, d, full, mode) ==
    CASE IsPrim(t) -> PrimVals(t.t, mode)
      [] t.t = "enum" -> {VEnum(t.name, EnumOf(m, t.name).lits[i].name.src) : i \in 1..Len(EnumOf(m, t.name).lits)}
      [] t.t = "cls" -> IF d = 0 THEN {} ELSE UNION {{Base(m, c, d - 1, full)} \cup Star(m, c, d - 1, full, mode) : c \in ConcreteOf(m, t.name)}
      [] t.t = "list" -> ListChoices(TChoices(m, t.item, d, full, mode), t.item.t # "cls" \/ d > 0,
                                     IF t.item.t # "cls" \/ d > 0 THEN BaseVal(m, t.item, IF t.item.t = "cls" THEN d - 1 ELSE d, full) ELSE VNone)
Star1(m, d, full, mode, ps, base) ==
    UNION {{WithField(base, i, v) : v \in TChoices(m, ps[i].type, d, full, mode) \cup (IF ps[i].opt THEN {VNone} ELSE {})} : i \in 1..Len(ps)}
Star(m, c, d, full, mode) == Star1(m, d, full, mode, AllProps(m, c), Base(m, c, d, full))

\* root instances of a model
Roots(m, d, mode) ==
    UNION {{Base(m, c, d, FALSE), Base(m, c, d, TRUE)} \cup Star(m, c, d, FALSE, mode) \cup Star(m, c, d, TRUE, mode) : c \in ConcreteOf(m, m.root)}

ASSUME \A i \in 1..Len(WalkModels) : ModelOk(WalkModels[i])
ASSUME ModelOk(ParamModel(8, 32))
=============================================================================
