SPECIFICATION Spec
CONSTANTS
  Vocabulary <- VocabularyDef
  MaxParts = 5
  MaxWidth = 8
INVARIANT DoneConcat
INVARIANT DoneFits
INVARIANT DoneGlued
INVARIANT TokensRebuildText
