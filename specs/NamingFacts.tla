---- MODULE NamingFacts ----
(* M phase of C21: TLC decides, over all identifiers of <= MaxParts parts, where the conversions are not injective *)
(* and how the equivalences they induce are ordered.  Every ASSUME is a theorem of the model (small scope);      *)
(* the printed counters document the collision classes the generator draws from.                                 *)
EXTENDS Naming, SequencesExt, TLC
CONSTANT MaxParts
EXTENDS_NOTE == "zero-arity definitions below are evaluated once by TLC and cached"
U == Ids(MaxParts)
USeq == SetToSeq(U)
\* unordered pairs of distinct identifiers
Pairs == {<<USeq[i], USeq[j]>> : i \in DOMAIN USeq, j \in DOMAIN USeq} \cap UNION {{<<USeq[i], USeq[j]>> : j \in (i + 1)..Len(USeq)} : i \in DOMAIN USeq}
Image == [f \in Fns |-> [id \in U |-> Conv(f, id)]]
EqAll == [f \in Fns |-> {p \in Pairs : Image[f][p[1]] = Image[f][p[2]]}]
Eq(f) == EqAll[f]

\* 1. the two snake conversions induce the same equivalence: equality up to case, part by part
ASSUME Eq("lower_snake") = Eq("upper_snake")
ASSUME \A p \in Pairs : (p \in Eq("lower_snake")) <=> FoldEq(p[1], p[2])
\* 2. every conversion is at most as fine as "equal up to case with the boundaries forgotten" ...
ASSUME \A f \in Fns : \A p \in Eq(f) : FlatFoldEq(p[1], p[2])
\* 3. ... and capitalized_camel_case / lower_camel_case are coarser than (or equal to) the snake conversions
ASSUME Eq("lower_snake") \subseteq Eq("cap_camel")
ASSUME Eq("cap_camel") \subseteq Eq("lower_camel")
\* 4. lower_camel_case additionally forgets the case of the first part only; witnesses exist that the inclusions of 3 are
\*    strict or not is printed below (HasStrict...)
\* 5. the target-specific variants keep some case information (URL vs Url) but merge part boundaries:
\*    they are *incomparable* with the snake conversions -- there are pairs that collide only there
ASSUME \E p \in Eq("keep_upper_camel") : p \notin Eq("lower_snake")
ASSUME \E p \in Eq("lower_snake") : p \notin Eq("keep_upper_camel")
ASSUME \E p \in Eq("go_cap_camel") : p \notin Eq("lower_snake")
ASSUME \E p \in Eq("lower_snake") : p \notin Eq("go_cap_camel")
\* 6. Go keeps strictly more than python's class names (a part starting with a capital is kept entirely)
ASSUME Eq("go_cap_camel") \subseteq Eq("keep_upper_camel")
\* 7. no conversion is injective on the universe
ASSUME \A f \in Fns : Eq(f) # {}
\* 8. distinct signatures exist: the generator has more than one collision class to aim at
Signatures == {{f \in Fns : p \in EqAll[f]} : p \in Pairs}
ASSUME Cardinality(Signatures) >= 4

ASSUME PrintT(<<"@@PRINT@@ universe", Cardinality(U), "pairs", Cardinality(Pairs)>>)
ASSUME \A f \in Fns : PrintT(<<"@@PRINT@@ colliding pairs", f, Cardinality(Eq(f))>>)
ASSUME PrintT(<<"@@PRINT@@ signatures", Cardinality(Signatures)>>)
ASSUME PrintT(<<"@@PRINT@@ cap_camel strictly coarser than snake", Eq("cap_camel") # Eq("lower_snake"),
                "lower_camel strictly coarser than cap_camel", Eq("lower_camel") # Eq("cap_camel")>>)
VARIABLE dummy
Init == dummy = 0
Next == UNCHANGED dummy
====
