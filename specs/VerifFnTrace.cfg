INIT Init
NEXT Next
INVARIANT Inv_SpecMatchesPython
INVARIANT Inv_FunctionsAgree
