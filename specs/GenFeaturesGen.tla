---- MODULE GenFeaturesGen ----
(* G phase of C02: serialise the case space of GenFeatures as JSON.                                       *)
(*   singles : every feature on each of its home templates (length and pattern features on every        *)
(*             applicable template, because they interact with where "text" inherits from; the others    *)
(*             on the first template that offers what they need);                                        *)
(*   pairs   : unordered pairs of distinct simple features (quick: both from the core pool; thorough: also *)
(*             every pair with a member in the hot pool) on the pair template that offers what both need.*)
(* Every case is checked against WellFormed (a slip in a feature action is a specification error).        *)
EXTENDS GenFeatures, SequencesExt, Json, IOUtils
CONSTANTS PairScope,      \* "core" | "all": which features are combined pairwise
          DocScope        \* "core" | "all": documentation sites x texts

TemplateOrder == <<"single", "list", "chain", "cprim", "concrete_chain", "opt", "late_parent">>
FirstApplicable(f) ==
    LET idx == CHOOSE i \in DOMAIN TemplateOrder :
                  /\ FeatureApplicable(f, TemplateOrder[i])
                  /\ \A j \in 1..(i - 1) : ~FeatureApplicable(f, TemplateOrder[j])
    IN TemplateOrder[idx]
\* where "text" inherits constraints from matters for the length bounds (class chain, constrained primitive,
\* optional); for patterns only "own property" versus "constrained primitive" differs in the generators
PatTemplates == IF PairScope = "all" THEN TemplateIds ELSE {"single", "cprim"}
HomeTemplates(f) ==
    IF IsDocFeature(f) \/ f[1] \in FrontRejectedPatterns THEN {FirstApplicable(f)}
    ELSE IF f[1] \in LenFeatures THEN {t \in TemplateIds : FeatureApplicable(f, t)}
    ELSE IF f[1] \in PatFeatures THEN {t \in PatTemplates : FeatureApplicable(f, t)} \cup {FirstApplicable(f)}
    ELSE {FirstApplicable(f)}

\* the documentation texts that carry a construct of their own; the rest differ only in prose
CoreDocSites == {"doc_on_class", "doc_on_prop", "doc_on_literal", "doc_on_fn"}
DocPairsChosen == IF DocScope = "all" THEN DocFeaturePairs ELSE {p \in DocFeaturePairs : p[1] \in CoreDocSites}

SingleKeys == {<<t, <<f>>>> : t \in TemplateIds, f \in SimpleFeaturePairs \cup DocPairsChosen} 
SingleChosen == {k \in SingleKeys : k[1] \in HomeTemplates(k[2][1])}

\* the pool for pairwise combination in the quick tier: the constructs with a history of breaking a generator
CorePool == {
    "len_eq0", "len_ge0_le5", "len_inh_ge5_le3",
    "pat_mid_caret", "pat_straddle", "pat_two",
    "ty_list_int", "ty_list_enum", "ty_list_list_int", "ty_opt_list_item", "ty_self_list",
    "st_abstract_childless", "st_enum_empty", "st_impl_class", "st_impl_method", "st_impl_fn",
    "st_diamond", "st_diamond_cprim", "st_no_props",
    "ex_all_items", "ex_enum_eq",
    "nm_class_case_collision", "nm_prop_case_collision", "nm_literal_collision"}
\* quick ("core"): pairs inside the core pool; thorough ("all"): additionally every pair with a member in the hot pool
CoreSet == {Simple(f) : f \in CorePool}
\* thorough: the members of the core pool that are combined with *every* simple feature
HotPool == {"len_eq0", "len_inh_ge5_le3", "pat_mid_caret", "pat_straddle", "pat_two", "ty_list_int", "ty_list_list_int", "ty_opt_list_item",
            "st_abstract_childless", "st_enum_empty", "st_impl_class", "st_impl_fn", "st_diamond_cprim", "ex_all_items", "nm_prop_case_collision"}
HotSet == {Simple(f) : f \in HotPool}
PairPool == IF PairScope = "all" THEN SimpleFeaturePairs ELSE CoreSet
PoolSeq == SetToSeq(PairPool)
PairTemplates == {"chain", "list"}
\* unordered pairs (i < j on an arbitrary but fixed enumeration of the pool)
PairChosen ==
    UNION {{<<t, <<PoolSeq[i], PoolSeq[j]>>>> : j \in {k \in (i + 1)..Len(PoolSeq) :
                    \/ PoolSeq[i] \in CoreSet /\ PoolSeq[k] \in CoreSet
                    \/ PoolSeq[i] \in HotSet \/ PoolSeq[k] \in HotSet}} :
           t \in PairTemplates, i \in DOMAIN PoolSeq}
\* a pair lives on the first of the pair templates on which both features are applicable
PairHome(fs) == IF Valid("list", fs) /\ (NeedsItems(fs[1][1]) \/ NeedsItems(fs[2][1])) THEN "list"
                ELSE IF Valid("chain", fs) THEN "chain" ELSE IF Valid("list", fs) THEN "list" ELSE "none"
PairFinal == {k \in PairChosen : k[1] = PairHome(k[2])}

BaseKeys == {<<t, <<>>>> : t \in TemplateIds}
Keys == BaseKeys \cup {k \in SingleChosen : Valid(k[1], k[2])} \cup PairFinal
Cases == {Case(k[1], k[2]) : k \in Keys}

ASSUME CorePool \subseteq SimpleFeatures /\ HotPool \subseteq CorePool
ASSUME \A c \in Cases : WellFormed(c.model) \/ (PrintT(<<"NOT WELL-FORMED", c.template, c.features>>) /\ FALSE)
ASSUME JsonSerialize(IOEnv.VERIF_OUT, SetToSeq(Cases))
ASSUME PrintT(<<"@@PRINT@@ cases", Cardinality(Cases), Cardinality(BaseKeys), Cardinality({k \in SingleChosen : Valid(k[1], k[2])}), Cardinality(PairFinal)>>)
VARIABLE dummy
Init == dummy = 0
Next == UNCHANGED dummy
====
