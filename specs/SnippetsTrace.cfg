INIT Init
NEXT Next
INVARIANT Inv_NoException
INVARIANT Inv_FailsWhenItMust
INVARIANT Inv_LoadsWhenItCan
INVARIANT Inv_KeysExact
INVARIANT Inv_ValuesStripped
INVARIANT Inv_ErrorsNameFiles
INVARIANT Inv_MainFailsWithReport
INVARIANT Inv_MainSucceeds
INVARIANT Self_TreeConsistent
INVARIANT Self_RootKnown
