------------------------------- MODULE Rules -------------------------------
(* C06 -- the documented structural rules of a meta-model, as predicates over an abstract         *)
(* meta-model (what a reader of the Python text sees), independent of the front end's code.       *)
(*                                                                                               *)
(* m  == [types |-> <<T, ...>>, consts |-> <<[name |-> STRING], ...>>,                            *)
(*        funcs |-> <<[name |-> STRING, kind |-> "pattern" | "impl" | "other",                    *)
(*                    pattern |-> <<code points>>], ...>>]                                        *)
(* T  == [name, kind |-> "class" | "cprim" | "enum", bases |-> <<names>>, abstract |-> BOOLEAN,   *)
(*        props |-> <<[name, type |-> TY], ...>>, methods |-> <<names>>, invs |-> <<descriptions>>,*)
(*        hasCtor |-> BOOLEAN, args |-> <<[name, type |-> TY, default |-> "" | "None" | "other"]>>,*)
(*        refs |-> <<[role |-> "class" | "attr", type |-> name or "", attr |-> name or ""]>>,      *)
(*        literals |-> <<names>>]                                                                 *)
(* TY == [k |-> "name", n |-> name, a |-> <<>>] | [k |-> "opt", n |-> "", a |-> <<TY>>]            *)
(*     | [k |-> "list", n |-> "", a |-> <<TY>>]                                                   *)
(*                                                                                               *)
(* WellFormed(m) is the conjunction of the named rules; Violated(m) the set of rule names that    *)
(* do not hold.  RulesMut.tla applies mutation actions to well-formed templates; RulesTrace.tla   *)
(* checks `Violated(m) # {} => the front end rejected m` on observations of the real front end.   *)
EXTENDS Naturals, Sequences, FiniteSets, TLC

Elems(s) == {s[k] : k \in DOMAIN s}
NoDup(s) == \A i, j \in DOMAIN s : i < j => s[i] # s[j]
Names(s) == [k \in DOMAIN s |-> s[k].name]
Primitives == {"bool", "int", "float", "str", "bytearray"}

TIdx(m) == DOMAIN m.types
IsHier(t) == t.kind \in {"class", "cprim"}
IsClass(t) == t.kind = "class"
Named(m, n) == {k \in TIdx(m) : m.types[k].name = n}

\* the inheritance relation over the declared hierarchy members (by name)
ParentIdx(m, k) == {j \in TIdx(m) : IsHier(m.types[j]) /\ m.types[j].name \in Elems(m.types[k].bases)}
ParMap(m) == [k \in TIdx(m) |-> ParentIdx(m, k)]
RECURSIVE Up(_, _, _)
Up(PM, S, n) == LET S2 == S \cup UNION {PM[x] : x \in S}
                IN  IF n = 0 \/ S2 = S THEN S2 ELSE Up(PM, S2, n - 1)
\* strict ancestors of every type: the transitive closure of "declared base of".  The rules bind it once
\* with LET (AM) and hand it to the helpers below.
AncMap(m) == LET PM == ParMap(m) IN [k \in TIdx(m) |-> Up(PM, PM[k], Len(m.types))]
Anc(m, k) == AncMap(m)[k]
Desc(m, k) == LET AM == AncMap(m) IN {d \in TIdx(m) : k \in AM[d]}
Related(m, a, b) == LET AM == AncMap(m) IN a = b \/ a \in AM[b] \/ b \in AM[a]
LinA(AM, k) == AM[k] \cup {k}

PropNames(t) == Elems(Names(t.props))
\* inherited and own properties of class k as <<owner, position, name, type>>
AllPropsA(m, AM, k) ==
    UNION {{<<a, i, m.types[a].props[i].name, m.types[a].props[i].type>> : i \in DOMAIN m.types[a].props}
           : a \in {x \in LinA(AM, k) : IsClass(m.types[x])}}
AllProps(m, k) == AllPropsA(m, AncMap(m), k)

---------------------------------------------------------------------------------
(* acyclic inheritance from existing classes *)
R_acyclic(m) == LET AM == AncMap(m) IN \A k \in TIdx(m) : IsHier(m.types[k]) => k \notin AM[k]

R_bases_exist(m) ==
    LET HierNames == {m.types[j].name : j \in {x \in TIdx(m) : IsHier(m.types[x])}}
    IN  \A k \in TIdx(m) : IsHier(m.types[k]) =>
            \A b \in Elems(m.types[k].bases) : b \in Primitives \/ b \in HierNames

(* unique type / member / constant / function names *)
SymbolNames(m) == Names(m.types) \o Names(m.consts) \o Names(m.funcs)
U_symbols(m) == Cardinality(Elems(SymbolNames(m))) = Len(SymbolNames(m))
U_members(m) ==
    \A k \in TIdx(m) : NoDup(Names(m.types[k].props)) /\ NoDup(m.types[k].methods) /\ NoDup(m.types[k].literals)
\* two unrelated ancestors must not hand down members of the same name (an ancestor and its descendant
\* are the matter of R_no_redeclare)
U_inherited(m) ==
    LET AM == AncMap(m)
    IN  \A k \in TIdx(m) : IsClass(m.types[k]) =>
            \A a, b \in {x \in LinA(AM, k) : IsClass(m.types[x])} :
                (a # b /\ a \notin AM[b] /\ b \notin AM[a]) =>
                    /\ PropNames(m.types[a]) \cap PropNames(m.types[b]) = {}
                    /\ Elems(m.types[a].methods) \cap Elems(m.types[b].methods) = {}
R_unique_names(m) == U_symbols(m) /\ U_members(m) /\ U_inherited(m)

(* non-reserved names.  The documented lists are long (keywords of many languages, names used by the  *)
(* generated SDKs, the prefixes I_ and Must_ for types, mutable... for members); the specification     *)
(* carries representatives, compared exactly as written here.                                         *)
ReservedTypeNames == {"Match", "Class", "Visitor", "Path", "Constants", "Iterator", "Verification",
                      "Model_type", "I_thing", "Must_have", "Readonly", "Record"}
ReservedMemberNames == {"match", "model_type", "descend", "descend_once", "accept", "transform", "type_name",
                        "property_name", "mutable_thing"}
ReservedSymbolNames == {"Class", "Match", "match", "Visitor", "accept", "model_type", "type_name", "descend_once"}
R_reserved(m) ==
    /\ \A k \in TIdx(m) : m.types[k].name \notin ReservedTypeNames
    /\ \A k \in TIdx(m) : IsClass(m.types[k]) =>
          /\ PropNames(m.types[k]) \cap ReservedMemberNames = {}
          /\ Elems(m.types[k].methods) \cap ReservedMemberNames = {}
    /\ Elems(Names(m.consts)) \cap ReservedSymbolNames = {}
    /\ Elems(Names(m.funcs)) \cap ReservedSymbolNames = {}

(* no re-declared inherited members *)
R_no_redeclare(m) ==
    LET AM == AncMap(m)
    IN  \A k \in TIdx(m) : IsClass(m.types[k]) =>
            \A a \in AM[k] : IsClass(m.types[a]) =>
                /\ PropNames(m.types[k]) \cap PropNames(m.types[a]) = {}
                /\ Elems(m.types[k].methods) \cap Elems(m.types[a].methods) = {}

(* constructor arguments match the properties in name, type and order *)
HasDefault(arg) == arg.default # ""
\* property p must come before property q: same owner and earlier, or owned by a strict ancestor
PropBeforeA(AM, p, q) == (p[1] = q[1] /\ p[2] < q[2]) \/ p[1] \in AM[q[1]]
PropBefore(m, p, q) == PropBeforeA(AncMap(m), p, q)
CtorNamesMatchP(t, PP) ==
    IF PP = {} THEN t.args = <<>>
    ELSE t.hasCtor /\ NoDup(Names(t.args)) /\ Elems(Names(t.args)) = {p[3] : p \in PP}
CtorTypesMatchP(t, PP) ==
    \A i \in DOMAIN t.args : \A p \in PP : p[3] = t.args[i].name => p[4] = t.args[i].type
\* among the arguments without a default, and among those with one, the order of the properties is kept
CtorOrderKeptP(t, AM, PP) ==
    LET Of == [i \in DOMAIN t.args |-> {p \in PP : p[3] = t.args[i].name}]
    IN  \A i, j \in DOMAIN t.args :
            (i < j /\ HasDefault(t.args[i]) = HasDefault(t.args[j])) =>
                \A p \in Of[i], q \in Of[j] : ~PropBeforeA(AM, q, p)
R_ctor_matches_props(m) ==
    LET AM == AncMap(m)
    IN  \A k \in TIdx(m) : IsClass(m.types[k]) =>
            LET PP == AllPropsA(m, AM, k)
            IN  CtorNamesMatchP(m.types[k], PP) /\ CtorTypesMatchP(m.types[k], PP) /\ CtorOrderKeptP(m.types[k], AM, PP)

(* optional constructor arguments default to None *)
R_optional_default_none(m) ==
    \A k \in TIdx(m) : IsClass(m.types[k]) =>
        \A i \in DOMAIN m.types[k].args :
            m.types[k].args[i].type.k = "opt" => m.types[k].args[i].default = "None"

(* supported type shapes: no Optional of Optional, no List of Optional *)
BeneathOpt(ty) == IF ty.k = "opt" THEN ty.a[1] ELSE ty
NestedOptional(ty) == ty.k = "opt" /\ ty.a[1].k = "opt"
ListOfOptional(ty) == BeneathOpt(ty).k = "list" /\ BeneathOpt(ty).a[1].k = "opt"
R_type_shapes(m) ==
    \A k \in TIdx(m) : IsClass(m.types[k]) =>
        \A i \in DOMAIN m.types[k].props :
            ~NestedOptional(m.types[k].props[i].type) /\ ~ListOfOptional(m.types[k].props[i].type)

(* invariant descriptions are unique within a class or constrained primitive, inherited ones included *)
R_unique_inv_desc(m) ==
    LET AM == AncMap(m)
    IN  \A k \in TIdx(m) : IsHier(m.types[k]) =>
            /\ NoDup(m.types[k].invs)
            /\ \A a, b \in LinA(AM, k) : a # b => Elems(m.types[a].invs) \cap Elems(m.types[b].invs) = {}

(* documentation references resolve: :class:`X` names a type; :attr:`y` a property of the documented   *)
(* class (own or inherited) or a literal of the documented enumeration; :attr:`X.y` the same within X  *)
AttrResolvesA(m, AM, j, attr) ==
    CASE m.types[j].kind = "enum" -> attr \in Elems(m.types[j].literals)
      [] m.types[j].kind = "class" -> \E a \in LinA(AM, j) : IsClass(m.types[a]) /\ attr \in PropNames(m.types[a])
      [] OTHER -> FALSE
RefResolvesA(m, AM, k, r) ==
    IF r.role = "class" THEN \E j \in TIdx(m) : m.types[j].name = r.type
    ELSE IF r.type = "" THEN AttrResolvesA(m, AM, k, r.attr)
    ELSE \E j \in TIdx(m) : m.types[j].name = r.type /\ AttrResolvesA(m, AM, j, r.attr)
R_doc_refs(m) ==
    LET AM == AncMap(m)
    IN  \A k \in TIdx(m) : \A i \in DOMAIN m.types[k].refs : RefResolvesA(m, AM, k, m.types[k].refs[i])

(* pattern functions are non-empty and anchored with ^ and $ *)
Caret == 94
Dollar == 36
Anchored(p) == Len(p) >= 2 /\ p[1] = Caret /\ p[Len(p)] = Dollar
R_pattern_anchored(m) == \A f \in DOMAIN m.funcs : m.funcs[f].kind = "pattern" => Anchored(m.funcs[f].pattern)

---------------------------------------------------------------------------------
RuleNames == {"R_acyclic", "R_bases_exist", "R_unique_names", "R_reserved", "R_no_redeclare",
              "R_ctor_matches_props", "R_optional_default_none", "R_type_shapes", "R_unique_inv_desc",
              "R_doc_refs", "R_pattern_anchored"}
Holds(rule, m) ==
    CASE rule = "R_acyclic" -> R_acyclic(m)
      [] rule = "R_bases_exist" -> R_bases_exist(m)
      [] rule = "R_unique_names" -> R_unique_names(m)
      [] rule = "R_reserved" -> R_reserved(m)
      [] rule = "R_no_redeclare" -> R_no_redeclare(m)
      [] rule = "R_ctor_matches_props" -> R_ctor_matches_props(m)
      [] rule = "R_optional_default_none" -> R_optional_default_none(m)
      [] rule = "R_type_shapes" -> R_type_shapes(m)
      [] rule = "R_unique_inv_desc" -> R_unique_inv_desc(m)
      [] rule = "R_doc_refs" -> R_doc_refs(m)
      [] rule = "R_pattern_anchored" -> R_pattern_anchored(m)
Violated(m) == {rule \in RuleNames : ~Holds(rule, m)}
WellFormed(m) == Violated(m) = {}
=============================================================================
