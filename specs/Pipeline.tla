------------------------------ MODULE Pipeline ------------------------------
(* C01 / C03 / C28 -- one run of the generator (main.execute + run.load_model + a target) or of   *)
(* the smoke tool (smoke.main.execute) as a state machine: one action per stage and checkpoint.   *)
(*                                                                                               *)
(* Every stage either succeeds or finds some errors (in the design-level model check, M, it       *)
(* nondeterministically finds 0..MaxErr of them).  A stage that fails either prints a one-line    *)
(* message (argument defects, syntax error, missing snippet) or hands its errors to `Report`,     *)
(* which writes "headline:" + one "* " bullet per entry (+ indented continuation lines) to        *)
(* stderr; the run then ends through `Exit`, the only action that sets the exit status.           *)
(*                                                                                               *)
(* The same actions are used in two ways:                                                         *)
(*   Strict = TRUE   the design: stages in program order, translate returns at its checkpoints.   *)
(*                   Model-checked (MC_Pipeline.cfg) against the clauses of C01/C03/C28.          *)
(*   Strict = FALSE  the contract only: stages may be skipped (a trace can have a coarser grain), *)
(*                   phases of translate come in any order, composite "return" actions stand for  *)
(*                   stages that were not observed.  PipelineTrace.tla binds every action to one  *)
(*                   logged event of the real code; also model-checked (MC_PipelineLoose.cfg), so *)
(*                   the clauses do not depend on the order of passes or on the checkpoints.      *)
(* There is deliberately no action for an exception leaving a stage: a run of the real code in    *)
(* which that happens is not a behaviour of this machine and is rejected at that stage.           *)
EXTENDS PipelineBase, TLC

CONSTANTS MaxErr,     \* M: a stage finds 0..MaxErr errors
          Strict      \* see above

VARIABLES tool,          \* "main" | "smoke"
          input,         \* class of the input: [argDefect, parses, cache]
          stage,         \* the next stage in program order; "Exit" = about to leave; "Done" = terminated
          phase,         \* translate: index in Phases of the last phase run (0 = none)
          failed,        \* "no" | "oneliner" | "report" | "unknown": how the run has decided to fail
                         \* ("unknown": seen only through a composite return, Strict = FALSE)
          pending,       \* a report still has to be written
          errs,          \* errors found so far by components: set of [st |-> stage, id |-> id]
          reported,      \* ids of the errors written to stderr
          stderrLines,   \* classes of the lines written to stderr
          lex,           \* ReportLexer state after stderrLines (on-line sub-machine)
          stdoutTail,    \* "none" | "generated" ("Code generated to: <output dir>" is the last line)
          rc,            \* exit status, NoRc until Exit
          wrote,         \* classes of paths written: subset of {"cache", "output"}
          comp           \* smoke: verdict per component: "notrun" | "ok" | "failed"

vars == <<tool, input, stage, phase, failed, pending, errs, reported, stderrLines, lex, stdoutTail, rc, wrote, comp>>
out == <<stderrLines, lex, reported>>

NoRc == 9
ArgDefects == {"none", "model_not_file", "snippets_not_dir", "output_not_dir"}   \* existing paths only
CacheModes == {"off", "miss", "hit"}

Inputs == [argDefect : ArgDefects, parses : BOOLEAN, cache : CacheModes]

IdsOf(es) == {e.id : e \in es}
ErrsAt(S) == {e \in errs : e.st \in S}
FrontEndStages == {"ParsePy", "CheckImports", "ToSymbolTable", "Translate"}
TranslateErrs == ErrsAt({"Translate"})

Init ==
    /\ tool \in Tools
    /\ input \in Inputs
    /\ tool = "smoke" => input.argDefect = "none" /\ input.cache = "off"
    /\ stage = StagesOf(tool)[1]
    /\ phase = 0 /\ failed = "no" /\ pending = FALSE
    /\ errs = {} /\ reported = {} /\ stderrLines = <<>> /\ lex = LexInit
    /\ stdoutTail = "none" /\ rc = NoRc /\ wrote = {}
    /\ comp = [c \in SmokeComponents |-> "notrun"]

-----------------------------------------------------------------------------
(* helpers *)

Live == stage \notin {"Exit", "Done"} /\ failed = "no"

\* may stage s run now?  Strict: it is the next one.  Loose: it has not been passed yet.
\* An error that has been found is never left behind: a later stage runs only when no error is
\* outstanding, except where errors are collected on purpose (the phases of translate up to the
\* next checkpoint; C# types + verification in the smoke tool).
Outstanding(s) ==
    \/ errs = {}
    \/ s = "Translate" /\ errs = ErrsAt({"Translate"})
    \/ s \in {"CsVerification", "CsReport"} /\ errs = ErrsAt({"CsTypes", "CsVerification"})

\* Loose: skipping a stage stands for "it ran unobserved and passed", which some inputs exclude
SkipOk(q) ==
    CASE q = "CheckArgs" -> input.argDefect = "none"
      [] q = "ParsePy"   -> input.parses \/ input.cache = "hit"
      [] OTHER           -> TRUE
CanSkipTo(s) ==
    /\ Rank(tool, stage) <= Rank(tool, s)
    /\ \A i \in Rank(tool, stage)..(Rank(tool, s) - 1) : SkipOk(StagesOf(tool)[i])

At(s) ==
    /\ Live
    /\ HasStage(tool, s)
    /\ IF Strict THEN stage = s ELSE CanSkipTo(s)
    /\ Outstanding(s)

Find(s, ids) == errs' = errs \cup {[st |-> s, id |-> i] : i \in ids}

Emit(ls) == stderrLines' = stderrLines \o ls /\ lex' = LexRun(stderrLines \o ls)

RECURSIVE EntryLines(_, _)
EntryLines(entries, i) ==
    IF i > Len(entries) THEN <<>>
    ELSE <<"bullet">> \o [j \in 1..entries[i] |-> "cont"] \o EntryLines(entries, i + 1)
\* entries: sequence (one per bulleted entry) of the number of continuation lines
ReportLines(entries) ==
    IF \A i \in 1..Len(entries) : entries[i] = 0
    THEN <<"headline">> \o [i \in 1..Len(entries) |-> "bullet"]     \* (no recursion: a report can have many entries)
    ELSE <<"headline">> \o EntryLines(entries, 1)

FailOneLiner ==
    /\ failed' = "oneliner" /\ pending' = FALSE /\ stage' = "Exit"
    /\ Emit(<<"other">>) /\ UNCHANGED reported

FailReport == failed' = "report" /\ pending' = TRUE /\ stage' = "Exit" /\ UNCHANGED out

\* Loose: the target verifies and generates piecewise (one call per file), so these stages may repeat
Repeatable == {"TargetVerify", "TargetGenerate"}
Pass(s) ==
    /\ stage' = IF ~Strict /\ s \in Repeatable THEN s ELSE NextStage(tool, s)
    /\ UNCHANGED <<failed, pending>> /\ UNCHANGED out

SetComp(c, v) == comp' = IF tool = "smoke" THEN [comp EXCEPT ![c] = v] ELSE comp

-----------------------------------------------------------------------------
(* main.execute: basic checks, snippets *)

CheckArgs ==
    /\ At("CheckArgs")
    /\ IF input.argDefect = "none" THEN Pass("CheckArgs") ELSE FailOneLiner
    /\ UNCHANGED <<tool, input, phase, errs, stdoutTail, rc, wrote, comp>>

ReadSnippets(ids) ==
    /\ At("ReadSnippets")
    /\ input.argDefect = "none"
    /\ Find("ReadSnippets", ids)
    /\ IF ids = {} THEN Pass("ReadSnippets") ELSE FailReport
    /\ UNCHANGED <<tool, input, phase, stdoutTail, rc, wrote, comp>>

-----------------------------------------------------------------------------
(* run.load_model *)

\* entry: with a cache hit the stored symbol table is returned and the front end is skipped
LoadModel ==
    /\ At("LoadModel")
    /\ input.argDefect = "none"
    /\ stage' = IF input.cache = "hit" THEN "TargetVerify" ELSE "ParsePy"
    /\ UNCHANGED <<tool, input, phase, failed, pending, errs, stdoutTail, rc, wrote, comp>> /\ UNCHANGED out

ParsePy(ok) ==
    /\ At("ParsePy")
    /\ ok = input.parses
    /\ IF ok THEN Pass("ParsePy") /\ UNCHANGED comp
             ELSE FailOneLiner /\ SetComp("frontend", "failed")
    /\ UNCHANGED <<tool, input, phase, errs, stdoutTail, rc, wrote>>

CheckImports(ids) ==
    /\ At("CheckImports")
    /\ Find("CheckImports", ids)
    /\ IF ids = {} THEN Pass("CheckImports") /\ UNCHANGED comp
                   ELSE FailReport /\ SetComp("frontend", "failed")
    /\ UNCHANGED <<tool, input, phase, stdoutTail, rc, wrote>>

ToSymbolTable(ids) ==
    /\ At("ToSymbolTable")
    /\ Find("ToSymbolTable", ids)
    /\ IF ids = {} THEN Pass("ToSymbolTable") /\ UNCHANGED comp
                   ELSE FailReport /\ SetComp("frontend", "failed")
    /\ UNCHANGED <<tool, input, phase, stdoutTail, rc, wrote>>

\* one phase of intermediate.translate; errors accumulate until the next checkpoint
TranslatePhase(p, ids) ==
    /\ At("Translate")
    /\ Strict => /\ stage = "Translate"
                 /\ phase = PhaseIdx(p) - 1
                 /\ ~(phase \in Checkpoints /\ TranslateErrs # {})
    /\ Find("Translate", ids)
    /\ phase' = PhaseIdx(p)
    /\ stage' = "Translate"
    /\ UNCHANGED <<tool, input, failed, pending, stdoutTail, rc, wrote, comp>> /\ UNCHANGED out

\* translate returns: at a checkpoint with the errors found so far, or after the last phase with
\* the symbol table.  `ids` are errors of translate itself (found outside of any phase).
TranslateReturn(ids) ==
    /\ At("Translate")
    /\ Strict => /\ stage = "Translate"
                 /\ ids = {}
                 /\ \/ phase \in Checkpoints /\ TranslateErrs # {}
                    \/ phase = NPhases /\ TranslateErrs = {}
    /\ Find("Translate", ids)
    /\ IF TranslateErrs = {} /\ ids = {}
       THEN Pass("Translate") /\ SetComp("frontend", "ok")
       ELSE FailReport /\ SetComp("frontend", "failed")
    /\ UNCHANGED <<tool, input, phase, stdoutTail, rc, wrote>>

\* the symbol table is pickled when caching is on and the entry was missing
CacheWrite ==
    /\ At("CacheWrite")
    /\ Strict => errs = {}
    /\ wrote' = IF input.cache = "miss" THEN wrote \cup {"cache"} ELSE wrote
    /\ Pass("CacheWrite")
    /\ UNCHANGED <<tool, input, phase, errs, stdoutTail, rc, comp>>

-----------------------------------------------------------------------------
(* <target>.main.execute *)

TargetVerify(ids) ==
    /\ At("TargetVerify")
    /\ Find("TargetVerify", ids)
    /\ IF ids = {} THEN Pass("TargetVerify") ELSE FailReport
    /\ UNCHANGED <<tool, input, phase, stdoutTail, rc, wrote, comp>>

\* generation proper; `configOk = FALSE`: a mandatory snippet is missing or malformed (one-line message)
TargetGenerate(configOk, ids) ==
    /\ At("TargetGenerate")
    /\ ~configOk => ids = {}
    /\ Find("TargetGenerate", ids)
    /\ IF ~configOk THEN FailOneLiner
       ELSE IF ids = {} THEN Pass("TargetGenerate") ELSE FailReport
    /\ UNCHANGED <<tool, input, phase, stdoutTail, rc, wrote, comp>>

\* writing the files; a failing write is reported like an error (it is not an error of a component)
WriteFiles(ok) ==
    /\ At("WriteFiles")
    /\ IF ok
       THEN /\ wrote' = wrote \cup {"output"} /\ stdoutTail' = "generated"
            /\ Pass("WriteFiles")
       ELSE /\ FailReport /\ UNCHANGED <<wrote, stdoutTail>>
    /\ UNCHANGED <<tool, input, phase, errs, rc, comp>>

-----------------------------------------------------------------------------
(* smoke.main.execute after the front end *)

Infer(ids) ==
    /\ At("Infer")
    /\ Find("Infer", ids)
    /\ IF ids = {} THEN Pass("Infer") /\ SetComp("infer", "ok")
                   ELSE FailReport /\ SetComp("infer", "failed")
    /\ UNCHANGED <<tool, input, phase, stdoutTail, rc, wrote>>

CsVerify(ids) ==
    /\ At("CsVerify")
    /\ Find("CsVerify", ids)
    /\ IF ids = {} THEN Pass("CsVerify") /\ SetComp("csverify", "ok")
                   ELSE FailReport /\ SetComp("csverify", "failed")
    /\ UNCHANGED <<tool, input, phase, stdoutTail, rc, wrote>>

\* types and verification are both generated, their errors are reported together
CsTypes(ids) ==
    /\ At("CsTypes")
    /\ Find("CsTypes", ids)
    /\ Pass("CsTypes") /\ SetComp("cstypes", IF ids = {} THEN "ok" ELSE "failed")
    /\ UNCHANGED <<tool, input, phase, stdoutTail, rc, wrote>>

CsVerification(ids) ==
    /\ At("CsVerification")
    /\ Find("CsVerification", ids)
    /\ Pass("CsVerification") /\ SetComp("csverification", IF ids = {} THEN "ok" ELSE "failed")
    /\ UNCHANGED <<tool, input, phase, stdoutTail, rc, wrote>>

CsReport ==
    /\ At("CsReport")
    /\ IF ErrsAt({"CsVerify", "CsTypes", "CsVerification"}) = {} THEN Pass("CsReport") ELSE FailReport
    /\ UNCHANGED <<tool, input, phase, errs, stdoutTail, rc, wrote, comp>>

-----------------------------------------------------------------------------
(* reporting and termination *)

\* run.write_error_report: headline, then one bulleted entry per element of `entries`
\* (entries[i] = number of indented continuation lines of entry i)
\* Loose: the call itself may be the first sign of the failure (a failing write, a malformed snippet, ...)
Report(entries) ==
    /\ IF Strict THEN pending /\ stage = "Exit"
                 ELSE stage # "Done" /\ (pending \/ failed = "no")
    /\ Len(entries) >= 1
    /\ Emit(ReportLines(entries))
    /\ reported' = IdsOf(errs)
    /\ pending' = FALSE
    /\ failed' = IF failed \in {"no", "unknown"} THEN "report" ELSE failed
    /\ stage' = "Exit"
    /\ UNCHANGED <<tool, input, phase, errs, stdoutTail, rc, wrote, comp>>

\* Strict: only from stage "Exit", after the pending report has been written.
\* Loose: a report whose writing was not observed is assumed written (composite step), and a run that
\* has passed the front end may end without its remaining stages having been observed.
FrontEndPassed ==
    \/ stage = "Exit"
    \/ tool = "main" /\ Rank(tool, stage) >= Rank(tool, "TargetVerify")
    \/ tool = "smoke" /\ Rank(tool, stage) >= Rank(tool, "Infer")
    \/ CanSkipTo("Exit")

Exit ==
    /\ stage # "Done"
    /\ IF Strict THEN stage = "Exit" /\ ~pending
                 ELSE failed # "no" \/ (FrontEndPassed /\ errs = {})
    /\ IF pending
       THEN /\ Emit(IF failed = "unknown" THEN <<"other">> ELSE ReportLines(<<0>>))
            /\ reported' = IdsOf(errs)
       ELSE UNCHANGED out
    /\ pending' = FALSE
    /\ rc' = IF failed = "no" THEN 0 ELSE 1
    /\ stdoutTail' = IF failed = "no" /\ tool = "main" THEN "generated" ELSE stdoutTail
    /\ stage' = "Done"
    /\ UNCHANGED <<tool, input, phase, failed, errs, wrote, comp>>

-----------------------------------------------------------------------------
(* composite returns: stand for stages whose events are missing in a trace (Strict = FALSE only)  *)

\* run.load_model returned: accepted (symbol table) or rejected (error text)
LoadModelReturn(accepted) ==
    /\ ~Strict /\ tool = "main"
    /\ stage # "Done"
    /\ IF accepted
       THEN /\ failed = "no" /\ errs = {}
            /\ CanSkipTo("TargetVerify")
            /\ stage' = "TargetVerify"
            /\ UNCHANGED <<failed, pending>>
       ELSE /\ failed' = IF failed = "no" THEN "unknown" ELSE failed
            /\ pending' = IF failed = "no" THEN TRUE ELSE pending
            /\ Rank(tool, stage) <= Rank(tool, "TargetVerify") \/ stage = "Exit"
            /\ stage' = "Exit"
    /\ UNCHANGED <<tool, input, phase, errs, stdoutTail, rc, wrote, comp>> /\ UNCHANGED out

\* <target>.main.execute returned r
TargetReturn(r) ==
    /\ ~Strict /\ tool = "main"
    /\ stage # "Done"
    /\ IF r = 0
       THEN /\ failed = "no" /\ errs = {} /\ CanSkipTo("Exit")
            /\ stdoutTail' = "generated" /\ wrote' = wrote \cup {"output"}
            /\ UNCHANGED <<failed, pending>>
       ELSE /\ failed' = IF failed = "no" THEN "unknown" ELSE failed
            /\ pending' = IF failed = "no" THEN TRUE ELSE pending
            /\ UNCHANGED <<stdoutTail, wrote>>
    /\ stage' = "Exit"
    /\ UNCHANGED <<tool, input, phase, errs, rc, comp>> /\ UNCHANGED out

-----------------------------------------------------------------------------
(* M: every stage nondeterministically succeeds or finds 1..MaxErr errors *)

Ids(s, k) == {<<s, i>> : i \in 1..k}
Conts == 0..1

Next ==
    \/ CheckArgs
    \/ \E k \in 0..MaxErr : ReadSnippets(Ids("ReadSnippets", k))
    \/ LoadModel
    \/ \E ok \in BOOLEAN : ParsePy(ok)
    \/ \E k \in 0..MaxErr : CheckImports(Ids("CheckImports", k))
    \/ \E k \in 0..MaxErr : ToSymbolTable(Ids("ToSymbolTable", k))
    \/ \E p \in 1..NPhases, k \in 0..MaxErr : TranslatePhase(Phases[p], Ids(Phases[p], k))
    \/ \E k \in 0..(IF Strict THEN 0 ELSE 1) : TranslateReturn(Ids("TranslateOwn", k))
    \/ CacheWrite
    \/ \E k \in 0..MaxErr : TargetVerify(Ids("TargetVerify", k))
    \/ \E ok \in BOOLEAN, k \in 0..MaxErr : TargetGenerate(ok, Ids("TargetGenerate", k))
    \/ \E ok \in BOOLEAN : WriteFiles(ok)
    \/ \E k \in 0..MaxErr : Infer(Ids("Infer", k))
    \/ \E k \in 0..MaxErr : CsVerify(Ids("CsVerify", k))
    \/ \E k \in 0..MaxErr : CsTypes(Ids("CsTypes", k))
    \/ \E k \in 0..MaxErr : CsVerification(Ids("CsVerification", k))
    \/ CsReport
    \/ \E n \in 1..MaxErr : \E entries \in [1..n -> Conts] : Report(entries)
    \/ Exit
    \/ \E a \in BOOLEAN : LoadModelReturn(a)
    \/ \E r \in 0..1 : TargetReturn(r)

Spec == Init /\ [][Next]_vars /\ WF_vars(Next)

-----------------------------------------------------------------------------
(* properties *)

Done == stage = "Done"

TypeOK ==
    /\ tool \in Tools /\ input \in Inputs
    /\ \E i \in 1..Len(StagesOf(tool)) : StagesOf(tool)[i] = stage
    /\ phase \in 0..NPhases
    /\ failed \in {"no", "oneliner", "report", "unknown"} /\ pending \in BOOLEAN
    /\ reported \subseteq IdsOf(errs)
    /\ lex \in LexStates
    /\ stdoutTail \in {"none", "generated"}
    /\ rc \in {0, 1, NoRc}
    /\ wrote \subseteq {"cache", "output"}

\* C03: a run exits 0 exactly when it wrote nothing to stderr
ExitIffSilent == Done => ExitIffSilentOf(rc, stderrLines)
\* C03: ... and then stdout ends with "Code generated to: <output dir>"
StdoutTail == Done /\ tool = "main" => StdoutTailOf(rc, stdoutTail = "generated")
\* C03: a non-zero exit comes with a one-line message or a well-formed report
ReportShape == Done => ReportShapeOf(rc, stderrLines)
ReportIsReport == Done /\ failed = "report" => lex \in LexAccepting /\ IsReport(stderrLines)
LexOnline == lex = LexRun(stderrLines) /\ lex = LexFold(stderrLines)
\* C03: no error is silently dropped
FoundSubsetReported == Done => FoundSubsetReportedOf(IdsOf(errs), reported)
ErrorsImplyFailure == Done /\ errs # {} => rc = 1
\* C01: the front end either accepts or reports; rejected => exit status 1 with a non-empty stderr
FrontEndRejectedExits1 ==
    Done /\ (ErrsAt(FrontEndStages) # {} \/ (input.argDefect = "none" /\ input.cache # "hit" /\ ~input.parses))
        => rc = 1 /\ Len(stderrLines) > 0
\* a run ends only through Exit
RcOnlyWhenDone == (rc # NoRc) <=> Done
NoOtherTermination == [][stage' = "Done" /\ stage # "Done" => (rc = NoRc /\ rc' # NoRc /\ (Strict => stage = "Exit"))]_vars
DoneIsFinal == [][stage = "Done" => UNCHANGED vars]_vars
\* C28
\* (Loose: a component whose stage was not observed stays "notrun")
SmokeAgrees ==
    Done /\ tool = "smoke" =>
        /\ (rc = 0) => \A c \in SmokeComponents : comp[c] # "failed" /\ (Strict => comp[c] = "ok")
        /\ (\E c \in SmokeComponents : comp[c] = "failed") => (rc = 1 /\ Len(stderrLines) > 0)
        /\ Strict => SmokeAgreesOf(rc, comp, stderrLines)
SmokeFailureHasShape == Done /\ tool = "smoke" /\ (\E c \in SmokeComponents : comp[c] = "failed") => ReportShapeOf(rc, stderrLines) /\ rc = 1
\* files
OutputOnlyWithModel == "output" \in wrote => ErrsAt(FrontEndStages \cup {"ReadSnippets"}) = {}
CacheOnlyOnMiss == "cache" \in wrote => input.cache = "miss" /\ (Strict => ErrsAt(FrontEndStages) = {})
SuccessWrites == Done /\ rc = 0 /\ tool = "main" /\ Strict => "output" \in wrote
\* state constraint for the quick tier of the loose model check: at most two errors outstanding
ErrBound == Cardinality(errs) <= 2
\* liveness: every run terminates (Strict)
Termination == <>Done
=============================================================================
