----------------------------- MODULE SdkConstGen -----------------------------
(* G for C30: primitive constants with boundary values, constant sets with superset_of chains and diamonds     *)
(* (<= MaxSets sets), enumerations with literal values that need escaping and near-miss texts -- as JSON.      *)
EXTENDS Sdk, Json, IOUtils, Randomization
CONSTANTS MaxSets, NPerK

-----------------------------------------------------------------------------
(* primitive constants *)
\* n times the word "lorem" separated by sep
RECURSIVE Words(_, _)
Words(n, sep) == IF n = 1 THEN <<108, 111, 114, 101, 109>> ELSE <<108, 111, 114, 101, 109>> \o sep \o Words(n - 1, sep)
PrimValues == <<
    VBool(TRUE), VBool(FALSE),
    VInt("0"), VInt("1"), VInt("7"), VInt("-1"), VInt("2147483648"), VInt("9223372036854775808"), VInt("123456789012345678901234567890"), VInt("-123456789012345678901234567890"),
    VFloat("0.0"), VFloat("1.5"), VFloat("-2.5"), VFloat("1e+300"), VFloat("5e-324"), VFloat("1e-07"), VFloat("123456789.125"), VFloat("inf"),
    \* float constants written as integer literals (the exact value of the literal is the declared value): 7, 2^53, 2^53 + 1, 10^23
    VFloat("7"), VFloat("9007199254740992"), VFloat("9007199254740993"), VFloat("100000000000000000000000"),
    VStr(<<>>), VStr(<<97>>), VStr(<<39>>), VStr(<<34>>), VStr(<<39, 34>>), VStr(<<39, 39, 34>>), VStr(<<34, 34, 39>>), VStr(<<92>>), VStr(<<92, 110>>), VStr(<<92, 39>>), VStr(<<97, 92>>),
    VStr(<<10>>), VStr(<<13>>), VStr(<<13, 10>>), VStr(<<9>>), VStr(<<1>>), VStr(<<7, 8, 11, 12>>), VStr(<<27>>), VStr(<<127>>), VStr(<<133>>), VStr(<<8232>>), VStr(<<65279>>),
    VStr(<<128512>>), VStr(<<97, 128512, 98>>), VStr(<<233, 8364>>), VStr(<<123, 125>>), VStr(<<123, 120, 125>>), VStr(<<37, 115>>), VStr(<<36, 123, 120, 125>>), VStr(<<34, 34, 34>>), VStr(<<39, 39, 39>>),
    VStr(<<32>>), VStr(<<32, 97, 32>>),
    \* not printable (str.isprintable), below U+0100, above U+00FF, above U+FFFF
    VStr(<<173>>), VStr(<<160, 97>>), VStr(<<8203>>), VStr(<<97, 8232, 98>>), VStr(<<8233>>), VStr(<<8238, 97, 8236>>), VStr(<<57344>>),
    VStr(<<917505>>), VStr(<<97, 983040, 98>>), VStr(<<1114111>>), VStr(<<917505, 48>>),
    \* long texts (a generator may wrap them): plain words, with TAB / LF / CR / VT / FF / several blanks between words, without any blank
    VStr(Words(14, <<32>>)), VStr(Words(14, <<9>>)), VStr(Words(14, <<10>>)), VStr(Words(14, <<13, 10>>)), VStr(Words(14, <<11>>)), VStr(Words(14, <<12>>)),
    VStr(Words(14, <<32, 32>>)), VStr(<<32>> \o Words(14, <<32>>) \o <<32>>), VStr(Words(30, <<>>)), VStr(Words(14, <<45>>)), VStr(Words(40, <<32, 9, 32>>)),
    VStr(Words(14, <<8232>>)), VStr(Words(14, <<39, 34, 92>>)),
    VBytes(<<>>), VBytes(<<0>>), VBytes(<<255>>), VBytes(<<0, 255, 34, 92>>), VBytes(<<1, 2, 3, 4, 5, 6, 7, 8, 9>>) >>
PrimsOut == T([i \in 1..Len(PrimValues) |-> [id |-> i, declared |-> PrimValues[i]]])

-----------------------------------------------------------------------------
(* constant sets: set i may be declared a superset of earlier sets (a DAG: chains, forks, diamonds); its listed *)
(* literals are its extras plus the closure (conforming) -- or the closure minus one literal (non-conforming:    *)
(* the front end has to refuse, otherwise the generated set would have to contain the literal anyway).          *)
Universe == {1, 2, 3}
Graphs(k) == {f \in [1..k -> SUBSET (1..k)] : \A i \in 1..k : f[i] \subseteq 1..(i - 1)}
RECURSIVE OwnOf(_, _, _)
OwnOf(f, e, i) == e[i] \cup UNION {OwnOf(f, e, j) : j \in f[i]}
Conf(k, f, e) == T([i \in 1..k |-> [own |-> OwnOf(f, e, i), supersetOf |-> f[i]]])
AllConf(k) == {Conf(k, f, e) : f \in Graphs(k), e \in [1..k -> SUBSET (IF k <= 2 THEN Universe ELSE {1, 2})]}
\* drop one inherited literal from one set
NonConfOf(sets) == {[sets EXCEPT ![i].own = sets[i].own \ {l}] : i \in 1..Len(sets), l \in Universe} \ {sets}
Pick(S) == IF Cardinality(S) <= NPerK THEN S ELSE RandomSubset(NPerK, S)
ConfScen == UNION {Pick(AllConf(k)) : k \in 1..MaxSets}
NonConfScen == Pick(UNION {{s \in NonConfOf(c) : ~Conforming(s)} : c \in ConfScen})
SetsOut1(conf, non) == T([i \in 1..Len(conf) |-> [id |-> i, sets |-> conf[i], conforming |-> TRUE]])
                       \o T([i \in 1..Len(non) |-> [id |-> Len(conf) + i, sets |-> non[i], conforming |-> FALSE]])
SetsOut == SetsOut1(SetToSeq(ConfScen), SetToSeq(NonConfScen))
ASSUME \A i \in 1..Len(SetsOut) : SetsOut[i].conforming = Conforming(SetsOut[i].sets)

-----------------------------------------------------------------------------
(* enumerations *)
Id1(src, lo, cap, up) == [src |-> src, lo |-> <<lo>>, cap |-> <<cap>>, up |-> <<up>>]
Id(src, lo, cap, up) == [src |-> src, lo |-> lo, cap |-> cap, up |-> up]
L(name, val) == [name |-> name, val |-> val]
I_A == Id1("Aa", "aa", "Aa", "AA")
I_B == Id1("Bb", "bb", "Bb", "BB")
I_C == Id1("Cc", "cc", "Cc", "CC")
I_D == Id("Some_URL_literal", <<"some", "url", "literal">>, <<"Some", "Url", "Literal">>, <<"SOME", "URL", "LITERAL">>)
EnumName == Id("Some_enum", <<"some", "enum">>, <<"Some", "Enum">>, <<"SOME", "ENUM">>)
Enums == <<
    << L(I_A, <<82, 69, 68>>), L(I_B, <<103, 114, 32, 101, 101, 110>>), L(I_C, <<>>), L(I_D, <<60, 38, 62, 39, 34, 92>>) >>,        \* RED, "gr een", "", <&>'"\
    << L(I_A, <<39>>), L(I_B, <<34>>), L(I_C, <<92>>), L(I_D, <<39, 34, 92, 110>>) >>,                                              \* ' " \ '"\n (backslash n)
    << L(I_A, <<10>>), L(I_B, <<13, 10>>), L(I_C, <<97, 9, 98>>), L(I_D, <<128512>>) >>,                                            \* LF, CRLF, a TAB b, astral
    << L(I_A, <<97>>), L(I_B, <<97, 98>>), L(I_C, <<97, 98, 99>>), L(I_D, <<65>>) >>,                                               \* prefixes, case variant
    << L(I_A, <<65, 97>>), L(I_B, <<65, 65>>), L(I_D, <<83, 111, 109, 101, 95, 85, 82, 76, 95, 108, 105, 116, 101, 114, 97, 108>>) >>,  \* values equal to names / python names
    << L(I_A, <<120>>) >>,
    << L(I_A, <<120>>), L(I_B, <<120>>) >>,                                                                                         \* duplicate value
    << L(I_A, <<123, 125>>), L(I_B, <<37, 115>>), L(I_C, <<1>>), L(I_D, <<32>>) >>,                                                 \* {} %s U+0001 blank
    << L(I_A, <<8232>>), L(I_B, <<97, 8203, 98>>), L(I_C, <<65279, 120>>), L(I_D, <<173>>) >>,                                      \* not printable, above U+00FF: LS, ZWSP, BOM; soft hyphen
    << L(I_A, <<917505>>), L(I_B, <<983040, 48>>), L(I_C, <<1114111>>), L(I_D, <<57344, 8233>>) >>                                  \* not printable, above U+FFFF: TAG, private use; PS
    >>
Distinct(lits) == \A a, b \in 1..Len(lits) : a # b => lits[a].val # lits[b].val
NearMisses(lits) ==
    {<<>>, <<32>>} \cup UNION {{lits[q].val \o <<32>>, <<32>> \o lits[q].val, lits[q].val \o lits[q].val,
                               IF lits[q].val = <<>> THEN <<0>> ELSE Tail(lits[q].val), IF lits[q].val = <<>> THEN <<0>> ELSE SubSeq(lits[q].val, 1, Len(lits[q].val) - 1)} : q \in 1..Len(lits)}
EnumsOut == T([i \in 1..Len(Enums) |-> [id |-> i, enum |-> [name |-> EnumName, lits |-> Enums[i]], distinct |-> Distinct(Enums[i]), texts |-> SetToSeq(NearMisses(Enums[i]))]])

Out(what, path, v) == JsonSerialize(path, v) /\ PrintT(<<"@@PRINT@@ " \o what, Len(v)>>)
ASSUME atoi(IOEnv.VERIF_PART) = 0 => Out("prims", IOEnv.VERIF_OUT_PRIMS, PrimsOut) /\ Out("sets", IOEnv.VERIF_OUT_SETS, SetsOut) /\ Out("enums", IOEnv.VERIF_OUT_ENUMS, EnumsOut)
VARIABLE dummy
Init == dummy = 0
Next == UNCHANGED dummy
=============================================================================
