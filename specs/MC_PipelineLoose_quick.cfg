SPECIFICATION Spec
CONSTANTS
  MaxErr = 1
  Strict = FALSE
INVARIANT TypeOK
INVARIANT ExitIffSilent
INVARIANT StdoutTail
INVARIANT ReportShape
INVARIANT ReportIsReport
INVARIANT LexOnline
INVARIANT FoundSubsetReported
INVARIANT ErrorsImplyFailure
INVARIANT FrontEndRejectedExits1
INVARIANT RcOnlyWhenDone
INVARIANT SmokeAgrees
INVARIANT SmokeFailureHasShape
INVARIANT OutputOnlyWithModel
INVARIANT CacheOnlyOnMiss
INVARIANT SuccessWrites
PROPERTY NoOtherTermination
PROPERTY DoneIsFinal
CONSTRAINT ErrBound
