INIT Init
NEXT Next
CONSTANTS
  MaxLen = 2
  SmallLen = 3
  SmallSize = 10
  NSample3 = 0
  NSample4 = 0
