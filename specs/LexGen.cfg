INIT Init
NEXT Next
CONSTANTS
  MaxLen = 2
  SmallLen = 3
  NSample = 3000
  SampleLen = 3
