INIT Init
NEXT Next
CONSTANTS
  MaxLen = 3
  AllUnits = FALSE
INVARIANT EscapedTextIsWellFormed
INVARIANT Total
INVARIANT RawNeedsEscaping
INVARIANT LoneMarkupIsRejected
