INIT Init
NEXT Next
CONSTANT MaxLen = 3
INVARIANT EscapedTextIsWellFormed
INVARIANT Total
INVARIANT RawNeedsEscaping
INVARIANT LoneMarkupIsRejected
