INIT Init
NEXT Next
CONSTANTS
  Depth = 3
  NParam = 200
  ParamDepth = 2
