INIT Init
NEXT Next
CONSTANTS
  Depth = 3
  NParam = 80
  ParamDepth = 2
