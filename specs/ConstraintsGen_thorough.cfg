INIT Init
NEXT Next
CONSTANTS
  MaxC = 4
  ChainCs = {0, 1, 2, 3, 4}
  Triples = TRUE
  TripleCs = {0, 2, 3}
  DiaCs = {0, 1, 2, 3, 4}
