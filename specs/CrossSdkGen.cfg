INIT Init
NEXT Next
