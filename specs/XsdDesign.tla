------------------------------ MODULE XsdDesign ------------------------------
(* M phase of C13 / C14: the DESIGN of the generated schema, as a state machine, model-checked   *)
(* against the declarative clauses of XsdConstraints (no repository code involved).             *)
(*                                                                                              *)
(* The design (xsd/main.py, read as a design):                                                  *)
(*  - every class K gets an xs:group: a SEQUENCE of the groups of its parents followed by one   *)
(*    element per property K declares itself (minOccurs = 0 iff Optional); the complex type of  *)
(*    K is that group; so the content model of an instance of class number n in the chain is    *)
(*    the flattened sequence of the declarations of classes 1..n;                               *)
(*  - the element of a property carries the facets inferred for the property's OWN class:       *)
(*    minLength / maxLength (str, bytes), minOccurs / maxOccurs of the item element (lists),    *)
(*    item facets (constrained primitive items), patterns: all from recognised invariants of    *)
(*    the own class and of the constrained primitive (and its parents).  What a descendant      *)
(*    adds for an inherited property is deliberately NOT represented.                           *)
(*                                                                                              *)
(* The validator is the usual content-model automaton of a sequence of element particles with   *)
(* pairwise distinct names (deterministic, UPA holds): it reads the children one by one.        *)
(* TLC explores, for every shape (L, pa, opt) x kind x a small family of length atoms, every    *)
(* document = the SDK's document of a value, or one single mutation of it, and checks           *)
(*    Design_ValidAccepted      (C13)  a valid instance's document is accepted                  *)
(*    Design_ViolationRejected  (C14)  MustReject documents are rejected                        *)
(*    Design_MutationRejected   (C14)  every single mutation of an accepted document is rejected *)
(*    Design_ExclusionIsReal           (sanity) descendant tightenings are indeed not enforced  *)
(*                                      -- as an expected-to-be-violated invariant in its own cfg *)
EXTENDS XsdConstraints

CONSTANTS MaxC, MaxLen, ModelKinds, FormOps, Sides

---------------------------------------------------------------------------
(* the schema of a scenario, abstractly *)
EnforcedAtoms(sc, tgt) ==
    {q \in 1..Len(sc.atoms) : sc.atoms[q].src \in Enforced /\ Recognised(sc.atoms[q]) /\ sc.atoms[q].tgt = tgt}
\* the facet pair the generator derives: the admitted lengths form an interval; its ends are the facets
Admitted(sc, tgt, n) == \A q \in EnforcedAtoms(sc, tgt) : Holds(sc.atoms[q], n)
\* patterns: the conjunction (xs:pattern of the intersection)
PatternsAdmit(sc, tgt, s) == \A t \in EnforcedTrees(sc, tgt) : FullMatch(t, s)

\* a particle of the flattened sequence: element name, minOccurs, maxOccurs (1 everywhere but optional x)
Particle(name, lo) == [name |-> name, lo |-> lo, hi |-> 1]
RECURSIVE ParticlesUpTo(_, _)
ParticlesUpTo(sc, q) ==
    IF q = 0 THEN <<>>
    ELSE ParticlesUpTo(sc, q - 1) \o <<Particle(PName(q), 1)>>
         \o (IF q = sc.pa THEN <<Particle("x", IF sc.opt THEN 0 ELSE 1), Particle("t", 1)>> ELSE <<>>)
ContentModel(sc, inst) == ParticlesUpTo(sc, inst)

\* the simple / list content of element x is accepted
XContentOk(sc, v, xkids) ==
    IF sc.kind \in ListKinds
    THEN /\ \A q \in 1..Len(xkids) : xkids[q] = "item"                  \* only item elements of our namespace
         /\ Admitted(sc, "val", Len(xkids))                             \* minOccurs / maxOccurs
         /\ (Len(xkids) > 0 => Admitted(sc, "item", StrLen(v)) /\ PatternsAdmit(sc, "item", StrOf(v)))
    ELSE /\ xkids = <<>>
         /\ Admitted(sc, "val", StrLen(v)) /\ PatternsAdmit(sc, "val", StrOf(v))

---------------------------------------------------------------------------
(* documents: root name ok?, children = sequence of [name, kids] ; "zz" = unknown / foreign name *)
Child(name, kids) == [name |-> name, kids |-> kids]
XKids(sc, v) == IF sc.kind \in ListKinds THEN [q \in 1..v.cnt |-> "item"] ELSE <<>>
BaseDoc(sc, v) ==
    LET sh == DocShape(sc, v) IN
    [rootok |-> TRUE, kids |-> [q \in 1..Len(sh) |-> Child(sh[q], IF sh[q] = "x" THEN XKids(sc, v) ELSE <<>>)]]
InsertAt(s, a, e) == SubSeq(s, 1, a) \o <<e>> \o SubSeq(s, a + 1, Len(s))
RemoveAt(s, a) == SubSeq(s, 1, a - 1) \o SubSeq(s, a + 1, Len(s))
XIndex(d) == CHOOSE q \in 1..Len(d.kids) : d.kids[q].name = "x"
ApplyMutation(d, m) ==
    IF m.in = "root" THEN
        CASE m.kind = "Unknown_element" -> [d EXCEPT !.kids = InsertAt(d.kids, m.at, Child("zz", <<>>))]
          [] m.kind = "Misplaced_element" -> [d EXCEPT !.kids = [@ EXCEPT ![m.at] = d.kids[m.at + 1], ![m.at + 1] = d.kids[m.at]]]
          [] m.kind = "Missing_required_element" -> [d EXCEPT !.kids = RemoveAt(d.kids, m.at)]
          [] m.kind = "Duplicate_element" -> [d EXCEPT !.kids = InsertAt(d.kids, m.at, d.kids[m.at])]
          [] m.kind = "Wrong_namespace" -> IF m.at = 0 THEN [d EXCEPT !.rootok = FALSE]
                                           ELSE [d EXCEPT !.kids[m.at].name = "zz"]
    ELSE LET xi == XIndex(d) IN
        CASE m.kind = "Unknown_element" -> [d EXCEPT !.kids[xi].kids = InsertAt(@, m.at, "zz")]
          [] m.kind = "Wrong_namespace" -> [d EXCEPT !.kids[xi].kids[m.at] = "zz"]

---------------------------------------------------------------------------
(* the case space of the model check *)
Form(op, c, side) == [op |-> op, c |-> c, side |-> side]
Forms == {Form(op, c, s) : op \in FormOps, c \in 1..MaxC, s \in Sides}
SrcSeqs(kind) ==
    IF kind \in CprimKinds THEN {<<>>, <<"own">>, <<"cprim">>, <<"desc">>, <<"cprim_anc">>, <<"cprim_anc2">>, <<"own", "cprim">>, <<"own", "desc">>, <<"cprim", "cprim_anc">>, <<"desc", "cprim">>}
    ELSE IF kind = "int" THEN {<<>>}
    ELSE {<<>>, <<"own">>, <<"desc">>, <<"own", "desc">>, <<"own", "own">>}
TgtOf(kind, src) == IF kind = "list_cprim" /\ src \in {"cprim", "cprim_anc", "cprim_anc2"} THEN "item" ELSE "val"
ScenariosOf(kind, l, p, o) ==
    UNION {{Scenario("len", kind, l, p, o, [q \in 1..Len(ss) |-> Atom(ss[q], TgtOf(kind, ss[q]), f[q].op, f[q].c, f[q].side)], <<>>)
               : f \in [1..Len(ss) -> Forms]}
           : ss \in {t \in SrcSeqs(kind) : (\E q \in 1..Len(t) : t[q] = "desc") => p < l}}
Scenarios == UNION {ScenariosOf(k, l, p, o) : k \in ModelKinds, l \in 1..3, p \in 1..3, o \in BOOLEAN}
ValuesOf(sc) ==
    {Value(n, FALSE, c, m, FALSE, <<>>) : n \in sc.pa..sc.L, c \in (IF sc.kind \in ListKinds THEN 0..MaxLen ELSE {0}),
                                          m \in (IF sc.kind \in {"list_str", "int"} THEN {1} ELSE 0..MaxLen)}
    \cup (IF sc.opt THEN {Value(n, TRUE, 0, 0, FALSE, <<>>) : n \in sc.pa..sc.L} ELSE {})

---------------------------------------------------------------------------
(* the validator as a state machine *)
VARIABLES sc, v, mut, doc, pos, part, cnt, verdict
vars == <<sc, v, mut, doc, pos, part, cnt, verdict>>
NoMut == Mut("none", 0, "root")
\* the documents that get mutated: one valid value per instantiated class (mutations and facets do not interact)
MutBase(s0, v0) == Valid(s0, v0) /\ (v0.none \/ (v0.len = MaxC /\ (s0.kind \in ListKinds => v0.cnt = MaxC)))

Init ==
    /\ sc \in {s \in Scenarios : s.pa <= s.L}
    /\ v \in ValuesOf(sc)
    /\ mut \in {NoMut} \cup (IF MutBase(sc, v) THEN Mutations(sc, v) ELSE {})
    /\ doc = IF mut = NoMut THEN BaseDoc(sc, v) ELSE ApplyMutation(BaseDoc(sc, v), mut)
    /\ pos = 1 /\ part = 1 /\ cnt = 0
    /\ verdict = "running"

CM == ContentModel(sc, v.inst)
Running == verdict = "running"
\* the root element must be declared (name of the target namespace)
RejectRoot == Running /\ ~doc.rootok /\ verdict' = "rejected" /\ UNCHANGED <<sc, v, mut, doc, pos, part, cnt>>
\* the next child matches the current particle, may still occur, and its own content is valid
CanConsume ==
    /\ pos <= Len(doc.kids) /\ part <= Len(CM)
    /\ doc.kids[pos].name = CM[part].name /\ cnt < CM[part].hi
    /\ IF doc.kids[pos].name = "x" THEN XContentOk(sc, v, doc.kids[pos].kids) ELSE doc.kids[pos].kids = <<>>
\* the current particle is satisfied and the next child is not another occurrence of it
CanAdvance ==
    /\ part <= Len(CM) /\ cnt >= CM[part].lo
    /\ ~(pos <= Len(doc.kids) /\ doc.kids[pos].name = CM[part].name /\ cnt < CM[part].hi)
CanAccept == pos > Len(doc.kids) /\ part > Len(CM)
Consume ==
    /\ Running /\ doc.rootok /\ CanConsume
    /\ pos' = pos + 1 /\ cnt' = cnt + 1
    /\ UNCHANGED <<sc, v, mut, doc, part, verdict>>
Advance ==
    /\ Running /\ doc.rootok /\ ~CanConsume /\ CanAdvance
    /\ part' = part + 1 /\ cnt' = 0
    /\ UNCHANGED <<sc, v, mut, doc, pos, verdict>>
Accept ==
    /\ Running /\ doc.rootok /\ CanAccept
    /\ verdict' = "accepted" /\ UNCHANGED <<sc, v, mut, doc, pos, part, cnt>>
\* no rule applies: the document is not in the language of the content model
Reject ==
    /\ Running /\ doc.rootok /\ ~CanConsume /\ ~CanAdvance /\ ~CanAccept
    /\ verdict' = "rejected" /\ UNCHANGED <<sc, v, mut, doc, pos, part, cnt>>
Next == RejectRoot \/ Consume \/ Advance \/ Accept \/ Reject
Spec == Init /\ [][Next]_vars

---------------------------------------------------------------------------
Done == verdict # "running"
TypeOK == verdict \in {"running", "accepted", "rejected"} /\ pos \in 1..(Len(doc.kids) + 1) /\ part \in 1..(Len(CM) + 1)
\* C13 at design level
Design_ValidAccepted == Done /\ mut = NoMut /\ Valid(sc, v) => verdict = "accepted"
\* C14 at design level
Design_ViolationRejected == Done /\ mut = NoMut /\ MustReject(sc, v) => verdict = "rejected"
Design_MutationRejected  == Done /\ mut # NoMut => verdict = "rejected"
\* the automaton is deterministic (at most one rule applies) and never stops without a verdict
Design_Progress == Running /\ doc.rootok =>
    Cardinality({r \in {"consume", "advance", "accept", "reject"} :
        \/ r = "consume" /\ CanConsume
        \/ r = "advance" /\ ~CanConsume /\ CanAdvance
        \/ r = "accept" /\ CanAccept
        \/ r = "reject" /\ ~CanConsume /\ ~CanAdvance /\ ~CanAccept}) = 1
\* expected to be VIOLATED (own cfg): the stated exclusion of C14 is real in this design
Design_ExclusionIsReal == ~(Done /\ mut = NoMut /\ OnlyExcluded(sc, v) /\ verdict = "accepted")
=============================================================================
