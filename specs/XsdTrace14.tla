----------------------------- MODULE XsdTrace14 -----------------------------
(* V phase of C14: the clauses of XsdTrace that C14 is about (see XsdTrace14.cfg) + its non-vacuity counters. *)
EXTENDS XsdTrace
ASSUME PrintT(Counts14)
=============================================================================
