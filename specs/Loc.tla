-------------------------------- MODULE Loc --------------------------------
(* C04 — where is character offset `off` of a text? (common.LinenoColumner)                       *)
(*                                                                                                *)
(* A text matters only through the set NL of the 0-based offsets of its newline characters.       *)
(* Declaratively, with 1-based lines and columns on EVERY line:                                   *)
(*    Line(NL, off) = 1 + number of newlines before off                                           *)
(*    Col(NL, off)  = off - (offset of the first character of that line) + 1                      *)
(* so the first character of every line — the first line and all later ones alike — has column 1. *)
(* This module is variable-free; LocAlgo.tla holds the incremental table construction of the     *)
(* implementation as a state machine (M), LocTrace.tla validates observations (V).               *)
EXTENDS Integers, Sequences, FiniteSets

Line(NL, off) == 1 + Cardinality({o \in NL : o < off})

\* offset of the first character of the line that contains offset off
LineStart(NL, off) ==
    LET before == {o \in NL : o < off}
    IN  IF before = {} THEN 0 ELSE (CHOOSE m \in before : \A o \in before : o <= m) + 1

Col(NL, off) == off - LineStart(NL, off) + 1

Pos(NL, off) == <<Line(NL, off), Col(NL, off)>>

-----------------------------------------------------------------------------
(* What a report "At line L and column C" may say about an offending construct.                   *)
(* A candidate is [off |-> start offset of the construct or of a statement enclosing it,           *)
(*                 indent |-> number of blank characters at the start of that line].              *)
(* Allowed: the candidate's line with the column of its first character, or with the column of    *)
(* the first character of its line (column 1; the first non-blank character is accepted too).    *)

AllowedCols(NL, k) == {Col(NL, k.off), 1, k.indent + 1}

LineOk(NL, cands, L) == \E k \in cands : L = Line(NL, k.off)
ColumnOk(NL, cands, L, C) == \E k \in cands : L = Line(NL, k.off) /\ C \in AllowedCols(NL, k)

\* the reported column is exactly one more than an allowed column of a candidate starting on that
\* (later) line, and is not itself allowed: "shifted by one on lines after the first"
ShiftedByOne(NL, cands, L, C) ==
    /\ L > 1
    /\ \E k \in cands : L = Line(NL, k.off) /\ (C - 1) \in AllowedCols(NL, k)
    /\ ~ColumnOk(NL, cands, L, C)

\* sanity of the declarative map itself (checked by MC_LocAlgo as properties of every text)
ColumnOneAtLineStarts(NL, len) ==
    \A off \in 0..(len - 1) : (off = 0 \/ (off - 1) \in NL) => Col(NL, off) = 1
MonotoneInLine(NL, len) ==
    \A off \in 1..(len - 1) : (off - 1) \notin NL => Pos(NL, off) = <<Line(NL, off - 1), Col(NL, off - 1) + 1>>
=============================================================================
