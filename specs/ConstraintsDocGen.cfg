INIT Init
NEXT Next
CONSTANTS
  MaxC = 3
  ChainCs = {1, 3}
