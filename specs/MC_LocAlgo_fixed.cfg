SPECIFICATION Spec
CONSTANTS
  MaxLen = 6
  Design = "append_first"
  Alphabet = {"x", "n", "f"}
INVARIANT Refines
INVARIANT RefinesEverywhere
INVARIANT OneBased
INVARIANT LoopInvariant
INVARIANT DeclarativeSanity
