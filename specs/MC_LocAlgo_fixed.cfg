SPECIFICATION Spec
CONSTANTS
  MaxLen = 6
  Design = "append_first"
INVARIANT Refines
INVARIANT RefinesEverywhere
INVARIANT OneBased
INVARIANT LoopInvariant
INVARIANT DeclarativeSanity
