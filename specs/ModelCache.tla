----------------------------- MODULE ModelCache -----------------------------
(* C23 / C24 — the model cache of run.load_model as a protocol over a shared directory.        *)
(*                                                                                             *)
(* The file system is modelled as  path |-> inode id  and  inode id |-> <<text, chunks, garbage>> *)
(* so that the things the protocol relies on are explicit:                                     *)
(*   - opening an existing path for writing truncates the SAME inode,                          *)
(*   - a reader keeps the inode it opened even when the path is re-pointed or unlinked,        *)
(*   - rename swaps a path atomically,                                                         *)
(*   - a file is written in several chunks, so a partially written file is a reachable state,  *)
(*   - an inode remembers who opened (truncated) it last; a write by anybody else is garbage,  *)
(*   - a run may crash between any two steps (files stay, handles vanish).                     *)
(*                                                                                             *)
(* One action per shared-state step of the code (the points at which the conformance harness   *)
(* gates the real threads): Exists, OpenRead, Load, Mkdir, OpenTmp, WriteChunk, Rename, Unlink. *)
(* Parsing the model is local to a run and is folded into the step that precedes it.           *)
(*                                                                                             *)
(* UniqueTmp / DirectWrite are design switches: the code as written is UniqueTmp = TRUE,       *)
(* DirectWrite = FALSE; the other settings are the two realistic regressions and serve as      *)
(* negative controls of the design-level check.                                                *)
EXTENDS Naturals, Sequences, FiniteSets, TLC

CONSTANTS Runs,        \* run identifiers
          Texts,       \* model texts (cache key = hash of the text)
          Chunks,      \* number of write steps that make a file complete (>= 2)
          UniqueTmp,   \* TRUE: temp name unique per run; FALSE: derived from the text only
          DirectWrite, \* TRUE: write the final path directly (no tmp + rename)
          MaxStarts    \* bound on the number of run starts (a run id may be reused sequentially)

VARIABLES path,     \* [Paths -> 0..] inode id, 0 = no such file
          inode,    \* sequence of [text, chunks, garbage]
          dir,      \* BOOLEAN: the cache directory exists
          pc,       \* [Runs -> label]
          text,     \* [Runs -> Texts]: the model text the run was started on
          flag,     \* [Runs -> BOOLEAN]: --cache_model
          fd,       \* [Runs -> inode id held, 0 = none]
          result,   \* [Runs -> "none" | "ok" | "partial" | "foreign" | "raised"]
          touched,  \* [Runs -> BOOLEAN]: the run performed some step on the cache directory
          starts,   \* number of StartRun so far
          sid       \* [Runs -> Nat]: start number of the run's current incarnation (uuid4 stand-in)

vars == <<path, inode, dir, pc, text, flag, fd, result, touched, starts, sid>>

Final(t) == <<"final", t>>
TmpOf(r) == IF UniqueTmp THEN <<"tmp", sid[r]>> ELSE <<"tmp", text[r]>>
Target(r) == IF DirectWrite THEN Final(text[r]) ELSE TmpOf(r)
TmpPaths == {<<"tmp", x>> : x \in (1..MaxStarts) \cup Texts}
Paths == {Final(t) : t \in Texts} \cup TmpPaths

Complete(i) == inode[i].chunks = Chunks /\ ~inode[i].garbage

Goto(r, l) == pc' = [pc EXCEPT ![r] = l]
Touch(r) == touched' = [touched EXCEPT ![r] = TRUE]

Init ==
    /\ path = [p \in Paths |-> 0]
    /\ inode = <<>>
    /\ dir = FALSE
    /\ pc = [r \in Runs |-> "idle"]
    /\ text \in [Runs -> Texts]
    /\ flag = [r \in Runs |-> FALSE]
    /\ fd = [r \in Runs |-> 0]
    /\ result = [r \in Runs |-> "none"]
    /\ touched = [r \in Runs |-> FALSE]
    /\ starts = 0
    /\ sid = [r \in Runs |-> 0]

(* A run starts on some text, with or without the cache flag. Without the flag the run parses  *)
(* and returns without any step on the cache directory. Every run ends with Return (the call   *)
(* returning or raising), which is where its result becomes observable.                        *)
StartRun(r, t, f) ==
    /\ pc[r] \in {"idle", "done", "crashed"} /\ starts < MaxStarts
    /\ starts' = starts + 1
    /\ sid' = [sid EXCEPT ![r] = starts + 1]
    /\ text' = [text EXCEPT ![r] = t]
    /\ flag' = [flag EXCEPT ![r] = f]
    /\ fd' = [fd EXCEPT ![r] = 0]
    /\ touched' = [touched EXCEPT ![r] = FALSE]
    /\ result' = [result EXCEPT ![r] = "none"]
    /\ IF f THEN Goto(r, "exists") ELSE Goto(r, "return")
    /\ UNCHANGED <<path, inode, dir>>

Exists(r) ==
    /\ pc[r] = "exists"
    /\ Touch(r)
    /\ IF path[Final(text[r])] # 0 THEN Goto(r, "open_read") ELSE Goto(r, "mkdir")  \* miss: parse (local), then mkdir
    /\ UNCHANGED <<path, inode, dir, text, flag, fd, result, starts, sid>>

OpenRead(r) ==
    /\ pc[r] = "open_read"
    /\ Touch(r)
    /\ IF path[Final(text[r])] = 0
       THEN /\ result' = [result EXCEPT ![r] = "raised"] /\ Goto(r, "return") /\ fd' = fd   \* vanished meanwhile
       ELSE /\ fd' = [fd EXCEPT ![r] = path[Final(text[r])]] /\ Goto(r, "load") /\ result' = result
    /\ UNCHANGED <<path, inode, dir, text, flag, starts, sid>>

Load(r) ==
    /\ pc[r] = "load"
    /\ LET i == inode[fd[r]] IN
       result' = [result EXCEPT ![r] =
                    IF i.chunks < Chunks THEN "partial"
                    ELSE IF i.garbage \/ i.text # text[r] THEN "foreign" ELSE "ok"]
    /\ fd' = [fd EXCEPT ![r] = 0]
    /\ Goto(r, "return")
    /\ UNCHANGED <<path, inode, dir, text, flag, touched, starts, sid>>

Mkdir(r) ==
    /\ pc[r] = "mkdir"
    /\ dir' = TRUE
    /\ Touch(r)
    /\ Goto(r, "open_tmp")
    /\ UNCHANGED <<path, inode, text, flag, fd, result, starts, sid>>

OpenTmp(r) ==
    /\ pc[r] = "open_tmp"
    /\ IF path[Target(r)] # 0
       THEN \* open(..., "wb") truncates the SAME inode
            /\ inode' = [inode EXCEPT ![path[Target(r)]] =
                            [text |-> text[r], chunks |-> 0, garbage |-> FALSE, owner |-> sid[r]]]
            /\ fd' = [fd EXCEPT ![r] = path[Target(r)]]
            /\ path' = path
       ELSE /\ inode' = Append(inode, [text |-> text[r], chunks |-> 0, garbage |-> FALSE, owner |-> sid[r]])
            /\ path' = [path EXCEPT ![Target(r)] = Len(inode) + 1]
            /\ fd' = [fd EXCEPT ![r] = Len(inode) + 1]
    /\ Goto(r, "write")
    /\ UNCHANGED <<dir, text, flag, result, touched, starts, sid>>

WriteChunk(r) ==
    /\ pc[r] = "write"
    /\ inode' = [inode EXCEPT ![fd[r]] =
                    [text |-> @.text,
                     chunks |-> IF @.chunks < Chunks THEN @.chunks + 1 ELSE Chunks,
                     \* a writer that is not the one who last opened (truncated) the inode
                     \* interleaves its bytes with the owner's: garbage
                     garbage |-> @.garbage \/ @.owner # sid[r] \/ @.chunks >= Chunks,
                     owner |-> @.owner]]
    /\ IF inode[fd[r]].chunks + 1 >= Chunks
       THEN Goto(r, IF DirectWrite THEN "return" ELSE "rename")
       ELSE Goto(r, "write")
    /\ UNCHANGED <<path, dir, text, flag, fd, result, touched, starts, sid>>

Rename(r) ==
    /\ pc[r] = "rename"
    /\ IF path[TmpOf(r)] = 0
       THEN /\ result' = [result EXCEPT ![r] = "raised"] /\ path' = path     \* tmp vanished (shared tmp name)
       ELSE /\ path' = [path EXCEPT ![Final(text[r])] = path[TmpOf(r)], ![TmpOf(r)] = 0]
            /\ result' = result
    /\ fd' = [fd EXCEPT ![r] = 0]
    /\ Goto(r, "unlink")
    /\ UNCHANGED <<inode, dir, text, flag, touched, starts, sid>>

Unlink(r) ==        \* finally: tmp_path.unlink(missing_ok=True)
    /\ pc[r] = "unlink"
    /\ path' = [path EXCEPT ![TmpOf(r)] = 0]
    /\ Goto(r, "return")
    /\ UNCHANGED <<inode, dir, text, flag, fd, result, touched, starts, sid>>

Return(r) ==
    /\ pc[r] = "return"
    /\ result' = [result EXCEPT ![r] = IF @ = "none" THEN "ok" ELSE @]   \* freshly parsed
    /\ fd' = [fd EXCEPT ![r] = 0]
    /\ Goto(r, "done")
    /\ UNCHANGED <<path, inode, dir, text, flag, touched, starts, sid>>

Crash(r) ==
    /\ pc[r] \notin {"idle", "done", "crashed"}
    /\ Goto(r, "crashed")
    /\ fd' = [fd EXCEPT ![r] = 0]
    /\ UNCHANGED <<path, inode, dir, text, flag, result, touched, starts, sid>>

Step(r) == Exists(r) \/ OpenRead(r) \/ Load(r) \/ Mkdir(r) \/ OpenTmp(r) \/ WriteChunk(r)
           \/ Rename(r) \/ Unlink(r) \/ Return(r)

Next == \E r \in Runs : \/ Step(r) \/ Crash(r)
                        \/ \E t \in Texts, f \in BOOLEAN : StartRun(r, t, f)

Spec == Init /\ [][Next]_vars

---------------------------------------------------------------------------
(* Properties *)

TypeOK ==
    /\ \A p \in Paths : path[p] \in 0..Len(inode)
    /\ \A r \in Runs : fd[r] \in 0..Len(inode)
    /\ \A r \in Runs : result[r] \in {"none", "ok", "partial", "foreign", "raised"}

\* C24: no run ever reads a partially written or foreign cache entry
NoPartialRead == \A r \in Runs : result[r] # "partial"
NoForeignRead == \A r \in Runs : result[r] # "foreign"

\* C24 / C23: every run that completes gives the result of an uncached run
Transparent == \A r \in Runs : pc[r] = "done" => result[r] = "ok"

\* the structural reason: whatever a final path points to is complete and belongs to its text
FinalAlwaysComplete ==
    \A t \in Texts : path[Final(t)] # 0 =>
        LET i == inode[path[Final(t)]] IN i.chunks = Chunks /\ ~i.garbage /\ i.text = t

\* C24: a crash leaves at most stray temporary files
OnlyTmpGarbage == \A p \in Paths : (path[p] # 0 /\ ~Complete(path[p])) => p \in TmpPaths

\* C23: without the flag the cache is neither read nor written
OptIn == \A r \in Runs : ~flag[r] => ~touched[r]

\* C23: an entry is reused only for the text that produced it (follows from FinalAlwaysComplete,
\* stated separately because it is what a user relies on)
ReuseOnlySameText ==
    \A r \in Runs : pc[r] = "load" => inode[fd[r]].text = text[r]

\* cache writes never change a published entry's content: once complete, a final stays complete
PublishedStable == [][\A t \in Texts :
                        (path[Final(t)] # 0 /\ Complete(path[Final(t)]))
                        => (path'[Final(t)] # 0 /\ inode'[path'[Final(t)]].chunks = Chunks
                            /\ ~inode'[path'[Final(t)]].garbage)]_vars
=============================================================================
