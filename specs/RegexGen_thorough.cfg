INIT Init
NEXT Next
CONSTANTS
  Deep = TRUE
  Wide = TRUE
  AlphaCap = 5
  LenCap = 4
  Budget = 200
