INIT Init
NEXT Next
INVARIANT RoundTrip
INVARIANT WireShape
INVARIANT ErrorsAnchored
INVARIANT VerdictCoherent
