---- MODULE DeterminismGen ----
(* G phase of C22: the plan (history of run configurations) the harness replays for every (meta-model, target). *)
EXTENDS DeterminismPlan, Json, IOUtils
CONSTANT Which
ThePlan == IF Which = "thorough" THEN ThoroughPlan ELSE QuickPlan
ASSUME JsonSerialize(IOEnv.VERIF_OUT, ThePlan)
ASSUME PrintT(<<"@@PRINT@@ plan", Len(ThePlan)>>)
VARIABLE dummy
GInit == dummy = 0
GNext == UNCHANGED dummy
====
