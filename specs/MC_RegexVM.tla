---- MODULE MC_RegexVM ----
(***************************************************************************************************)
(* M phase of C18: the transcribed Thompson construction run on the VM state machine, for every tree  *)
(* of a small family and every string of length <= MaxLen over {a, b, c}.                             *)
(***************************************************************************************************)
EXTENDS RegexVM
a == Chr(97, FALSE)
b == Chr(98, FALSE)
Atoms == {a, b, Dot, CSet(FALSE, <<Rng(a, b)>>), CSet(TRUE, <<Single(b)>>), CSet(FALSE, <<Single(Chr(99, FALSE)), Single(a)>>)}
Quants == {NoQ, Q(0, 1, FALSE), Q(0, Unbounded, FALSE), Q(1, Unbounded, FALSE), Q(2, 2, FALSE), Q(1, 2, FALSE), Q(0, 2, FALSE),
           Q(2, Unbounded, FALSE), Q(0, 0, FALSE), Q(1, 1, FALSE)}
SomeQuants == {NoQ, Q(0, Unbounded, FALSE), Q(1, 2, FALSE), Q(1, Unbounded, FALSE)}
Anch(ts) == OneCat(<<Term(Start, NoQ)>> \o ts \o <<Term(End, NoQ)>>)
T(v) == Term(v, NoQ)
Cats == {Cat(<<>>), Cat(<<T(a)>>), Cat(<<T(a), T(b)>>), Cat(<<Term(a, Q(0, Unbounded, FALSE))>>), Cat(<<T(b), Term(End, NoQ)>>)}
Alts == {Alt(<<c1>>) : c1 \in Cats} \cup {Alt(<<c1, c2>>) : c1 \in Cats, c2 \in Cats} \cup {Alt(<<Cat(<<T(a)>>), Cat(<<>>), Cat(<<T(b)>>)>>)}
\* one term; two terms; a group of alternatives under a quantifier, alone and followed by a literal; the ".*$" suffix;
\* "$" in the middle; nested loops (only with the documented list discipline: they do not terminate with the pinned one)
OneTerms == {Anch(<<Term(v, q)>>) : v \in Atoms, q \in Quants}
TwoTerms == {Anch(<<Term(v1, q1), Term(v2, q2)>>) : v1 \in {a, Dot}, v2 \in {a, b, Dot}, q1 \in SomeQuants, q2 \in SomeQuants}
Groups == {Anch(<<Term(Group(x), q)>>) : x \in Alts, q \in SomeQuants \cup {Q(2, 2, FALSE)}}
          \cup {Anch(<<Term(Group(x), q), T(b)>>) : x \in Alts, q \in {Q(0, Unbounded, FALSE), Q(0, 1, FALSE)}}
Special == {Anch(<<>>), Anch(<<T(a), Term(Dot, Q(0, Unbounded, FALSE))>>), Anch(<<Term(Dot, Q(0, Unbounded, FALSE))>>),
            Anch(<<T(a), Term(End, NoQ), T(b)>>), Anch(<<T(a), Term(End, NoQ)>>),
            Anch(<<Term(Group(OneCat(<<T(a), Term(Dot, Q(0, Unbounded, FALSE))>>)), NoQ)>>)}
Nested == {Anch(<<Term(Group(OneTerm(Term(Group(x), q1))), q2)>>) :
             x \in {OneCat(<<T(a)>>), OneCat(<<Term(a, Q(0, Unbounded, FALSE))>>), Alt(<<Cat(<<T(a)>>), Cat(<<>>)>>), Alt(<<Cat(<<>>), Cat(<<>>)>>)},
             q1 \in {Q(0, Unbounded, FALSE), Q(1, Unbounded, FALSE), Q(0, 1, FALSE)}, q2 \in {Q(0, Unbounded, FALSE), Q(1, Unbounded, FALSE), Q(2, 2, FALSE)}}
\* products of repetitions (x q1) q2 incl. an inner minimum >= 2 under an outer minimum 0
ProdQ == {Q(0, 1, FALSE), Q(0, Unbounded, FALSE), Q(1, Unbounded, FALSE), Q(2, Unbounded, FALSE), Q(2, 2, FALSE), Q(1, 2, FALSE)}
Products == {Anch(<<Term(Group(OneTerm(Term(a, q1))), q2)>> \o tail) : q1 \in ProdQ, q2 \in ProdQ, tail \in {<<>>, <<T(b)>>}}
AllTrees == OneTerms \cup TwoTerms \cup Groups \cup Special \cup Nested \cup Products
TreesWithoutNestedLoops == OneTerms \cup TwoTerms \cup Special
\* quick tier: one term, special shapes, nested loops, and a dozen groups under the plain loop quantifiers
QuickAlts == {Alt(<<Cat(<<T(a)>>), Cat(<<>>)>>), Alt(<<Cat(<<T(a), T(b)>>), Cat(<<Term(a, Q(0, Unbounded, FALSE))>>)>>),
              Alt(<<Cat(<<T(b), Term(End, NoQ)>>), Cat(<<T(a)>>)>>), Alt(<<Cat(<<T(a)>>), Cat(<<>>), Cat(<<T(b)>>)>>),
              Alt(<<Cat(<<T(a), T(b)>>)>>), Alt(<<Cat(<<>>)>>)}
QuickTrees == OneTerms \cup Special \cup Nested \cup {t \in Products : Len(t.cats[1].terms) = 4}
              \cup {Anch(<<Term(Group(x), q)>>) : x \in QuickAlts, q \in {Q(0, Unbounded, FALSE), Q(1, 2, FALSE)}}
ABC == {97, 98, 99}
\* the lasso of the pinned thread list: ^(a*)*$
JustNestedStar == {Anch(<<Term(Group(OneTerm(Term(Group(OneCat(<<Term(a, Q(0, Unbounded, FALSE))>>)), Q(0, Unbounded, FALSE)))), Q(0, Unbounded, FALSE))>>)}
ASSUME \A t \in AllTrees : Translatable(t)
====
