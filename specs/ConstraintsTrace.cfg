INIT Init
NEXT Next
INVARIANT Inv_NoException
INVARIANT Inv_LenExact
INVARIANT Inv_PatsExact
INVARIANT Inv_LitsExact
INVARIANT Inv_UnrecognisedIgnored
INVARIANT Inv_UnsatReported
INVARIANT Inv_ErrorExplainable
