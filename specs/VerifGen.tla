------------------------------ MODULE VerifGen ------------------------------
(* G phase of C08: the cases of VerifModels (models x instances x function arguments) as JSON.  *)
EXTENDS VerifModels, Json, IOUtils

ASSUME JsonSerialize(IOEnv.VERIF_OUT, Cases)
ASSUME PrintT(<<"@@PRINT@@ models", NModels, Len(Pool)>>)
VARIABLE dummy
Init == dummy = 0
Next == UNCHANGED dummy
=============================================================================
