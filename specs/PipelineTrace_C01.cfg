INIT TraceInit
NEXT TraceNext
CONSTANTS
  MaxErr = 2
  Strict = FALSE
INVARIANT Inv_FrontEndTraceAccepted
INVARIANT Inv_AcceptedXorReport
INVARIANT Inv_RejectedExits1
INVARIANT Inv_ExitCodeFollowsStages
