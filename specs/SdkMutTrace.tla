----------------------------- MODULE SdkMutTrace -----------------------------
(* V for C10, part 2: what the generated SDK did with every mutated document, judged against the three-valued *)
(* verdict of the reference de-serializers of Sdk.tla.                                                         *)
EXTENDS SdkModels, Json, IOUtils
Obs == JsonDeserialize(IOEnv.VERIF_OBS)
VARIABLES Rec, verdict
ModelOf(o) == IF o.pa = 0 THEN (FixedModels \o DoubtfulModels)[o.mi] ELSE ParamModel(o.pa, o.pb)
\* well-formedness of XML text is opaque here: a text that no XML parser takes must be rejected; junk after a complete
\* root element is left open (a streaming reader need not look at it)
TextVerdict(o) == IF o.after_root THEN Either ELSE MustReject
VerdictFor(o, m) ==
    IF o.fmt = "json" THEN JsonVerdict(m, o.doc, TCls(m.root))
    ELSE IF o.fmt = "xml" THEN XmlVerdict(m, o.doc, m.root)
    ELSE TextVerdict(o)
\* (the record itself is the state, see SdkTrace)
Init == /\ Rec \in ToSet(Obs)
        /\ verdict = VerdictFor(Rec, ModelOf(Rec))
        /\ PrintT(<<"@@PRINT@@ verdict", Rec.idx, verdict.verdict>>)
Next == UNCHANGED <<Rec, verdict>>

Inv_SdkGenerated == Rec.accepted => Rec.sdk
\* never any other exception than the SDK's own de-serialization error -- whatever the verdict
Inv_OnlySdkError == Rec.outcome.o # "exception"
\* malformed or mistyped documents are not accepted
Inv_RejectsMalformed == Rec.sdk /\ verdict.verdict = "MustReject" => Rec.outcome.o # "accepted"
\* documents of the wire format are accepted, with the value they denote
Inv_AcceptsWellFormed == Rec.sdk /\ verdict.verdict = "MustAcceptWith" => Rec.outcome.o # "rejected" /\ (Rec.outcome.o = "accepted" => Rec.outcome.v = verdict.x)
=============================================================================
