SPECIFICATION Spec
CONSTANTS
  MaxLen = 6
  Design = "reset0"
INVARIANT RefinesEverywhere
