INIT Init
NEXT Next
INVARIANT Inv_SdkGenerated
INVARIANT Inv_NodesSeen
INVARIANT Inv_DescendOnce
INVARIANT Inv_Descend
INVARIANT Inv_Dispatch
INVARIANT Inv_PassThroughDispatch
INVARIANT Inv_OverOrEmpty
INVARIANT Inv_OrDefault
