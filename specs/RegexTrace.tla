---- MODULE RegexTrace ----
(***************************************************************************************************)
(* V phase of C16.  One observation per case: what retree.parse did with the text (parsed tree /     *)
(* positioned error / escaped exception), what retree.render made of the tree, what parse(render)    *)
(* gave, and which of the case's strings Python `re` matches with the original text and with the     *)
(* rendering.  One named invariant per clause of the property; the languages are decided here, by    *)
(* the declarative matcher of Regex.tla on every string of length <= maxlen over the case alphabet.  *)
(*                                                                                                 *)
(* State space: blk (a block of observations, one initial state each, so that TLC's workers share    *)
(* the work) and i (the observation under judgement, 0 = none yet).  culprit is the structural       *)
(* fingerprint of the observation per clause, printed with a violation and used as the key of known  *)
(* findings.                                                                                        *)
(***************************************************************************************************)
EXTENDS Regex, Json, IOUtils, TLC
CONSTANT BlockSize
Obs == JsonDeserialize(IOEnv.VERIF_OBS)
N == Len(Obs)
VARIABLES blk, i, culprit, failing

\* ---------------------------------------------------------------------------------------------------
\* structural fingerprints
Digits == 48..57
OddDigits == {178, 179, 185} \cup (1632..1641)
Blanks == {32, 9}
\* a blank inside a run that starts with "{" and otherwise consists of digits, commas and blanks
BlankInQuantifier(t) ==
  \E a \in 1..Len(t) : \E b \in (a + 1)..Len(t) :
     t[a] = 123 /\ t[b] \in Blanks /\ \A k \in (a + 1)..b : t[k] \in Digits \cup Blanks \cup {44}
OddDigitInQuantifier(t) ==
  \E a \in 1..Len(t) : \E b \in (a + 1)..Len(t) :
     t[a] = 123 /\ t[b] \in OddDigits /\ \A k \in (a + 1)..b : t[k] \in Digits \cup OddDigits \cup Blanks \cup {44}
IsPlainBrace(v) == v.k = "char" /\ ~v.enc /\ v.c \in {123, 125}
\* a set whose first range starts with a plain "^" and has an end, e.g. [\^-a]
IsCaretLedRange(v) == v.k = "set" /\ Len(v.ranges) > 0 /\ ~v.ranges[1].single /\ v.ranges[1].lo.c = 94 /\ ~v.ranges[1].lo.enc
Parsed(x) == x.outcome = "parsed"
CulpritOf(x) ==
  [Inv_NeverRaises |-> IF x.outcome = "exception" THEN <<x.exc.type, x.exc.where>> ELSE <<"none">>,
   Inv_ErrorPositioned |-> IF x.outcome = "error" /\ x.exc.type # "" THEN <<x.exc.type, x.exc.where>> ELSE <<"none">>,
   Inv_RenderValid |->
      IF Parsed(x) /\ x.render = "exception" THEN <<x.render_exc.type, x.render_exc.where>>
      ELSE IF Parsed(x) /\ AnyValueAlt(x.parsed, IsEmptySet) THEN <<"empty_character_set">> ELSE <<"none">>,
   Inv_ParseKeepsLanguage |->
      IF Parsed(x) /\ AnyValueAlt(x.parsed, IsEmptySet) THEN <<"empty_character_set">>
      ELSE IF OddDigitInQuantifier(x.text) THEN <<"non_ascii_digit_in_quantifier">> ELSE <<"none">>,
   Inv_RenderKeepsLanguage |->
      IF Parsed(x) /\ AnyValueAlt(x.parsed, IsCaretLedRange) THEN <<"caret_led_range">> ELSE <<"none">>,
   Inv_ReparseSameTree |->
      IF x.reparse = "exception" THEN <<x.reparse_exc.type, x.reparse_exc.where>>
      ELSE IF Parsed(x) /\ AnyValueAlt(x.parsed, IsPlainBrace) THEN <<"plain_brace_literal">>
      ELSE IF Parsed(x) /\ AnyValueAlt(x.parsed, IsCaretLedRange) THEN <<"caret_led_range">> ELSE <<"none">>,
   S_OracleAgreesWithRe |-> <<"none">>]


\* ---------------------------------------------------------------------------------------------------
\* languages over the strings of the case.  Strings travel as numbers: the position of the string in the
\* enumeration "shorter first, then lexicographic by position in the case alphabet" (what itertools.product
\* yields on the Python side), computed here from the string itself.
Alpha(x) == SeqToSet(x.alpha)
FullStrings(x) == StringsUpTo(Alpha(x), x.maxlen)
SearchStrings(x) == StringsUpTo(Alpha(x), x.smax)
PosIn(c, A) == CHOOSE p \in 1..Len(A) : A[p] = c
RECURSIVE Digits0(_, _, _)   \* value of s read as a number in base Len(A), digit = position - 1
Digits0(s, n, A) == IF n = 0 THEN 0 ELSE Digits0(s, n - 1, A) * Len(A) + (PosIn(s[n], A) - 1)
Idx(s, A) == (IF Len(s) = 0 THEN 0 ELSE CountUpTo(Len(A), Len(s) - 1)) + Digits0(s, Len(s), A)
Lang(t, x) == {Idx(s, x.alpha) : s \in {u \in FullStrings(x) : FullMatch(t, u)}}
Found(t, x) == {Idx(s, x.alpha) : s \in {u \in SearchStrings(x) : Search(t, u)}}
SameLanguage(t1, t2, x) == t1 = t2 \/ (Lang(t1, x) = Lang(t2, x) /\ Found(t1, x) = Found(t2, x))
Agrees(t, full, found, x) == SeqToSet(full) = Lang(t, x) /\ SeqToSet(found) = Found(t, x)


\* "parsing ... either fails with a positioned error or succeeds, and never raises"
C_Inv_NeverRaises(o) == o.outcome # "exception"
C_Inv_ErrorPositioned(o) == o.outcome = "error" => o.positioned
\* "on success, re-rendering the tree gives a valid Python regular expression"
C_Inv_RenderValid(o) == Parsed(o) => o.render = "ok" /\ o.render_compiles
\* "... that matches exactly the same strings as the original": the parsed tree denotes the language of the
\* original (the generated tree where the case has one, Python's reading of the text otherwise) ...
\* Domain restriction: the retree dialect deliberately reads blanks inside {m,n} as insignificant (pinned
\* tests of parse_retree), Python reads such braces as literals; such texts have no common "original" meaning.
C_Inv_ParseKeepsLanguage(o) ==
  Parsed(o) =>
     IF o.has_tree THEN SameLanguage(o.parsed, o.tree, o)
     ELSE (o.orig_compiles /\ ~BlankInQuantifier(o.text) => Agrees(o.parsed, o.re_orig_full, o.re_orig_search, o))
\* ... and the rendering, read by Python, matches exactly the language of the tree it was rendered from
C_Inv_RenderKeepsLanguage(o) ==
  Parsed(o) /\ o.render = "ok" /\ o.render_compiles => Agrees(o.parsed, o.re_render_full, o.re_render_search, o)
\* "re-parsing that rendering reproduces the same tree"
C_Inv_ReparseSameTree(o) == Parsed(o) /\ o.render = "ok" => o.reparse = "parsed" /\ o.reparsed = o.parsed
\* S: the oracle itself -- Python `re` reads the canonical text of a generated tree as Regex.tla reads the tree
C_S_OracleAgreesWithRe(o) ==
  o.has_tree => o.orig_compiles /\ Agrees(o.tree, o.re_orig_full, o.re_orig_search, o)

\* every clause is evaluated once per observation, when the observation is taken up (Next): `failing` is the set of
\* clauses the observation violates.  The invariants only look the names up, so that TLC -- which reports the first
\* violated invariant of a state only -- still hands over *all* violated clauses of the case with the state it prints
\* (a clause under a known finding cannot mask another clause on the same case).
ClauseNames == {"Inv_NeverRaises", "Inv_ErrorPositioned", "Inv_RenderValid", "Inv_ParseKeepsLanguage", "Inv_RenderKeepsLanguage", "Inv_ReparseSameTree", "S_OracleAgreesWithRe"}
Holds(n, x) ==
  CASE n = "Inv_NeverRaises" -> C_Inv_NeverRaises(x)
    [] n = "Inv_ErrorPositioned" -> C_Inv_ErrorPositioned(x)
    [] n = "Inv_RenderValid" -> C_Inv_RenderValid(x)
    [] n = "Inv_ParseKeepsLanguage" -> C_Inv_ParseKeepsLanguage(x)
    [] n = "Inv_RenderKeepsLanguage" -> C_Inv_RenderKeepsLanguage(x)
    [] n = "Inv_ReparseSameTree" -> C_Inv_ReparseSameTree(x)
    [] n = "S_OracleAgreesWithRe" -> C_S_OracleAgreesWithRe(x)
FailingOf(x) == {n \in ClauseNames : ~Holds(n, x)}

Blocks == 0..((N - 1) \div BlockSize)
Init == blk \in Blocks /\ i = 0 /\ culprit = <<>> /\ failing = {}
Next == /\ i = 0
        /\ \E j \in (blk * BlockSize + 1)..(IF (blk + 1) * BlockSize < N THEN (blk + 1) * BlockSize ELSE N) :
              i' = j /\ culprit' = CulpritOf(Obs[j]) /\ failing' = FailingOf(Obs[j])
        /\ UNCHANGED blk

Inv_NeverRaises == "Inv_NeverRaises" \notin failing
Inv_ErrorPositioned == "Inv_ErrorPositioned" \notin failing
Inv_RenderValid == "Inv_RenderValid" \notin failing
Inv_ParseKeepsLanguage == "Inv_ParseKeepsLanguage" \notin failing
Inv_RenderKeepsLanguage == "Inv_RenderKeepsLanguage" \notin failing
Inv_ReparseSameTree == "Inv_ReparseSameTree" \notin failing
S_OracleAgreesWithRe == "S_OracleAgreesWithRe" \notin failing

\* non-vacuity counters
IsError(x) == x.outcome = "error"
IsException(x) == x.outcome = "exception"
NonTrivial(x) == Parsed(x) /\ x.render = "ok" /\ x.render_compiles /\ x.re_render_full # <<>>
ASSUME LET obs == Obs
           Count(P(_)) == Cardinality({n \in 1..Len(obs) : P(obs[n])})
       IN PrintT(<<"@@PRINT@@ counts", Len(obs), Count(Parsed), Count(IsError), Count(IsException), Count(NonTrivial)>>)
====
