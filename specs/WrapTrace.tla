---- MODULE WrapTrace ----
(* V phase for C27: every (text, width, segments) observed from the real wrap_text_into_lines must satisfy *)
(* the clauses of Wrap.tla. One initial state per observation; one invariant per clause.                  *)
EXTENDS Wrap, Json, IOUtils
Obs == JsonDeserialize(IOEnv.VERIF_OBS)
VARIABLE i
Init == i \in 1..Len(Obs)
Next == UNCHANGED i
Returned == Obs[i].outcome = "ok"
Inv_NoException == Returned
Inv_Concat == Returned => Concat(Obs[i].text, Obs[i].segs)
Inv_Fits == Returned => Fits(Obs[i].segs, Obs[i].width)
Inv_ArticleGlued == Returned /\ Concat(Obs[i].text, Obs[i].segs) => ArticleGlued(Obs[i].text, Obs[i].segs)
\* the result is a function of (text, width) alone: a second call, made after the caller modified the first result,
\* returns the same segments (and therefore still preserves the text)
Inv_RepeatableCall == Returned => Obs[i].segs2 = Obs[i].segs
\* non-vacuity counters (evaluated once, printed)
NonTrivial(n) == \/ GluePairs(Obs[n].text) # {} /\ Len(Obs[n].segs) > 1
                 \/ \E s \in 1..Len(Obs[n].segs) : Len(Obs[n].segs[s]) > Obs[n].width
NGlue == Cardinality({n \in 1..Len(Obs) : NonTrivial(n)})
NLong == 0
ASSUME PrintT(<<"@@PRINT@@ nontrivial", Len(Obs), NGlue, NLong>>)
====
