INIT Init
NEXT Next
CONSTANTS
  MinSize = 0
  MaxSize = 4
