---- MODULE SnippetsTrace ----
(* V phase of C25: one record per directory tree = the tree (as generated), what the real             *)
(* read_from_directory returned for its materialisation, and what main.execute did with it.           *)
EXTENDS Snippets, Json, IOUtils, TLC
Obs == JsonDeserialize(IOEnv.VERIF_OBS)
VARIABLE i
Init == i \in 1..Len(Obs)
Next == UNCHANGED i

T == Rng(Obs[i].entries)
Rd == Obs[i].rd
Main == Obs[i].main

Inv_NoException == NoException(Rd, Main)
Inv_FailsWhenItMust == FailsWhenItMust(T, Rd)
Inv_LoadsWhenItCan == LoadsWhenItCan(T, Rd)
Inv_KeysExact == KeysExact(T, Rd)
Inv_ValuesStripped == ValuesStripped(T, Rd)
Inv_ErrorsNameFiles == ErrorsNameFiles(T, Rd)
Inv_MainFailsWithReport == MainFailsWithReport(T, Main)
Inv_MainSucceeds == MainSucceeds(T, Main)

\* the generator's own consistency (a failure here is a machinery failure, see harness/c25.py)
Self_TreeConsistent == Consistent(T)

\* non-vacuity counters
NMust == Cardinality({n \in 1..Len(Obs) : MustError(Rng(Obs[n].entries)) # {}})
NMay == Cardinality({n \in 1..Len(Obs) : MayError(Rng(Obs[n].entries)) # {}})
NMapped == Cardinality({n \in 1..Len(Obs) : Obs[n].rd.outcome = "mapping" /\ Len(Obs[n].rd.mapping) > 1})
NOddRoot == Cardinality({n \in 1..Len(Obs) : Obs[n].root # "plain"})
Self_RootKnown == Obs[i].root \in RootKinds
NIgnored == Cardinality({n \in 1..Len(Obs) : \E e \in Rng(Obs[n].entries) : ~Snippet(e) /\ ~Unsettled(e)})
ASSUME PrintT(<<"@@PRINT@@ counters", Len(Obs), NMust, NMay, NMapped, NIgnored, NOddRoot>>)
====
