----------------------------- MODULE PipeConfig -----------------------------
(* C03 (G) -- run configurations (target x snippet directory x model x argument defect) and        *)
(* same-rule mutation pairs.                                                                       *)
(*                                                                                               *)
(* Configurations: "all meta-models, snippet directories and targets" of the property's           *)
(* quantifier, restricted to existing paths (DESIGN section 5).                                   *)
(* Pairs: a valid model with two unrelated classes Alpha and Beta; `Break(rule, S)` breaks the    *)
(* same structural rule on the classes in S.  The messages reported for {Alpha} and for {Beta}    *)
(* must both occur in the report for {Alpha, Beta}: the front end reports every independent error *)
(* it found (same rule => same phase, whatever the order of passes).                              *)
EXTENDS Naturals, Sequences, FiniteSets

Targets == {"cpp", "csharp", "golang", "java", "jsonschema", "python", "typescript", "xsd"}

\* what the snippet directory looks like
SnippetDirs == {"default",        \* the minimal set the target needs
                "empty",          \* nothing (mandatory snippets missing)
                "junk_key",       \* + a file whose relative path is not a valid key
                "non_utf8",       \* + a file that is not UTF-8
                "bad_content",    \* mandatory snippet present but malformed
                "hidden_files",   \* + .gitignore (ignored by design)
                "nested_dirs"}    \* + unrelated nested snippet

\* which model
Models == {"valid",               \* accepted everywhere
           "impl_class",          \* implementation-specific class / method / verification: snippets needed
           "understood_method",   \* a non-implementation-specific method
           "contracts",           \* pre-conditions on an implementation-specific method
           "type_error",          \* passes the front end, fails the target's type inference
           "infer_error",         \* contradictory length invariants: schema constraint inference fails
           "front_error",         \* rejected by the front end (two errors in two phases)
           "syntax_error",
           "import_error",
           "pattern_features",    \* patterns with features some targets cannot transpile
           "surrogate",           \* a lone surrogate in an enumeration literal: cannot be encoded on write
           "name_collision",      \* property names that collide after case conversion in some targets
           "cs_name_collision"}   \* class names that collide in C# (verify_for_types fails)

ArgDefects == {"none", "model_not_file", "snippets_not_dir", "output_not_dir", "out_blocked"}

\* models that exercise the targets' own error paths, not the generators' internals (C02's ground)
TargetModels == {"valid", "impl_class", "understood_method", "contracts", "type_error", "infer_error",
                 "front_error", "syntax_error", "import_error"}
SchemaTargets == {"jsonschema", "xsd"}

Configs ==
    {[target |-> t, snippets |-> s, model |-> m, arg |-> "none"] : t \in Targets, s \in SnippetDirs, m \in {"valid", "impl_class"}}
    \cup {[target |-> t, snippets |-> "default", model |-> m, arg |-> "none"] : t \in Targets, m \in TargetModels}
    \cup {[target |-> t, snippets |-> "default", model |-> m, arg |-> "none"] : t \in SchemaTargets, m \in Models}
    \cup {[target |-> t, snippets |-> "default", model |-> "valid", arg |-> a] : t \in Targets, a \in ArgDefects}
    \cup {[target |-> "jsonschema", snippets |-> s, model |-> m, arg |-> a] : s \in {"default", "junk_key"}, m \in {"valid", "front_error", "syntax_error"}, a \in ArgDefects}

(* Histories: a configuration is run once, or twice in a row into the same output directory and with the   *)
(* same model cache (a re-generation: the output files already exist, byte for byte what will be written). *)
(* Every clause must hold for every run of a history.                                                       *)
Reruns == {c \in Configs : c.model = "valid" /\ c.snippets \in {"default", "nested_dirs"} /\ c.arg = "none"}
Histories == {<<c>> : c \in Configs} \cup {<<c, c>> : c \in Reruns}

(* Histories with the model cache switched on (--cache_model): run, something happens to the cache file, run   *)
(* again on the unchanged model.  Every clause must hold for both runs.                                        *)
CacheHistories == {[target |-> t, between |-> b] : t \in {"jsonschema", "xsd"},
                                                   b \in {"nothing", "truncate", "garbage", "empty_file", "delete"}}

-----------------------------------------------------------------------------
Rules == {"prop_not_initialized", "ctor_arg_without_prop", "optional_without_default", "invariant_without_description",
          "duplicate_invariant_description", "unknown_base", "unknown_property_type", "reserved_property_name",
          "doc_reference_unknown", "invariant_unknown_function", "list_of_optionals", "property_with_value",
          "understood_method_bad_body", "pattern_not_anchored", "bad_docstring_rst", "constant_set_wrong_literal",
          "enum_int_value", "default_not_none", "unknown_decorator", "subscript_arity", "self_reference_in_ctor",
          "contract_unknown_argument",
          \* two sites in ONE class and on ONE source line (operands of one invariant), identical messages:
          \* the double mutation must report the message twice
          "same_line_len_arity", "same_line_unknown_call"}
Sites == {{"Alpha"}, {"Beta"}, {"Alpha", "Beta"}}
\* on: sequence (sorted) of the classes on which the rule is broken
SeqOf(S) == IF S = {"Alpha"} THEN <<"Alpha">> ELSE IF S = {"Beta"} THEN <<"Beta">> ELSE <<"Alpha", "Beta">>
PairCases == {[rule |-> r, on |-> SeqOf(S)] : r \in Rules, S \in Sites}
=============================================================================
