INIT SimInit
NEXT SimNext
CONSTANTS
  Runs = {r1, r2}
  Texts = {t1, t2}
  Chunks = 2
  UniqueTmp = TRUE
  DirectWrite = FALSE
  MaxStarts = 3
  CrashOdds = 6
CONSTRAINT Emit
INVARIANT FinalAlwaysComplete
