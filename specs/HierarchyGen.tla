---- MODULE HierarchyGen ----
(* G phase for C05: the hierarchies of HierarchyCases.tla with <= N classes, written as JSON. *)
EXTENDS HierarchyCases, Json, IOUtils, SequencesExt
CONSTANTS N, Full, Fifth
Cases == UpTo(N, Full) \cup (IF Fifth THEN Part5(FALSE) ELSE {})
ASSUME JsonSerialize(IOEnv.VERIF_OUT, SetToSeq(Cases))
ASSUME PrintT(<<"@@PRINT@@ cases", Cardinality(Cases)>>)
VARIABLE dummy
Init == dummy = 0
Next == UNCHANGED dummy
====
