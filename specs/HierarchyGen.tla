---- MODULE HierarchyGen ----
(* G phase for C05: the hierarchies of HierarchyCases.tla with <= N classes, written as JSON. *)
EXTENDS HierarchyCases, Json, IOUtils, SequencesExt
CONSTANTS N
Cases ==
    UpTo(PartA, N) \cup UpTo(PartB, N) \cup UNION {PartC(n, n <= 3) : n \in 1..N}
    \cup UpTo(PartD, N) \cup UpTo(PartE, N) \cup UpTo(PartF, N) \cup UpTo(PartH, N)
ASSUME JsonSerialize(IOEnv.VERIF_OUT, SetToSeq(Cases))
ASSUME PrintT(<<"@@PRINT@@ cases", Cardinality(Cases)>>)
VARIABLE dummy
Init == dummy = 0
Next == UNCHANGED dummy
====
