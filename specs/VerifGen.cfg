INIT Init
NEXT Next
CONSTANTS
  Wide = FALSE
  BatchSize = 16
  NInst = 30
  StrLen = 3
