INIT Init
NEXT Next
CONSTANTS
  Wide = FALSE
  BatchSize = 16
  NInst = 24
  StrLen = 3
