INIT Init
NEXT Next
INVARIANT Inv_Builds_cpp
INVARIANT Inv_Builds_java
INVARIANT Inv_Verify_cpp
INVARIANT Inv_Verify_java
INVARIANT Inv_Json_cpp
INVARIANT Inv_Docs_cpp
INVARIANT Inv_Consts_cpp
INVARIANT Inv_Consts_java
INVARIANT Inv_Enums_cpp
INVARIANT Inv_Enums_java
INVARIANT Inv_Ref_Builds
INVARIANT Inv_Ref_Verify
INVARIANT Inv_Ref_Json
INVARIANT Inv_Ref_Docs
INVARIANT Inv_Ref_Consts
INVARIANT Inv_Ref_Enums
