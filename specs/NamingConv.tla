---- MODULE NamingConv ----
(* S phase of C21: the images of every identifier of the universe under every conversion of Naming.tla, written as   *)
(* JSON so that the harness can compare them with the real functions of aas_core_codegen (naming.py, python/naming.py, *)
(* golang/naming.py).                                                                                                  *)
EXTENDS Naming, SequencesExt, Json, IOUtils, TLC
CONSTANT MaxParts
U == Ids(MaxParts)
Rows == {[text |-> Text(id), fn |-> f, image |-> Conv(f, id), type_like |-> TypeLike(id)] : id \in U, f \in Fns}
ASSUME JsonSerialize(IOEnv.VERIF_OUT, SetToSeq(Rows))
ASSUME PrintT(<<"@@PRINT@@ rows", Cardinality(Rows)>>)
VARIABLE dummy
Init == dummy = 0
Next == UNCHANGED dummy
====
