INIT Init
NEXT Next
CONSTANTS
  PairScope = "core"
  DocScope = "core"
