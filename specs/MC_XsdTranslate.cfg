SPECIFICATION Spec
CONSTANTS
  Rich = FALSE
  MaxStr = 2
INVARIANT Faithful
