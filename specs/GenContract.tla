---- MODULE GenContract ----
(***************************************************************************************************)
(* C02 -- the contract of one generator run, stated over what a caller of main.execute (or of     *)
(* smoke.main.execute) can observe, in order:                                                      *)
(*    w      a file under the output directory is opened for writing                               *)
(*    e      something is written to stderr                                                        *)
(*    o      something is written to stdout                                                        *)
(*    ret(n) the entry point returns n (the exit status)        -- closes the run                  *)
(*    raise  an exception leaves the entry point                -- closes the run                  *)
(* A trace is run-length encoded: a sequence of records [k, n] where n is the repetition count,    *)
(* or the returned status for k = "ret".  Variable-free; used by GenRun (M) and GenTrace (V).      *)
(*                                                                                                 *)
(* The sentence of C02: "the generator either writes its output and exits 0 or reports the problem *)
(* on stderr and exits non-zero; it never raises an uncaught exception. The smoke tool obeys the   *)
(* same rule."  One operator per clause; nothing is said about the order of w/e/o, about stdout,   *)
(* or about partial output left behind by a reported failure.                                      *)
(***************************************************************************************************)
EXTENDS Naturals, Sequences

Kinds == {"w", "e", "o", "ret", "raise"}
IsTrace(tr) == \A i \in DOMAIN tr : tr[i].k \in Kinds /\ tr[i].n \in Nat

RECURSIVE CountFrom(_, _, _)
CountFrom(tr, k, i) == IF i > Len(tr) THEN 0 ELSE (IF tr[i].k = k THEN tr[i].n ELSE 0) + CountFrom(tr, k, i + 1)
Count(tr, k) == CountFrom(tr, k, 1)

Closed(tr) == Len(tr) > 0 /\ tr[Len(tr)].k \in {"ret", "raise"}
                /\ \A i \in 1..(Len(tr) - 1) : tr[i].k \notin {"ret", "raise"}
Returned(tr) == Closed(tr) /\ tr[Len(tr)].k = "ret"
Raised(tr) == Closed(tr) /\ tr[Len(tr)].k = "raise"
Status(tr) == tr[Len(tr)].n

(* clauses ---------------------------------------------------------------------------------------- *)
\* "it never raises an uncaught exception"
NoUncaughtException(tr) == ~Raised(tr)
\* "writes its output and exits 0": a zero status comes with silence on stderr and, for a generator, with output
ExitZeroWroteOutput(tr, isGenerator) ==
    Returned(tr) /\ Status(tr) = 0 => Count(tr, "e") = 0 /\ (isGenerator => Count(tr, "w") >= 1)
\* "reports the problem on stderr and exits non-zero"
NonZeroReported(tr) == Returned(tr) /\ Status(tr) # 0 => Count(tr, "e") >= 1

Accepts(tr, isGenerator) ==
    /\ Closed(tr)
    /\ NoUncaughtException(tr)
    /\ ExitZeroWroteOutput(tr, isGenerator)
    /\ NonZeroReported(tr)
====
