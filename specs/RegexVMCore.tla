---- MODULE RegexVMCore ----
(***************************************************************************************************)
(* The regex virtual machine of aas-core-codegen (intermediate/revm.py, generated C++ revm.hpp/.cpp)  *)
(* -- variable-free part: programs as data, the documented instruction semantics in big-step form,    *)
(* well-formedness of programs, and the Thompson construction of intermediate/revm.py transcribed     *)
(* (translation with labels and no-ops, relabelling, no-op removal).                                  *)
(*                                                                                                 *)
(* A program is a sequence of instructions; program counters are 0-based as in the code (the          *)
(* instruction at pc is prog[pc + 1]):                                                               *)
(*   [op |-> "char", c]            consume one character equal to c                                  *)
(*   [op |-> "set", ranges]        consume one character inside one of the ranges <<[lo, hi], ...>>    *)
(*   [op |-> "notset", ranges]     consume one character outside all ranges                           *)
(*   [op |-> "any"]                consume one character                                             *)
(*   [op |-> "match"]              stop and signal a match                                           *)
(*   [op |-> "jump", t]            continue at t                                                     *)
(*   [op |-> "split", t1, t2]      continue at t1 and at t2 (two threads, same string pointer)        *)
(*   [op |-> "end"]                continue at pc + 1 iff the string pointer is at the end of input   *)
(***************************************************************************************************)
EXTENDS Regex

IChar(c) == [op |-> "char", c |-> c]
ISet(rs) == [op |-> "set", ranges |-> rs]
INotSet(rs) == [op |-> "notset", ranges |-> rs]
IAny == [op |-> "any"]
IMatch == [op |-> "match"]
IJump(t) == [op |-> "jump", t |-> t]
ISplit(t1, t2) == [op |-> "split", t1 |-> t1, t2 |-> t2]
IEnd == [op |-> "end"]

InstrAt(prog, pc) == prog[pc + 1]
ValidPc(prog, pc) == 0 <= pc /\ pc < Len(prog)
InVmRanges(c, rs) == \E r \in 1..Len(rs) : rs[r].lo <= c /\ c <= rs[r].hi
Consuming(ins) == ins.op \in {"char", "set", "notset", "any"}
Accepts1(ins, c) ==
  CASE ins.op = "char" -> c = ins.c
    [] ins.op = "set" -> InVmRanges(c, ins.ranges)
    [] ins.op = "notset" -> ~InVmRanges(c, ins.ranges)
    [] ins.op = "any" -> TRUE
    [] OTHER -> FALSE

\* every jump / split target is an instruction of the program
TargetsExist(prog) ==
  \A n \in 1..Len(prog) :
     CASE prog[n].op = "jump" -> ValidPc(prog, prog[n].t)
       [] prog[n].op = "split" -> ValidPc(prog, prog[n].t1) /\ ValidPc(prog, prog[n].t2)
       [] OTHER -> TRUE
\* no thread can run off the end: the last instruction does not continue at pc + 1
NoFallOff(prog) == Len(prog) > 0 /\ prog[Len(prog)].op \in {"match", "jump", "split"}
\* range lists are sorted, disjoint and not empty, as the generated C++ constructors demand
RangesWellFormed(prog) ==
  \A n \in 1..Len(prog) : prog[n].op \in {"set", "notset"} =>
     /\ Len(prog[n].ranges) > 0
     /\ \A r \in 1..Len(prog[n].ranges) : prog[n].ranges[r].lo <= prog[n].ranges[r].hi
     /\ \A r \in 1..(Len(prog[n].ranges) - 1) : prog[n].ranges[r].hi < prog[n].ranges[r + 1].lo
WellFormedProgram(prog) == TargetsExist(prog) /\ NoFallOff(prog)

(***************************************************************************************************)
(* Big-step semantics (any implementation of the documented instruction semantics): a set of threads  *)
(* per string position, closed under the non-consuming instructions; the program accepts iff some     *)
(* thread executes "match" -- at whatever string position, as "match" stops and signals.              *)
(***************************************************************************************************)
Successors(prog, s, sp, pc) ==
  LET ins == InstrAt(prog, pc)
  IN CASE ins.op = "jump" -> {ins.t}
       [] ins.op = "split" -> {ins.t1, ins.t2}
       [] ins.op = "end" -> IF sp = Len(s) THEN {pc + 1} ELSE {}
       [] OTHER -> {}
RECURSIVE ThreadClosure(_, _, _, _)
ThreadClosure(prog, s, sp, S) ==
  LET R == S \cup {q \in UNION {Successors(prog, s, sp, pc) : pc \in S} : ValidPc(prog, q)}
  IN IF R = S THEN S ELSE ThreadClosure(prog, s, sp, R)
AfterConsuming(prog, s, sp, S) ==
  {q \in {pc + 1 : pc \in {p \in S : Accepts1(InstrAt(prog, p), s[sp + 1])}} : ValidPc(prog, q)}
RECURSIVE RunFrom(_, _, _, _)
RunFrom(prog, s, sp, S) ==
  LET C == ThreadClosure(prog, s, sp, S)
  IN IF \E pc \in C : InstrAt(prog, pc).op = "match" THEN TRUE
     ELSE IF sp = Len(s) \/ C = {} THEN FALSE
     ELSE RunFrom(prog, s, sp + 1, AfterConsuming(prog, s, sp, C))
VMAccepts(prog, s) == Len(prog) > 0 /\ RunFrom(prog, s, 0, {0})

(***************************************************************************************************)
(* The translation of intermediate/revm.py, transcribed.  Leaves carry an optional label (-1 = none);  *)
(* no-ops are placeholders for labels; Relabel maps every label to the index of the next real          *)
(* instruction and drops the no-ops (_relabel_in_place + _remove_noop_in_place).                       *)
(* A translation step returns [code |-> <<leaf, ...>>, next |-> next free label].                      *)
(***************************************************************************************************)
NoLabel == -1
Leaf(ins, l) == [ins |-> ins, label |-> l]
Noop == [op |-> "noop"]
Out(code, nx) == [code |-> code, next |-> nx]

\* ranges of a character set as the VM wants them: [lo, hi] pairs sorted by lo
RECURSIVE SortRanges(_)
SortRanges(rs) ==
  IF rs = <<>> THEN <<>>
  ELSE LET m == CHOOSE a \in 1..Len(rs) : \A b \in 1..Len(rs) : rs[a].lo <= rs[b].lo
       IN <<rs[m]>> \o SortRanges([n \in 1..(Len(rs) - 1) |-> IF n < m THEN rs[n] ELSE rs[n + 1]])
VmRanges(v) == SortRanges([r \in 1..Len(v.ranges) |-> [lo |-> v.ranges[r].lo.c, hi |-> v.ranges[r].hi.c]])

RECURSIVE TrV(_, _), TrTerm(_, _), TrTerms(_, _, _), TrCat(_, _), TrAlt(_, _), TrAlts(_, _, _, _), TrCopies(_, _, _),
          TrOptional(_, _, _, _)
TrV(v, nx) ==
  CASE v.k = "char" -> Out(<<Leaf(IChar(v.c), NoLabel)>>, nx)
    [] v.k = "set" -> Out(<<Leaf(IF v.neg THEN INotSet(VmRanges(v)) ELSE ISet(VmRanges(v)), NoLabel)>>, nx)
    [] v.k = "dot" -> Out(<<Leaf(IAny, NoLabel)>>, nx)
    [] v.k = "end" -> Out(<<Leaf(IEnd, NoLabel)>>, nx)
    [] v.k = "group" -> TrAlt(v.alt, nx)
\* n copies of the value, one after the other
TrCopies(v, n, nx) ==
  IF n = 0 THEN Out(<<>>, nx)
  ELSE LET a == TrV(v, nx)
           b == TrCopies(v, n - 1, a.next)
       IN Out(a.code \o b.code, b.next)
\* n optional copies: split l1, final; l1: noop; value
TrOptional(v, n, final, nx) ==
  IF n = 0 THEN Out(<<>>, nx)
  ELSE LET l1 == nx
           a == TrV(v, nx + 1)
           b == TrOptional(v, n - 1, final, a.next)
       IN Out(<<Leaf(ISplit(l1, final), NoLabel), Leaf(Noop, l1)>> \o a.code \o b.code, b.next)
TrTerm(t, nx) ==
  IF ~t.q.has \/ (t.q.min = 1 /\ t.q.max = 1) THEN TrV(t.v, nx)
  ELSE IF t.q.max # Unbounded
  THEN LET a == TrCopies(t.v, t.q.min, nx)
           k == t.q.max - t.q.min
       IN IF k = 0 THEN a
          ELSE LET final == a.next
                   b == TrOptional(t.v, k, final, a.next + 1)
               IN Out(a.code \o b.code \o <<Leaf(Noop, final)>>, b.next)
  ELSE IF t.q.min = 0
  THEN LET l1 == nx
           l2 == nx + 1
           final == nx + 2
           a == TrV(t.v, nx + 3)
       IN Out(<<Leaf(ISplit(l2, final), l1), Leaf(Noop, l2)>> \o a.code \o <<Leaf(IJump(l1), NoLabel), Leaf(Noop, final)>>, a.next)
  ELSE LET a == TrCopies(t.v, t.q.min - 1, nx)
           l1 == a.next
           final == a.next + 1
           b == TrV(t.v, a.next + 2)
       IN Out(a.code \o <<Leaf(Noop, l1)>> \o b.code \o <<Leaf(ISplit(l1, final), NoLabel), Leaf(Noop, final)>>, b.next)
TrTerms(ts, n, nx) ==
  IF n > Len(ts) THEN Out(<<>>, nx)
  ELSE LET a == TrTerm(ts[n], nx)
           b == TrTerms(ts, n + 1, a.next)
       IN Out(a.code \o b.code, b.next)
TrCat(c, nx) == IF Len(c.terms) = 0 THEN Out(<<Leaf(Noop, NoLabel)>>, nx) ELSE TrTerms(c.terms, 1, nx)
\* alternatives n..Len(cats): split l0, l1; l0: noop; cat; jump final; l1: noop; ... ; last cat; final: noop
TrAlts(cats, n, final, nx) ==
  IF n = Len(cats)
  THEN LET a == TrCat(cats[n], nx) IN Out(a.code \o <<Leaf(Noop, final)>>, a.next)
  ELSE LET l0 == nx
           l1 == nx + 1
           a == TrCat(cats[n], nx + 2)
           b == TrAlts(cats, n + 1, final, a.next)
       IN Out(<<Leaf(ISplit(l0, l1), NoLabel), Leaf(Noop, l0)>> \o a.code \o <<Leaf(IJump(final), NoLabel), Leaf(Noop, l1)>> \o b.code, b.next)
TrAlt(a, nx) ==
  IF Len(a.cats) = 0 THEN Out(<<Leaf(Noop, NoLabel)>>, nx)
  ELSE IF Len(a.cats) = 1 THEN TrCat(a.cats[1], nx)
  ELSE TrAlts(a.cats, 1, nx, nx + 1)

\* the root: anchored pattern, "^" skipped, the suffix ".*$" replaced by an early "match"
IsDotStar(t) == t.v.k = "dot" /\ t.q.has /\ t.q.min = 0 /\ t.q.max = Unbounded
Translatable(re) == Anchored(re) /\ ~HasInnerStart(re) /\ ~AnyTermAlt(re, IsNonGreedy)
RootTerms(re) ==
  LET ts == re.cats[1].terms
      n == Len(ts)
  IN IF n >= 3 /\ IsDotStar(ts[n - 1]) THEN SubSeq(ts, 2, n - 2) ELSE SubSeq(ts, 2, n)
TrRoot(re) == LET a == TrTerms(RootTerms(re), 1, 0) IN a.code \o <<Leaf(IMatch, NoLabel)>>

\* _relabel_in_place + _remove_noop_in_place
IsNoop(leaf) == leaf.ins.op = "noop"
RealBefore(code, n) == Cardinality({m \in 1..(n - 1) : ~IsNoop(code[m])})      \* = index of leaf n if it is real
NewLabel(code, l) ==
  LET n == CHOOSE m \in 1..Len(code) : code[m].label = l
  IN RealBefore(code, n)          \* a no-op takes the index of the next real instruction, a real one its own
Retarget(code, ins) ==
  CASE ins.op = "jump" -> IJump(NewLabel(code, ins.t))
    [] ins.op = "split" -> ISplit(NewLabel(code, ins.t1), NewLabel(code, ins.t2))
    [] OTHER -> ins
RECURSIVE DropNoops(_, _, _)
DropNoops(code, n, all) ==
  IF n > Len(code) THEN <<>>
  ELSE (IF IsNoop(code[n]) THEN <<>> ELSE <<Retarget(all, code[n].ins)>>) \o DropNoops(code, n + 1, all)
Relabel(code) == DropNoops(code, 1, code)
Translate(re) == Relabel(TrRoot(re))
====
