INIT Init
NEXT Next
INVARIANT Inv_Denotes
INVARIANT Inv_EmitterTotal
INVARIANT Inv_UnrepresentableIsReported
INVARIANT Inv_SpecAgreesWithCompiler
