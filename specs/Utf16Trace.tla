---- MODULE Utf16Trace ----
(***************************************************************************************************)
(* V phase of C17.  One observation per pattern text: the tree retree.parse made of it, the tree     *)
(* after fix_for_utf16_regex_in_place (or the exception it raised), the text returned by             *)
(* jsonschema.main.fix_pattern_for_utf16 re-parsed into a tree, and Python's verdicts (S).           *)
(* The property is decided here: for every string s of scalar values over the case alphabet,         *)
(*      FullMatch(original tree, s)  <=>  FullMatch(rewritten tree, Utf16(s))                         *)
(* with the rewritten tree imported as data and matched per code unit.                                *)
(* Variables as in RegexTrace: blk / i / culprit.                                                    *)
(***************************************************************************************************)
EXTENDS Regex, Json, IOUtils, TLC
CONSTANT BlockSize
Obs == JsonDeserialize(IOEnv.VERIF_OBS)
N == Len(Obs)
VARIABLES blk, i, culprit, failing

\* a BMP range that contains the surrogate block: a UTF-16 engine lets it match half of an astral character
SpansSurrogates(v) ==
  v.k = "set" /\ ~v.neg /\ \E r \in 1..Len(v.ranges) : v.ranges[r].lo.c < 55296 /\ v.ranges[r].hi.c > 57343 /\ ~IsAstral(v.ranges[r].hi.c)
UnitWiseCulprit(x) ==
  IF AnyValueAlt(x.parsed, IsDot) THEN <<"dot">>
  ELSE IF AnyValueAlt(x.parsed, IsNegSet) THEN <<"complemented_set">>
  ELSE IF AnyValueAlt(x.parsed, SpansSurrogates) THEN <<"bmp_range_spans_surrogates">> ELSE <<"none">>
CulpritOf(x) ==
  [Inv_RewriteYieldsPattern |->
      IF x.fix = "exception" THEN <<x.fix_exc.type, x.fix_exc.where>>
      ELSE IF x.js = "exception" THEN <<x.js_exc.type, x.js_exc.where>> ELSE <<"none">>,
   Inv_SameLanguageUtf16 |-> UnitWiseCulprit(x),
   Inv_SchemaTextSameLanguage |-> UnitWiseCulprit(x),
   S_OriginalAgreesWithRe |-> <<"none">>,
   S_Utf16AgreesWithRe |-> <<"none">>]


\* strings of scalar values over the case alphabet; a string is named by its position in the enumeration
\* "shorter first, then lexicographic by position in the alphabet"
Strings(x) == StringsUpTo(SeqToSet(x.alpha), x.maxlen)
PosIn(c, A) == CHOOSE p \in 1..Len(A) : A[p] = c
RECURSIVE Digits0(_, _, _)
Digits0(s, n, A) == IF n = 0 THEN 0 ELSE Digits0(s, n - 1, A) * Len(A) + (PosIn(s[n], A) - 1)
Idx(s, A) == (IF Len(s) = 0 THEN 0 ELSE CountUpTo(Len(A), Len(s) - 1)) + Digits0(s, Len(s), A)

\* domain of the property: strings without lone surrogates (scalar values), patterns that do not themselves
\* name surrogate code points (DESIGN 5.3; the rewriting documents that such patterns become more permissive)
InDomain(x) == x.accepted /\ ~AnyValueAlt(x.parsed, MentionsSurrogate) /\ \A n \in 1..Len(x.alpha) : IsScalar(x.alpha[n])
SameLanguage16(t, t16, x) == \A s \in Strings(x) : FullMatch(t, s) <=> FullMatch(t16, Utf16(s))


\* "the rewriting for UTF-16 engines yields a pattern"
C_Inv_RewriteYieldsPattern(o) == o.accepted => o.fix = "ok" /\ o.js = "ok"
\* "... that matches the UTF-16 code-unit encoding of a string exactly when the original pattern matches the string"
C_Inv_SameLanguageUtf16(o) == InDomain(o) /\ o.fix = "ok" => SameLanguage16(o.parsed, o.fixed, o)
\* the same for the text that the schema generators emit (fix_pattern_for_utf16 = parse, rewrite, render)
C_Inv_SchemaTextSameLanguage(o) ==
  InDomain(o) /\ o.js = "ok" => o.js_reparsed /\ (o.js_tree = o.fixed \/ SameLanguage16(o.parsed, o.js_tree, o))
\* S: Python `re` agrees with Regex.tla on the original text over scalar strings, and on the rewritten text over
\* code-unit strings
C_S_OriginalAgreesWithRe(o) ==
  InDomain(o) /\ o.orig_compiles =>
     SeqToSet(o.re_orig_full) = {Idx(s, o.alpha) : s \in {u \in Strings(o) : FullMatch(o.parsed, u)}}
C_S_Utf16AgreesWithRe(o) ==
  InDomain(o) /\ o.js = "ok" /\ o.js_reparsed /\ o.js_compiles =>
     SeqToSet(o.re_js_full16) = {Idx(s, o.alpha) : s \in {u \in Strings(o) : FullMatch(o.js_tree, Utf16(u))}}

\* every clause is evaluated once per observation, when the observation is taken up (Next): `failing` is the set of
\* clauses the observation violates.  The invariants only look the names up, so that TLC -- which reports the first
\* violated invariant of a state only -- still hands over *all* violated clauses of the case with the state it prints
\* (a clause under a known finding cannot mask another clause on the same case).
ClauseNames == {"Inv_RewriteYieldsPattern", "Inv_SameLanguageUtf16", "Inv_SchemaTextSameLanguage", "S_OriginalAgreesWithRe", "S_Utf16AgreesWithRe"}
Holds(n, x) ==
  CASE n = "Inv_RewriteYieldsPattern" -> C_Inv_RewriteYieldsPattern(x)
    [] n = "Inv_SameLanguageUtf16" -> C_Inv_SameLanguageUtf16(x)
    [] n = "Inv_SchemaTextSameLanguage" -> C_Inv_SchemaTextSameLanguage(x)
    [] n = "S_OriginalAgreesWithRe" -> C_S_OriginalAgreesWithRe(x)
    [] n = "S_Utf16AgreesWithRe" -> C_S_Utf16AgreesWithRe(x)
FailingOf(x) == {n \in ClauseNames : ~Holds(n, x)}

Blocks == 0..((N - 1) \div BlockSize)
Init == blk \in Blocks /\ i = 0 /\ culprit = <<>> /\ failing = {}
Next == /\ i = 0
        /\ \E j \in (blk * BlockSize + 1)..(IF (blk + 1) * BlockSize < N THEN (blk + 1) * BlockSize ELSE N) :
              i' = j /\ culprit' = CulpritOf(Obs[j]) /\ failing' = FailingOf(Obs[j])
        /\ UNCHANGED blk

Inv_RewriteYieldsPattern == "Inv_RewriteYieldsPattern" \notin failing
Inv_SameLanguageUtf16 == "Inv_SameLanguageUtf16" \notin failing
Inv_SchemaTextSameLanguage == "Inv_SchemaTextSameLanguage" \notin failing
S_OriginalAgreesWithRe == "S_OriginalAgreesWithRe" \notin failing
S_Utf16AgreesWithRe == "S_Utf16AgreesWithRe" \notin failing

\* non-vacuity: accepted patterns; patterns whose rewriting changed the tree; among them those matched by some string
\* with an astral character
Rewritten(x) == x.accepted /\ x.fix = "ok" /\ x.fixed # x.parsed
HasAstralString(x) == \E n \in 1..Len(x.alpha) : IsAstral(x.alpha[n])
IsAccepted(x) == x.accepted
Raised(x) == x.fix = "exception"
ASSUME LET obs == Obs
           Count(P(_)) == Cardinality({n \in 1..Len(obs) : P(obs[n])})
           NonTrivial(x) == Rewritten(x) /\ HasAstralString(x)
       IN PrintT(<<"@@PRINT@@ counts", Len(obs), Count(IsAccepted), Count(Rewritten), Count(Raised), Count(NonTrivial)>>)
====
