---- MODULE WrapGen ----
(* G phase for C27: the case space (texts built from a vocabulary of parts x widths), written as JSON. *)
EXTENDS Wrap, Json, IOUtils
CONSTANTS MaxParts, MaxWidth
\* "", "a", "an", "the", "at", "them", "x", "xyz", "wwwww"
Vocabulary == {<<>>, <<97>>, <<97,110>>, <<116,104,101>>, <<97,116>>, <<116,104,101,109>>, <<120>>, <<120,121,122>>, <<119,119,119,119,119>>}
PartSeqs == UNION {[1..n -> Vocabulary] : n \in 1..MaxParts}
Cases == {[text |-> JoinSp(ps), width |-> w] : ps \in PartSeqs, w \in 1..MaxWidth}
ASSUME JsonSerialize(IOEnv.VERIF_OUT, SetToSeq(Cases))
ASSUME PrintT(<<"@@PRINT@@ cases", Cardinality(Cases)>>)
VARIABLE dummy
Init == dummy = 0
Next == UNCHANGED dummy
====
